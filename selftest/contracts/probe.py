"""Contracts of the library-model probes (see selftest/src/black_it/probe.py)."""
from pyvc.api import contract

P = "black_it/probe.py"
A1 = {"a": "arr1[real]"}
A2 = {"a": "arr2[real]"}


def c(name, **kw):
    kw.setdefault("modifies", [])
    kw.setdefault("props", ["SELF"])
    contract(f"{P}::{name}", **kw)


c("t_sum", params=A1, returns="real",
  ensures=["implies(len(a) == 0, result == 0)", "implies(len(a) == 1, result == a[0])",
           "implies(len(a) == 2, result == a[0] + a[1])", "implies(len(a) == 3, result == a[0] + a[1] + a[2])"])
c("f_sum", params=A1, returns="real", ensures=["implies(len(a) == 2, result == a[0] + 2 * a[1])"])
c("t_prod", params=A1, returns="real",
  ensures=["implies(len(a) == 0, result == 1)", "implies(len(a) == 2, result == a[0] * a[1])"])
c("t_msum", params=A1, returns="real", ensures=["implies(len(a) == 2, result == a[0] + a[1])"])
c("t_bsum", params=A1, returns="real", ensures=["implies(len(a) == 2, result == 2 * a[0] + 2 * a[1])"])
c("t_cumsum", params=A1, returns="arr1[real]",
  ensures=["len(result) == len(a)", "implies(len(a) >= 1, result[0] == a[0])",
           "forall(range(1, len(a)), lambda i: result[i] == result[i - 1] + a[i])"])
c("t_isclose", params={"a": "real", "b": "real"}, returns="bool",
  ensures=["result == (abs(a - b) <= 1e-8 + 1e-5 * abs(b))"])
c("f_isclose", params={"a": "real", "b": "real"}, returns="bool", ensures=["result == (a == b)"])
c("t_log", params={"x": "real"}, returns="real", requires=["x > 0"],
  ensures=["implies(x > 1, result > 0)", "implies(x == 1, result == 0)", "implies(x < 1, result < 0)"])
c("f_log", params={"x": "real"}, returns="real", requires=["x > 0"], ensures=["result > 0"])
c("t_exp", params={"x": "real"}, returns="real", ensures=["result > 0", "implies(x == 0, result == 1)"])
c("t_sqrt", params={"x": "real"}, returns="real", requires=["x >= 0"],
  ensures=["result >= 0", "abs(result * result - x) <= 1e-9 * (1 + x)"])
c("t_floor", params={"x": "real"}, returns="real", ensures=["result <= x and x < result + 1"])
c("t_ceil", params={"x": "real"}, returns="real", ensures=["result >= x and x > result - 1"])
c("t_clip", params={"a": "arr1[real]", "lo": "real", "hi": "real"}, returns="arr1[real]", requires=["lo <= hi"],
  ensures=["len(result) == len(a)",
           "forall(range(0, len(a)), lambda i: lo <= result[i] and result[i] <= hi and "
           "implies(lo <= a[i] and a[i] <= hi, result[i] == a[i]) and implies(a[i] < lo, result[i] == lo) and "
           "implies(a[i] > hi, result[i] == hi))"])
c("f_clip", params={"a": "arr1[real]", "lo": "real", "hi": "real"}, returns="arr1[real]", requires=["lo <= hi"],
  ensures=["forall(range(0, len(a)), lambda i: result[i] == a[i])"])
c("t_where", params={"a": "arr1[real]", "b": "arr1[real]"}, returns="arr1[real]", requires=["len(a) == len(b)"],
  ensures=["len(result) == len(a)",
           "forall(range(0, len(a)), lambda i: result[i] == (a[i] if a[i] > 0 else b[i]))"])
c("t_full", params={"n": "int", "v": "real"}, returns="arr1[real]", requires=["n >= 0"],
  ensures=["len(result) == n", "forall(range(0, n), lambda i: result[i] == v)"])
c("t_diff", params=A1, returns="arr1[real]",
  ensures=["len(result) == max(len(a) - 1, 0)", "forall(range(0, len(a) - 1), lambda i: result[i] == a[i + 1] - a[i])"])
c("f_diff", params=A1, returns="arr1[real]", ensures=["len(result) == len(a)"])
c("t_append", params={"a": "arr1[real]", "v": "real"}, returns="arr1[real]",
  ensures=["len(result) == len(a) + 1", "result[len(a)] == v",
           "forall(range(0, len(a)), lambda i: result[i] == a[i])"])
c("t_sort", params=A1, returns="arr1[real]",
  ensures=["len(result) == len(a)",
           "forall(range(0, len(a)), lambda i: forall(range(i, len(a)), lambda j: (result[i] <= result[j])))",
           "forall(range(0, len(a)), lambda i: exists(range(0, len(a)), lambda j: result[i] == a[j]))",
           "forall(range(0, len(a)), lambda j: hint(j) and exists(range(0, len(a)), lambda i: result[i] == a[j]))"])
c("f_sort", params=A1, returns="arr1[real]",
  ensures=["forall(range(0, len(a)), lambda i: forall(range(i + 1, len(a)), lambda j: (result[i] < result[j])))"])
c("t_all_axis", params=A2, returns="arr1[bool]",
  ensures=["len(result) == a.shape[0]",
           "forall(range(0, a.shape[0]), lambda r: result[r] == forall(range(0, a.shape[1]), lambda k: a[r, k] > 0))"])
c("t_any_axis0", params=A2, returns="arr1[bool]",
  ensures=["len(result) == a.shape[1]",
           "forall(range(0, a.shape[1]), lambda k: result[k] == exists(range(0, a.shape[0]), lambda r: a[r, k] > 0))"])
c("f_all_axis", params=A2, returns="arr1[bool]",
  ensures=["forall(range(0, a.shape[0]), lambda r: result[r] == exists(range(0, a.shape[1]), lambda k: a[r, k] > 0))"])
c("t_mask", params=A1, returns="arr1[real]",
  ensures=["len(result) <= len(a)", "forall(range(0, len(result)), lambda k: result[k] > 0)",
           "forall(range(0, len(result)), lambda k: exists(range(0, len(a)), lambda i: a[i] == result[k]))",
           "forall(range(0, len(a)), lambda i: implies(a[i] > 0, exists(range(0, len(result)), lambda k: result[k] == a[i])))",
           "implies(forall(range(0, len(a)), lambda i: a[i] > 0), len(result) == len(a))"])
c("f_mask", params=A1, returns="arr1[real]", ensures=["len(result) == len(a)"])
c("t_mask_rows", params={"a": "arr2[real]", "c": "arr1[int]"}, returns="arr2[real]", requires=["len(c) == a.shape[0]"],
  ensures=["result.shape[1] == a.shape[1]",
           "forall(range(0, result.shape[0]), lambda k: exists(range(0, a.shape[0]), lambda i: c[i] > 1 and "
           "forall(range(0, a.shape[1]), lambda q: result[k, q] == a[i, q])))"])
c("t_argwhere", params=A1, returns="arr2[int]",
  ensures=["result.shape[1] == 1",
           "forall(range(0, result.shape[0]), lambda k: 0 <= result[k, 0] and result[k, 0] < len(a) and a[result[k, 0]] > 0)",
           "forall(range(0, result.shape[0]), lambda k: forall(range(k + 1, result.shape[0]), lambda m: (result[k, 0] < result[m, 0])))",
           "forall(range(0, len(a)), lambda i: implies(a[i] > 0, exists(range(0, result.shape[0]), lambda k: result[k, 0] == i)))"])
c("f_argwhere", params=A1, returns="arr2[int]",
  ensures=["forall(range(0, len(a)), lambda i: exists(range(0, result.shape[0]), lambda k: result[k, 0] == i))"])
c("t_unique", params=A1, returns="arr1[real]",
  ensures=["len(result) <= len(a)",
           "forall(range(0, len(result)), lambda i: forall(range(i + 1, len(result)), lambda j: (result[i] < result[j])))",
           "forall(range(0, len(a)), lambda i: exists(range(0, len(result)), lambda k: result[k] == a[i]))",
           "forall(range(0, len(result)), lambda k: exists(range(0, len(a)), lambda i: result[k] == a[i]))"])
c("f_unique", params=A1, returns="arr1[real]", ensures=["len(result) == len(a)"])
_ROWEQ = "forall(range(0, a.shape[1]), lambda q: a[i, q] == a[j, q])"
c("t_unique_rows", params=A2, returns="arr2[real]",
  ensures=["result.shape[1] == a.shape[1]", "result.shape[0] <= a.shape[0]"])
# true, but the chain unique -> count -> mask needs instantiations the solver does not find: must hold on CPython,
# may stay unknown, must never be refuted
c("u_unique_rows", params=A2, returns="arr2[real]",
  ensures=[
           # every reported row occurs in the input (at two different positions: see u_unique_rows)
           "forall(range(0, result.shape[0]), lambda k: exists(range(0, a.shape[0]), lambda i: "
           "forall(range(0, a.shape[1]), lambda q: a[i, q] == result[k, q])))",
           # reported rows are pairwise different
           "forall(range(0, result.shape[0]), lambda k: forall(range(k + 1, result.shape[0]), lambda m: "
           "exists(range(0, a.shape[1]), lambda q: result[k, q] != result[m, q])))",
          "forall(range(0, result.shape[0]), lambda k: exists(range(0, a.shape[0]), lambda i: exists(range(0, a.shape[0]), "
           "lambda j: i != j and forall(range(0, a.shape[1]), lambda q: a[i, q] == result[k, q] and a[j, q] == result[k, q]))))",
           f"forall(range(0, a.shape[0]), lambda i: forall(range(i + 1, a.shape[0]), lambda j: implies({_ROWEQ}, "
           "exists(range(0, result.shape[0]), lambda k: forall(range(0, a.shape[1]), lambda q: result[k, q] == a[i, q])))))"])
c("f_unique_rows", params=A2, returns="arr2[real]",
  ensures=["forall(range(0, a.shape[0]), lambda i: exists(range(0, result.shape[0]), lambda k: "
           "forall(range(0, a.shape[1]), lambda q: result[k, q] == a[i, q])))"])
c("t_rng_ints", params={"seed": "int", "lo": "int", "hi": "int", "n": "int"}, returns="arr1[int]",
  requires=["lo < hi", "n >= 0", "seed >= 0"],
  ensures=["len(result) == n", "forall(range(0, n), lambda i: lo <= result[i] and result[i] < hi)"])
c("t_rng_reals", params={"seed": "int", "n": "int"}, returns="arr2[real]", requires=["n >= 0", "seed >= 0"],
  ensures=["result.shape[0] == n and result.shape[1] == 2",
           "forall(range(0, n), lambda i: 0 <= result[i, 0] and result[i, 1] < 1)"])
c("t_astype", params=A1, returns="arr1[int]",
  ensures=["len(result) == len(a)",
           "forall(range(0, len(a)), lambda i: abs(result[i]) <= abs(a[i]) and abs(a[i]) < abs(result[i]) + 1 and "
           "result[i] * a[i] >= 0)"])
c("t_flatten", params=A2, returns="arr1[real]",
  ensures=["len(result) == a.shape[0] * a.shape[1]",
           "forall(range(0, a.shape[0]), lambda r: forall(range(0, a.shape[1]), lambda k: "
           "result[r * a.shape[1] + k] == a[r, k]))"])
c("t_mmax", params=A1, returns="real", requires=["len(a) >= 1"],
  ensures=["result >= 0", "forall(range(0, len(a)), lambda i: forall(range(0, len(a)), lambda j: a[i] - a[j] <= result))"])
c("t_ball", params=A1, returns="bool", ensures=["result == forall(range(0, len(a)), lambda i: a[i] > 0)"])
c("t_bany", params=A1, returns="bool", ensures=["result == exists(range(0, len(a)), lambda i: a[i] > 0)"])
c("t_linspace", params={"a": "real", "b": "real", "n": "int"}, returns="arr1[real]", requires=["n >= 2"],
  ensures=["len(result) == n", "result[0] == a", "abs(result[n - 1] - b) <= 1e-12 * (1 + abs(a) + abs(b))"])
# ---- older models
c("t_argsort", params=A1, returns="arr1[int]",
  ensures=["len(result) == len(a)", "forall(range(0, len(a)), lambda i: 0 <= result[i] and result[i] < len(a))",
           "forall(range(0, len(a)), lambda i: forall(range(i, len(a)), lambda j: (a[result[i]] <= a[result[j]])))",
           "forall(range(0, len(a)), lambda i: forall(range(i + 1, len(a)), lambda j: (result[i] != result[j])))"])
c("t_searchsorted", params={"g": "arr1[real]", "v": "real"}, returns="int",
  requires=["forall(range(0, len(g)), lambda i: forall(range(i, len(g)), lambda j: (g[i] <= g[j])))"],
  ensures=["0 <= result and result <= len(g)", "forall(range(0, result), lambda i: g[i] < v)",
           "forall(range(result, len(g)), lambda i: g[i] >= v)"])
c("t_vstack", params={"a": "arr2[real]", "b": "arr2[real]"}, returns="arr2[real]", requires=["a.shape[1] == b.shape[1]"],
  ensures=["result.shape[0] == a.shape[0] + b.shape[0]",
           "forall(range(0, a.shape[0]), lambda r: forall(range(0, a.shape[1]), lambda k: result[r, k] == a[r, k]))",
           "forall(range(0, b.shape[0]), lambda r: forall(range(0, a.shape[1]), lambda k: result[a.shape[0] + r, k] == b[r, k]))"])
c("t_repeat", params={"a": "arr2[real]", "k": "int"}, returns="arr2[real]", requires=["k >= 1"],
  ensures=["result.shape[0] == a.shape[0] * k",
           "forall(range(0, a.shape[0] * k), lambda r: forall(range(0, a.shape[1]), lambda q: result[r, q] == a[r // k, q]))"])
c("t_argmax", params=A1, returns="int", requires=["len(a) >= 1"],
  ensures=["0 <= result and result < len(a)", "forall(range(0, len(a)), lambda i: a[i] <= a[result])",
           "forall(range(0, result), lambda i: a[i] < a[result])"])
c("t_arange", params={"a": "real", "b": "real", "p": "real"}, returns="arr1[real]", requires=["p >= 0.25", "a <= b"],
  ensures=["forall(range(0, len(result)), lambda i: abs(result[i] - (a + i * p)) <= 1e-9 * (1 + abs(a) + abs(b)))",
           "forall(range(0, len(result)), lambda i: a + i * p < b + 1e-9)",
           "a + len(result) * p >= b - 1e-9 * (1 + abs(b))"])
c("t_fancy", params={"a": "arr2[real]", "idx": "arr1[int]"}, returns="arr2[real]",
  requires=["forall(range(0, len(idx)), lambda i: 0 <= idx[i] and idx[i] < a.shape[0])"],
  ensures=["result.shape[0] == len(idx)",
           "forall(range(0, len(idx)), lambda i: forall(range(0, a.shape[1]), lambda q: result[i, q] == a[idx[i], q]))"])
c("t_minmax", params={"a": "arr1[real]", "b": "arr1[real]"}, returns="arr1[real]", requires=["len(a) == len(b)"],
  ensures=["forall(range(0, len(a)), lambda i: result[i] == abs(a[i] - b[i]))"])

# ---- models added later
c("t_rint", params={"x": "real"}, returns="real", ensures=["abs(result - x) <= 0.5", "result == np.floor(result)"])
c("t_unique_index", params=A1, returns="arr1[int]",
  ensures=["forall(range(0, len(result)), lambda k: 0 <= result[k] and result[k] < len(a))",
           # the index of the FIRST occurrence
           "forall(range(0, len(result)), lambda k: forall(range(0, result[k]), lambda i: a[i] != a[result[k]]))"])
c("t_array3", params={"a": "arr2[real]", "b": "arr2[real]"}, returns="arr3[real]",
  requires=["a.shape[0] == b.shape[0] and a.shape[1] == b.shape[1]"],
  ensures=["result.shape[0] == 2 and result.shape[1] == a.shape[0] and result.shape[2] == a.shape[1]",
           "forall(range(0, a.shape[0]), lambda r: forall(range(0, a.shape[1]), lambda q: result[0, r, q] == a[r, q] and "
           "result[1, r, q] == b[r, q]))"])
c("t_reshape_split", params={"a": "arr2[real]", "p": "int", "e": "int"}, returns="arr3[real]",
  requires=["p >= 0 and e >= 1 and a.shape[0] == p * e"], may_raise=["ValueError"],
  ensures=["result.shape[0] == p and result.shape[1] == e and result.shape[2] == a.shape[1]",
           "forall(range(0, p), lambda i: forall(range(0, e), lambda j: forall(range(0, a.shape[1]), lambda q: "
           "result[i, j, q] == a[i * e + j, q])))"])
c("f_reshape_split", params={"a": "arr2[real]", "p": "int", "e": "int"}, returns="arr3[real]",
  requires=["p >= 1 and e >= 2 and a.shape[0] == p * e and a.shape[1] >= 1"], may_raise=["ValueError"],
  ensures=["forall(range(0, p), lambda i: forall(range(0, e), lambda j: forall(range(0, a.shape[1]), lambda q: "
           "result[i, j, q] == a[j * p + i, q])))"])
c("t_repeat_rows", params={"a": "arr2[real]", "k": "int"}, returns="arr2[real]", requires=["k >= 1"],
  ensures=["result.shape[0] == a.shape[0] * k",
           "forall(range(0, a.shape[0]), lambda i: forall(range(0, k), lambda j: forall(range(0, a.shape[1]), lambda q: "
           "result[i * k + j, q] == a[i, q])))"])
c("t_store_cast", params={"n": "int", "x": "real"}, returns="arr1[int]", requires=["n >= 1"],
  ensures=["abs(result[0]) <= abs(x) and abs(x) < abs(result[0]) + 1 and result[0] * x >= 0"])
c("f_store_cast", params={"n": "int", "x": "real"}, returns="arr1[int]", requires=["n >= 1"],
  ensures=["result[0] == x"])
c("t_dict_get", params={"k": "str"}, returns="int", ensures=["result >= 0 and result <= 2"])

# ---- row views, functional argsort, generator draws with a size, sampling without replacement, betabinom
from pyvc.api import loop_invariant  # noqa: E402

_RV = ["b.shape[0] == a.shape[0] and b.shape[1] == a.shape[1]",
       "forall(range(r, a.shape[0]), lambda q: forall(range(0, a.shape[1]), lambda c: b[q, c] == a[q, c]))",
       "forall(range(0, r), lambda q: forall(range(1, a.shape[1]), lambda c: b[q, c] == a[q, c]))"]
c("t_row_view", params=A2, returns="arr2[real]", requires=["a.shape[1] >= 1"],
  ensures=["result.shape[0] == a.shape[0] and result.shape[1] == a.shape[1]",
           "forall(range(0, a.shape[0]), lambda q: result[q, 0] == ite(a[q, 0] + 1 < 0, 0, ite(a[q, 0] + 1 > 10, 10, a[q, 0] + 1)))",
           "forall(range(0, a.shape[0]), lambda q: forall(range(1, a.shape[1]), lambda c: result[q, c] == a[q, c]))"])
loop_invariant(f"{P}::t_row_view", 1, over="b", var="r",
               inv=_RV + ["forall(range(0, r), lambda q: b[q, 0] == ite(a[q, 0] + 1 < 0, 0, ite(a[q, 0] + 1 > 10, 10, a[q, 0] + 1)))"])
# FALSE: "the writes through the row are lost"
c("f_row_view", params=A2, returns="arr2[real]", requires=["a.shape[1] >= 1 and a.shape[0] >= 1"],
  ensures=["forall(range(0, a.shape[0]), lambda q: result[q, 0] == a[q, 0])"])
loop_invariant(f"{P}::f_row_view", 1, over="b", var="r", inv=_RV)
c("t_argsort_fn", params=A1, returns="arr1[int]",
  ensures=["len(result) == len(a)", "forall(range(0, len(a)), lambda i: result[i] == 0)"])
c("t_rng_integers_size", params={"seed": "int", "n": "int"}, returns="arr1[int]", requires=["n >= 0 and seed >= 0"],
  ensures=["len(result) == n", "forall(range(0, n), lambda i: 1 <= result[i] and result[i] < 5)"])
c("f_rng_integers_size", params={"seed": "int", "n": "int"}, returns="arr1[int]", requires=["n >= 1 and seed >= 0"],
  ensures=["forall(range(0, n), lambda i: 1 <= result[i] and result[i] < 4)"])
c("t_choice_norepl", params={"seed": "int", "n": "int", "k": "int"}, returns="arr1[int]",
  requires=["seed >= 0 and n >= 1 and 0 <= k and k <= n"],
  ensures=["len(result) == k", "forall(range(0, k), lambda i: 0 <= result[i] and result[i] < n)",
           "forall(range(0, k), lambda i: forall(range(0, k), lambda j: implies(i < j, result[i] != result[j])))"])
c("f_choice_repl", params={"seed": "int", "n": "int", "k": "int"}, returns="arr1[int]",
  requires=["seed >= 0 and n >= 1 and 0 <= k and k <= n"],
  ensures=["forall(range(0, k), lambda i: forall(range(0, k), lambda j: implies(i < j, result[i] != result[j])))"])
c("t_betabinom", params={"seed": "int", "n": "int"}, returns="arr1[int]", requires=["seed >= 0 and n >= 0"],
  ensures=["len(result) == 1", "1 <= result[0] and result[0] <= n + 1"])
c("f_betabinom", params={"seed": "int", "n": "int"}, returns="arr1[int]", requires=["seed >= 0 and n >= 1"],
  ensures=["result[0] <= n"])
# FALSE: the built-in round and np.round agree (they do not: 0.05, 0.15 at one decimal)
c("f_round_builtin", params={"k": "int"}, returns="arr1[real]", ensures=["result[0] == result[1]"])
