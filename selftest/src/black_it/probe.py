"""Probe functions for the pyvc library models (tools/selftest.py): t_* carry TRUE contracts (must be proved and must
hold on CPython), f_* carry FALSE contracts (must NOT be proved and must fail on CPython for some input)."""
import numpy as np


def t_sum(a):
    return np.sum(a)


def f_sum(a):
    return np.sum(a)


def t_prod(a):
    return np.prod(a)


def t_msum(a):
    return a.sum()


def t_bsum(a):
    return sum([x * 2 for x in a])


def t_cumsum(a):
    return np.cumsum(a)


def t_isclose(a, b):
    return bool(np.isclose(a, b))


def f_isclose(a, b):
    return bool(np.isclose(a, b))


def t_log(x):
    return np.log(x)


def f_log(x):
    return np.log(x)


def t_exp(x):
    return np.exp(x)


def t_sqrt(x):
    return np.sqrt(x)


def t_floor(x):
    return np.floor(x)


def t_ceil(x):
    return np.ceil(x)


def t_clip(a, lo, hi):
    return np.clip(a, lo, hi)


def f_clip(a, lo, hi):
    return np.clip(a, lo, hi)


def t_where(a, b):
    return np.where(a > 0, a, b)


def t_full(n, v):
    return np.full(n, v)


def t_diff(a):
    return np.diff(a)


def f_diff(a):
    return np.diff(a)


def t_append(a, v):
    return np.append(a, v)


def t_sort(a):
    return np.sort(a)


def f_sort(a):
    return np.sort(a)


def t_all_axis(a):
    return np.all(a > 0, axis=1)


def t_any_axis0(a):
    return (a > 0).any(axis=0)


def f_all_axis(a):
    return np.all(a > 0, axis=1)


def t_mask(a):
    return a[a > 0]


def f_mask(a):
    return a[a > 0]


def t_mask_rows(a, c):
    return a[c > 1]


def t_argwhere(a):
    return np.argwhere(a > 0)


def f_argwhere(a):
    return np.argwhere(a > 0)


def t_unique(a):
    return np.unique(a)


def f_unique(a):
    return np.unique(a)


def t_unique_rows(a):
    unq, count = np.unique(a, axis=0, return_counts=True)
    return unq[count > 1]


def u_unique_rows(a):
    unq, count = np.unique(a, axis=0, return_counts=True)
    return unq[count > 1]


def f_unique_rows(a):
    unq, count = np.unique(a, axis=0, return_counts=True)
    return unq[count > 1]


def t_rng_ints(seed, lo, hi, n):
    rng = np.random.default_rng(seed)
    return rng.integers(lo, hi, size=n)


def t_rng_reals(seed, n):
    rng = np.random.default_rng(seed)
    return rng.random(size=(n, 2))


def t_astype(a):
    return a.astype(int)


def t_flatten(a):
    return a.flatten()


def t_mmax(a):
    return a.max() - a.min()


def t_ball(a):
    return all(x > 0 for x in a)


def t_bany(a):
    return any([x > 0 for x in a])


def t_linspace(a, b, n):
    return np.linspace(a, b, n)


# ---- models that existed before (cross-checked as well)
def t_argsort(a):
    return np.argsort(a)


def t_searchsorted(g, v):
    return np.searchsorted(g, v, side="left")


def t_vstack(a, b):
    return np.vstack((a, b))


def t_repeat(a, k):
    return np.repeat(a, k, axis=0)


def t_argmax(a):
    return np.argmax(a)


def t_arange(a, b, p):
    return np.arange(a, b, p)


def t_fancy(a, idx):
    return a[idx]


def t_minmax(a, b):
    return np.maximum(a, b) - np.minimum(a, b)


# ---- models added later
def t_rint(x):
    return np.rint(x)


def t_unique_index(a):
    u, idx = np.unique(a, return_index=True)
    return idx


def t_array3(a, b):
    return np.array([a, b])


def t_reshape_split(a, p, e):
    return np.reshape(a, (p, e, a.shape[1]))


def f_reshape_split(a, p, e):
    return np.reshape(a, (p, e, a.shape[1]))


def t_repeat_rows(a, k):
    return np.repeat(a, k, axis=0)


def t_store_cast(n, x):
    out = np.zeros(n, dtype=int)
    out[0] = x
    return out


def f_store_cast(n, x):
    out = np.zeros(n, dtype=int)
    out[0] = x
    return out


def t_dict_get(k):
    d = {"a": 1, "b": 2}
    return d.get(k, 0)


def t_row_view(a):
    b = np.copy(a)
    for row in b:
        row[0] += 1.0
        row[0] = np.clip(row[0], 0.0, 10.0)
    return b


def f_row_view(a):
    b = np.copy(a)
    for row in b:
        row[0] += 1.0
    return b


def t_argsort_fn(a):
    return np.argsort(a) - np.argsort(a)


def t_rng_integers_size(seed, n):
    rng = np.random.default_rng(seed)
    return rng.integers(1, 5, size=n)


def f_rng_integers_size(seed, n):
    rng = np.random.default_rng(seed)
    return rng.integers(1, 5, size=n)


def t_choice_norepl(seed, n, k):
    rng = np.random.default_rng(seed)
    return rng.choice(n, (k,), replace=False)


def f_choice_repl(seed, n, k):
    rng = np.random.default_rng(seed)
    return rng.choice(n, (k,), replace=True)


def t_betabinom(seed, n):
    from scipy.stats import betabinom
    rng = np.random.default_rng(seed)
    rv = betabinom(n=n, a=3.0, b=1.0)
    rv.random_state = rng
    return rv.rvs(size=1) + 1


def f_betabinom(seed, n):
    from scipy.stats import betabinom
    rng = np.random.default_rng(seed)
    rv = betabinom(n=n, a=3.0, b=1.0)
    rv.random_state = rng
    return rv.rvs(size=1) + 1


def f_round_builtin(k):
    x = k * 0.05
    return np.array([round(x, 1), np.round(x, 1)])
