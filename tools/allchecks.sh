#!/bin/sh
# run every quick check on the unchanged tree; exit 1 if any is not fully green (violation, undecided, checker error)
cd "$(dirname "$0")/.." || exit 2
bad=0
for p in C01 C02 C03 C04 C05 C06 C07 C08 C09 C10 C11 C12 C13 C14 C15 C16 C17 C18 C19 C20; do
  out=$(PYVC_WRITE_LOCK=${PYVC_WRITE_LOCK:-0} ./check $p 2>&1); rc=$?
  line=$(echo "$out" | grep -E "^$p:")
  echo "$line"
  if [ $rc -ne 0 ] || echo "$out" | grep -qE "^UNDECIDED|^VIOLATION|^CHECKER"; then bad=1; echo "$out" | grep -E "^UNDECIDED|^VIOLATION|^CHECKER" | head -5; fi
done
exit $bad
