#!/usr/bin/env python3
"""Print the two lists of DESIGN.md section 7 from seeded/RESULTS.json (what catches which independent change)."""
import json, os, re
V = os.path.dirname(os.path.dirname(os.path.abspath(__file__)))
R = json.load(open(os.path.join(V, "seeded", "RESULTS.json")))
ob, st = [], []
for sid in sorted(R):
    v = R[sid]
    how = v.get("detected_by", [])
    obs = [h[len("obligation "):] for h in how if h.startswith("obligation ")]
    sts = [h[len("stand-in "):] for h in how if h.startswith("stand-in ")]
    if obs:
        ob.append(f"  * {sid}: `{obs[0].split('::')[-1]}`")
    else:
        note = ""
        und = v.get("prover_undecided") or []
        if und:
            m = re.search(r"reason=(.*)", und[0])
            note = "; prover: " + (m.group(1)[:80] if m else und[0][:80])
        st.append(f"{sid} ({', '.join(sts) or v.get('status')}{note})")
print(f"{len(R)} changes; detected: {sum(1 for v in R.values() if v.get('status') == 'detected')}")
print(f"* **{len(ob)} by a named failed obligation** (solver counter-model or analysis witness; the first one reported):")
print("\n".join(ob))
print(f"* **{len(st)} by a bounded stand-in only**:")
print("  " + "; ".join(st) + ".")
