#!/usr/bin/env python3
"""Run every seeded change through the check of its property (scratch copy of /repo/black_it via $PYVC_REPO) and record
which mechanism detected it.  usage: seeded_sweep.py [-j N] [ids...]  -> seeded/RESULTS.json"""
import json
import os
import shutil
import subprocess
import sys
import tempfile
from concurrent.futures import ThreadPoolExecutor

V = os.path.dirname(os.path.dirname(os.path.abspath(__file__)))


def run_one(sid):
    d = os.path.join(V, "seeded", sid)
    prop = sid.split("-")[0]
    scratch = tempfile.mkdtemp(prefix="pyvc_seed_")
    try:
        shutil.copytree("/repo/black_it", os.path.join(scratch, "black_it"))
        ap = subprocess.run(["patch", "-s", "-p1", "-i", os.path.join(d, "patch.diff")], cwd=scratch,
                            capture_output=True, text=True)
        if ap.returncode != 0:
            return sid, {"status": "patch-does-not-apply", "detail": ap.stdout[-200:]}
        env = dict(os.environ, PYVC_REPO=scratch, PYVC_TMP=scratch, PYVC_OUT=scratch)
        r = subprocess.run(["./check", prop], cwd=V, env=env, capture_output=True, text=True, timeout=3000)
        lines = r.stdout.splitlines()
        viol = [l for l in lines if l.startswith("VIOLATION")]
        how = []
        for i, l in enumerate(lines):
            if l.startswith("VIOLATION") and i + 1 < len(lines):
                nxt = lines[i + 1].strip()
                if nxt.startswith("failed obligation:"):
                    how.append("obligation " + nxt.split("failed obligation:")[1].split("(replay")[0].strip())
                elif nxt.startswith("bounded stand-in"):
                    how.append("stand-in " + nxt.split("bounded stand-in")[1].split("found")[0].strip())
        und = [l[:160] for l in lines if l.startswith("UNDECIDED function")]
        return sid, {"status": "detected" if (r.returncode == 1 and viol) else f"MISSED (exit {r.returncode})",
                     "detected_by": sorted(set(how))[:6], "prover_undecided": und[:3], "summary": lines[-1][:200] if lines else ""}
    finally:
        shutil.rmtree(scratch, ignore_errors=True)


def main():
    args = sys.argv[1:]
    jobs = 3
    if args[:1] == ["-j"]:
        jobs = int(args[1])
        args = args[2:]
    ids = args or sorted(x for x in os.listdir(os.path.join(V, "seeded")) if os.path.isdir(os.path.join(V, "seeded", x)))
    out_path = os.path.join(V, "seeded", "RESULTS.json")
    res = json.load(open(out_path)) if os.path.exists(out_path) and args else {}
    with ThreadPoolExecutor(jobs) as ex:
        for sid, r in ex.map(run_one, ids):
            res[sid] = r
            print(sid, r["status"], r.get("detected_by", [])[:2], flush=True)
    json.dump(res, open(out_path, "w"), indent=1, sort_keys=True)
    missed = [k for k, v in res.items() if v["status"] != "detected"]
    print(f"{len(res) - len(missed)}/{len(res)} detected; missed: {missed}")


main()
