#!/usr/bin/env python3
"""Regenerate MANIFEST.json from the table below (single source of truth for what is claimed)."""
import json, os
V = os.path.dirname(os.path.dirname(os.path.abspath(__file__)))
props = [json.loads(l) for l in open(os.path.join(V, "properties.jsonl"))]
BASE = "cd /repo && /venv/bin/python -m pytest -ra -q -p no:cacheprovider --timeout=900 --continue-on-collection-errors"
TECH = "contract-based deductive verification: pyvc (ast -> VCs over the real source, loops by invariant, calls by contract) + z3/cvc5"
CLAIMED = {
 "C15": dict(cat="proof", ref="5-C15",
   text="Machine-checked contract on the real SearchSpace._check_bounds: for ALL list-shaped inputs of any length the exception class, the documented check order (first defective parameter, same/inverted/zero/too-large) and every payload field are proved from the source; the 7 exception constructors are proved to store their arguments. Unbounded in the number of parameters.",
   note="Real arithmetic instead of IEEE doubles for ==, >, -; the grid construction clause (np.arange end-point rule, space_size product) is covered by the SearchSpace.__init__ contract only where listed in the evidence; np.arange is an assumed library contract."),
 "C19": dict(cat="proof", ref="5-C19",
   text="Contracts on get_reward, learn, get_step_size, policy, reset, __init__ proved from the source for all numbers of actions, all estimates/counts/rewards, every outcome of every random draw: update rule with exact step size, frame (all other estimates and counts unchanged), valid action indices, greedy choice when eps <= 0, reward formula and reference update.",
   note="Real arithmetic; Generator.random/choice and np.argmax are assumed library contracts; determinism is expressed through the functional generator model (value = function of generator state)."),
 "C17": dict(cat="proof", ref="5-C17",
   text="Contracts on the real get_closest and digitize_data proved for grids and value arrays of ANY length: every output is an exact grid element (by indexing) at minimal distance over the whole grid, element-wise, column by column with each column's own grid, shape preserved, inputs not written (frame). Vectorised NumPy code is lifted pointwise, so the proof covers every element. Idempotence follows from minimality (distance 0).",
   note="Minimality is proved in REAL arithmetic; np.searchsorted / fancy indexing / masked in-place update are assumed library contracts. IEEE rounding of the distance subtraction is NOT covered by the proof: a bounded stand-in (labelled bounded) runs the real functions with exact rational distances and reports the float-tie class as a known finding."),
 "C12": dict(cat="proof", ref="5-C12",
   text="Contract on the real BaseSampler.sample proved against an ABSTRACT (uninterpreted) sample_batch - i.e. for every scripted or random generator, every history, batch size, dimension and pass budget: shape preserved; first asked for batch_size, then each time for exactly the number of repeats found (>0); at most max_deduplication_passes redraws; with budget left the returned batch has no repeat against history or itself; rows never reported as repeats equal the first draw; each pass substitutes exactly the reported rows by the redraw rows (statement contract); history arrays not written.",
   note="find_and_get_duplicates (np.unique(axis=0)/argwhere pipeline) is an ASSUMED contract, not proved: its bounded stand-in enumerates small histories/batches over several float alphabets on the real function and a scripted-generator stand-in replays whole sample() runs against reference semantics; both are labelled bounded and not counted as discharged."),
}
checks = []
for p in props:
    c = CLAIMED.get(p["id"])
    if not c:
        continue
    checks.append({"property_id": p["id"], "quick_cmd": f"./check {p['id']} --tier quick",
                   "thorough_cmd": f"./check {p['id']} --tier thorough",
                   "evidence_file": f"evidence/{p['id']}.json",
                   "replay_cmd_template": f"./check {p['id']} --replay {{path}}", "engine": "pyvc",
                   "level_claimed": {"category": c["cat"], "text": c["text"], "design_ref": c["ref"]},
                   "level_note": c["note"], "technique": c.get("tech", TECH)})
NA = {}
m = {"version": 1,
     "setup_cmd": "python3-vt -m compileall -q pyvc contracts analyses runtime >/dev/null 2>&1 || true",
     "hooks": {"guard": "BLACK_IT_VERIF", "enable": "no source hooks: contracts are sidecars under /verif/contracts; the runtime layer wraps the real functions from outside", "baseline_off_cmd": BASE, "source_commits": [], "add_only": True},
     "engines": [{"name": "pyvc", "path": "pyvc/", "serves_properties": sorted(CLAIMED), "kind_free_text": "home-made deductive verifier: Python ast of /repo -> verification conditions (symbolic execution, loops cut by invariants, calls replaced by contracts, frame conditions checked) discharged by z3 5.1 (cvc5 on unknown)"},
                 {"name": "runtime-contracts", "path": "runtime/", "serves_properties": sorted(CLAIMED), "kind_free_text": "the same contract text evaluated by CPython on the real functions: replay of counter-models, bounded stand-ins (labelled), cross-check of the encoding"}],
     "checks": checks,
     "not_applicable": [{"property_id": p["id"], "reason": NA.get(p["id"], "check under construction in this round (DESIGN.md section 5); not yet claimed")} for p in props if p["id"] not in CLAIMED]}
json.dump(m, open(os.path.join(V, "MANIFEST.json"), "w"), indent=1)
print("claimed:", sorted(CLAIMED))
