#!/usr/bin/env python3
"""Regenerate MANIFEST.json from the table below (single source of truth for what is claimed)."""
import json, os
V = os.path.dirname(os.path.dirname(os.path.abspath(__file__)))
props = [json.loads(l) for l in open(os.path.join(V, "properties.jsonl"))]
BASE = "cd /repo && /venv/bin/python -m pytest -ra -q -p no:cacheprovider --timeout=900 --continue-on-collection-errors"
TECH = "contract-based deductive verification: pyvc (ast -> VCs over the real source, loops by invariant, calls by contract) + z3/cvc5"
CLAIMED = {
 "C15": dict(cat="proof", ref="5-C15",
   text="Machine-checked contract on the real SearchSpace._check_bounds: for ALL list-shaped inputs of any length the exception class, the documented check order (first defective parameter, same/inverted/zero/too-large) and every payload field are proved from the source; the 7 exception constructors are proved to store their arguments. Unbounded in the number of parameters.",
   note="Real arithmetic instead of IEEE doubles for ==, >, -; the grid construction clause (np.arange end-point rule, space_size product) is covered by the SearchSpace.__init__ contract only where listed in the evidence; np.arange is an assumed library contract."),
 "C19": dict(cat="proof", ref="5-C19",
   text="Contracts on get_reward, learn, get_step_size, policy, reset, __init__ proved from the source for all numbers of actions, all estimates/counts/rewards, every outcome of every random draw: update rule with exact step size, frame (all other estimates and counts unchanged), valid action indices, greedy choice when eps <= 0, reward formula and reference update.",
   note="Real arithmetic; Generator.random/choice and np.argmax are assumed library contracts; determinism is expressed through the functional generator model (value = function of generator state)."),
 "C17": dict(cat="proof", ref="5-C17",
   text="Contracts on the real get_closest and digitize_data proved for grids and value arrays of ANY length: every output is an exact grid element (by indexing) at minimal distance over the whole grid, element-wise, column by column with each column's own grid, shape preserved, inputs not written (frame). Vectorised NumPy code is lifted pointwise, so the proof covers every element. Idempotence follows from minimality (distance 0).",
   note="Minimality is proved in REAL arithmetic; np.searchsorted / fancy indexing / masked in-place update are assumed library contracts. IEEE rounding of the distance subtraction is NOT covered by the proof: a bounded stand-in (labelled bounded) runs the real functions with exact rational distances and reports the float-tie class as a known finding."),
 "C12": dict(cat="proof", ref="5-C12",
   text="Contract on the real BaseSampler.sample proved against an ABSTRACT (uninterpreted) sample_batch - i.e. for every scripted or random generator, every history, batch size, dimension and pass budget: shape preserved; first asked for batch_size, then each time for exactly the number of repeats found (>0); at most max_deduplication_passes redraws; with budget left the returned batch has no repeat against history or itself; rows never reported as repeats equal the first draw; each pass substitutes exactly the reported rows by the redraw rows (statement contract); history arrays not written.",
   note="find_and_get_duplicates (np.unique(axis=0)/argwhere pipeline) is an ASSUMED contract, not proved: its bounded stand-in enumerates small histories/batches over several float alphabets on the real function and a scripted-generator stand-in replays whole sample() runs against reference semantics; both are labelled bounded and not counted as discharged."),
 "C02": dict(cat="proof", ref="5-C02",
   text="The real Calibrator.calibrate is verified against a contract whose loop invariant is the alignment invariant of the five history arrays (equal lengths = sample counter, shapes, zero-based non-decreasing batch labels of completed batches only, every stored sampler label is an id of the table): proved for any number of batches, any abstract scheduler/sampler/loss, any batch sizes; rows once recorded never change (prefix preservation through vstack/hstack and the frame conditions of all callees); the return value is a sorted permutation of the recorded (parameter, loss) pairs.",
   note="simulate_model (joblib generator pattern; row/ensemble pairing and seed order) and _set_samplers_seeds are ASSUMED contracts here; their content (series of row i = model on exactly that vector, loss of exactly those series) is covered only by the bounded stand-in C02/history, which re-derives every stored row on the real Calibrator. np.vstack/hstack/argsort are assumed library contracts."),
 "C09": dict(cat="proof", ref="5-C09",
   text="Proved from the source: the exactly-one-of constructor validation (raises ValueError iff both or neither of samplers/scheduler are given, otherwise returns the given scheduler or a round-robin over the given list); RoundRobinScheduler construction, get_next_sampler (samplers[batch_id mod n], no state change) and update (+1); calibrate() calls get_next_sampler then update exactly once per batch (loop invariant current_batch_index = start + b) and labels/sizes the batch by the designated sampler.",
   note="The RL scheduler's bootstrap/queue clauses are NOT under contract yet (threads: see C10) - covered only by bounded end-to-end runs; persistence of the scheduler position across restore rests on the assumed pickle round-trip (C04). Bounded stand-ins: C09/round-robin-e2e, C09/constructor."),
 "C11": dict(cat="proof", ref="5-C11",
   text="Exceptional-path contracts proved from the source: BaseScheduler.session() (generator context manager, `yield` modelled with a normal and an exceptional continuation) ends the session on EVERY exit of the with-body; calibrate(), for an exception escaping from sampler.sample / simulate_model / compute_loss at any iteration, propagates it with the history invariant (aligned arrays, labels of completed batches only) re-established and no session left open.",
   note="Thread liveness of the RL scheduler's end_session (join) is assumed (abstract contract); equality with the fault-free prefix relies on C01 determinism; both are exercised only by the bounded stand-in C11/fault-injection (fault at seeded invocation indices, both schedulers)."),
 "C14": dict(cat="proof", ref="5-C14",
   text="check_convergence proved equal to round(min(losses[:n]), p) == 0 for arrays of any length; calibrate() proved to (a) run exactly n batches without a precision, (b) never continue after a convergence test returned True (loop invariant `not conv_seen`), (c) stop early only because of convergence, (d) test the whole recorded history after recording the batch (statement contract), independently of verbose (not mentioned in any guard the proof depends on), and (e) write the checkpoint with the final counters whenever a saving folder is set.",
   note="np.round is an uninterpreted function of (value, decimals); np.min is an assumed library contract; create_checkpoint's effect on disk is an assumed summary (content decided in C04)."),
 "C18": dict(cat="proof", ref="5-C18",
   text="Proved for line-ups of any length (loop invariants over symbolic dictionaries): _construct_samplers_id_table yields an injective table whose domain is exactly the class names of the list; update_samplers_id_table never reassigns an existing id, adds exactly the missing classes with fresh ids and keeps injectivity; calibrate() labels every row with the table id of the class of the sampler that produced it (and the table covers every sampler the scheduler can designate - class invariant).",
   note="Recovery of the table from a checkpoint (plot utilities) is NOT provable: the table is not persisted (known finding, reported by the bounded stand-in C18/labels-e2e on histories with set_samplers/set_scheduler). set_samplers/set_scheduler themselves are thin callers of update_samplers_id_table."),
}
checks = []
for p in props:
    c = CLAIMED.get(p["id"])
    if not c:
        continue
    checks.append({"property_id": p["id"], "quick_cmd": f"./check {p['id']} --tier quick",
                   "thorough_cmd": f"./check {p['id']} --tier thorough",
                   "evidence_file": f"evidence/{p['id']}.json",
                   "replay_cmd_template": f"./check {p['id']} --replay {{path}}", "engine": "pyvc",
                   "level_claimed": {"category": c["cat"], "text": c["text"], "design_ref": c["ref"]},
                   "level_note": c["note"], "technique": c.get("tech", TECH)})
NA = {}
m = {"version": 1,
     "setup_cmd": "python3-vt -m compileall -q pyvc contracts analyses runtime >/dev/null 2>&1 || true",
     "hooks": {"guard": "BLACK_IT_VERIF", "enable": "no source hooks: contracts are sidecars under /verif/contracts; the runtime layer wraps the real functions from outside", "baseline_off_cmd": BASE, "source_commits": [], "add_only": True},
     "engines": [{"name": "pyvc", "path": "pyvc/", "serves_properties": sorted(CLAIMED), "kind_free_text": "home-made deductive verifier: Python ast of /repo -> verification conditions (symbolic execution, loops cut by invariants, calls replaced by contracts, frame conditions checked) discharged by z3 5.1 (cvc5 on unknown)"},
                 {"name": "runtime-contracts", "path": "runtime/", "serves_properties": sorted(CLAIMED), "kind_free_text": "the same contract text evaluated by CPython on the real functions: replay of counter-models, bounded stand-ins (labelled), cross-check of the encoding"}],
     "checks": checks,
     "not_applicable": [{"property_id": p["id"], "reason": NA.get(p["id"], "check under construction in this round (DESIGN.md section 5); not yet claimed")} for p in props if p["id"] not in CLAIMED]}
json.dump(m, open(os.path.join(V, "MANIFEST.json"), "w"), indent=1)
print("claimed:", sorted(CLAIMED))
