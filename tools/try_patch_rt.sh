#!/bin/sh
# usage: try_patch_rt.sh <patch.diff> <Cxx>  - run the bounded stand-ins of a property on a scratch copy with the patch
D=$(mktemp -d /tmp/pyvc_patch_XXXX)
cp -r /repo/black_it "$D/"
(cd "$D" && patch -s -p1 < "$1") || { echo "PATCH DID NOT APPLY"; rm -rf "$D"; exit 2; }
cd /verif && PYVC_REPO="$D" /venv/bin/python runtime/rt.py bounded "$2" --tier quick --seed 0 --out work/try_rt.json >/dev/null 2>&1
python3 -c "
import json;d=json.load(open('/verif/work/try_rt.json'))
print(d.get('error','')[:1500])
for s in d['standins']: print(' ',s['name'],s['cases'],s['time_s'],[ (f['tag'],f['message'][:160]) for f in s['failures']])"
rm -rf "$D"
