#!/usr/bin/env python3
"""Run the repository's baseline suite (guard off) and compare with /root/.vp/BASELINE.json stable_pass."""
import json
import os
import subprocess
import sys
import tempfile
import xml.etree.ElementTree as ET

b = json.load(open("/root/.vp/BASELINE.json"))
out = tempfile.mktemp(suffix=".xml", dir="/tmp")
cmd = b["cmd"].replace("<file>", out)
subprocess.run(cmd, shell=True, stdout=subprocess.DEVNULL, stderr=subprocess.DEVNULL)
passed = set()
for tc in ET.parse(out).getroot().iter("testcase"):
    if not any(ch.tag in ("failure", "error", "skipped") for ch in tc):
        passed.add(f"{tc.get('classname')}::{tc.get('name')}")
os.unlink(out)
missing = [t for t in b["stable_pass"] if t not in passed]
print(f"stable_pass={len(b['stable_pass'])} now_passing={len(passed)} missing={len(missing)}")
for m in missing:
    print("  MISSING", m)
sys.exit(1 if missing else 0)
