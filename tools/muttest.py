#!/usr/bin/env python3-vt
"""Self-test of the prover: apply small text mutations to a scratch copy of /repo/black_it (outside /repo and
/verif), run pyvc on it via PYVC_REPO, report which obligations fail.  Usage: muttest.py <mutants.json> [name...]"""
import json, os, shutil, subprocess, sys, tempfile

def main():
    muts = json.load(open(sys.argv[1]))
    only = set(sys.argv[2:])
    base = tempfile.mkdtemp(prefix="pyvc_mut_")
    try:
        for m in muts:
            if only and m["name"] not in only:
                continue
            d = os.path.join(base, m["name"])
            os.makedirs(d)
            shutil.copytree("/repo/black_it", os.path.join(d, "black_it"))
            p = os.path.join(d, m["file"])
            s = open(p).read()
            if m["old"] not in s:
                print(f"{m['name']}: STALE (old text not found)")
                continue
            open(p, "w").write(s.replace(m["old"], m["new"], 1))
            env = dict(os.environ, PYVC_REPO=d, PYVC_OUT=d)
            if m.get("prop"):
                r = subprocess.run(["./check", m["prop"]], capture_output=True, text=True, env=env,
                                   cwd=os.path.dirname(os.path.dirname(os.path.abspath(__file__))))
                viol = [l.strip() for l in r.stdout.splitlines() if l.startswith("VIOLATION")]
                und = [l.strip() for l in r.stdout.splitlines() if l.startswith(("UNDECIDED", "CHECKER-ERROR"))]
                got = "caught" if r.returncode == 1 and viol else ("green" if r.returncode == 0 else f"rc{r.returncode}")
                expect = m.get("expect", "caught")
                if expect == "undecided":
                    expect = "caught"  # through the whole pipeline the bounded stand-in must decide
                flag = "OK " if got in expect.split("|") else "!! "
                print(f"{flag}{m['name']}: expect={expect} got={got} rc={r.returncode} {viol[:1]} {und[:1]}")
                shutil.rmtree(d)
                continue
            r = subprocess.run(["python3-vt", "-m", "pyvc.cli", m["pattern"]], capture_output=True, text=True, env=env,
                               cwd=os.path.dirname(os.path.dirname(os.path.abspath(__file__))))
            bad = [l.strip() for l in r.stdout.splitlines() if l.strip().startswith(("refuted", "unknown"))]
            und = [l.strip() for l in r.stdout.splitlines() if "undecided" in l or "vacuous" in l or "missing" in l]
            expect = m.get("expect", "caught")
            got = "caught" if any(b.startswith("refuted") for b in bad) else ("undecided" if (und or bad) else "green")
            if "Traceback" in r.stdout + r.stderr or ": crash" in r.stdout or not r.stdout.strip():
                got = "CRASH"
                und = [l for l in (r.stdout + r.stderr).splitlines() if "Error" in l][-1:]
            flag = "OK " if got in expect.split("|") else "!! "     # ("caught|undecided": refutable only on a quiet machine)
            print(f"{flag}{m['name']}: expect={expect} got={got} {bad[:2]} {und[:1]}")
            shutil.rmtree(d)
    finally:
        shutil.rmtree(base, ignore_errors=True)
main()
