#!/bin/sh
# usage: try_patch.sh <patch.diff> <cli pattern>  - run the prover on a scratch copy of /repo with the patch applied
set -e
D=$(mktemp -d /tmp/pyvc_patch_XXXX)
cp -r /repo/black_it "$D/"
(cd "$D" && patch -s -p1 < "$1") || { echo "PATCH DID NOT APPLY"; rm -rf "$D"; exit 2; }
cd /verif && PYVC_REPO="$D" python3-vt -m pyvc.cli "$2" | cut -c1-260
rm -rf "$D"
