#!/usr/bin/env python3
"""Self-test of the pyvc library models (the assumed NumPy / builtin contracts in pyvc/lib.py, pyvc/lib2.py).

Probe functions live in selftest/src/black_it/probe.py, their contracts in selftest/contracts/probe.py:
  t_*  TRUE contract   -> pyvc must prove every clause AND the clause must hold on CPython/NumPy for random inputs
  f_*  FALSE contract  -> pyvc must NOT prove it AND some random input must violate it on CPython
  u_*  true but hard   -> must hold on CPython; pyvc may say unknown, must never refute

usage:  python3-vt tools/selftest.py            (both halves; the CPython half is run under /venv/bin/python)
writes selftest/RESULTS.json
"""
import hashlib
import json
import os
import subprocess
import sys
from pathlib import Path

V = Path(__file__).resolve().parent.parent
ENV = dict(os.environ, PYVC_REPO=str(V / "selftest" / "src"), PYVC_CONTRACTS=str(V / "selftest" / "contracts"))


def models_hash():
    h = hashlib.sha1()
    for f in ("pyvc/lib.py", "pyvc/lib2.py", "pyvc/values.py", "selftest/contracts/probe.py", "selftest/src/black_it/probe.py"):
        h.update((V / f).read_bytes())
    return h.hexdigest()[:16]


def prove_one(key):
    os.environ.update(ENV)
    sys.path.insert(0, str(V))
    from pyvc.repo import Repo
    from pyvc.verify import load_sidecars, verify_function
    reg = load_sidecars()
    r = verify_function(key, Repo(), reg, timeout_s=20)
    return key, r.status, r.reason, {n: g["verdict"] for n, g in r.groups.items()}


def prover_half():
    os.environ.update(ENV)
    sys.path.insert(0, str(V))
    from concurrent.futures import ProcessPoolExecutor
    from pyvc.verify import load_sidecars
    reg = load_sidecars()
    keys = list(reg["contracts"])
    out, bad = {}, []
    with ProcessPoolExecutor(12) as ex:
        for key, status, reason, verdicts in ex.map(prove_one, keys):
            name = key.split("::")[1]
            vs = list(verdicts.values())
            post = [v for n, v in verdicts.items() if "/F/post" in n]
            if name.startswith("t_"):
                ok = status == "ok" and vs and all(v == "proved" for v in vs)
            elif name.startswith("f_"):
                ok = status == "ok" and any(v != "proved" for v in post)
            else:
                ok = status == "ok" and all(v != "refuted" for v in vs)
            out[name] = {"status": status, "reason": reason[:120], "verdicts": sorted(set(vs)), "ok": bool(ok)}
            if not ok:
                bad.append(name)
            print(("ok  " if ok else "BAD ") + f"prover  {name}: {status} {sorted(set(vs))} {reason[:100]}", flush=True)
    return out, bad


# ------------------------------------------------------------------------------------------------ CPython half

def cpython_half():
    os.environ.update(ENV)
    sys.path.insert(0, str(V))
    sys.path.insert(0, str(V / "runtime"))
    import importlib
    import random

    import numpy as np
    rt = importlib.import_module("runtime.rt")
    reg = rt.load_sidecars()
    sys.path.insert(0, ENV["PYVC_REPO"])
    probe = importlib.import_module("black_it.probe")
    rnd = random.Random(7)
    ALPHA = [-2.0, -1.0, -0.5, 0.0, 0.5, 1.0, 1.5, 2.0, 3.0]
    SMALL = [0.0, 1.0]

    def gen(t, name):
        if t == "real":
            return rnd.choice(ALPHA + [1e-9, 1.00000001, 0.25, 4.0])
        if t == "int":
            return rnd.randint(-1, 5)
        if t == "str":
            return rnd.choice(["a", "b", "c"])
        if t == "arr1[real]":
            return np.array([rnd.choice(ALPHA) for _ in range(rnd.randint(0, 5))], dtype=float)
        if t == "arr1[int]":
            return np.array([rnd.randint(0, 3) for _ in range(rnd.randint(0, 4))], dtype=int)
        if t == "arr2[real]":
            r, c = rnd.randint(0, 4), rnd.randint(1, 2)
            return np.array([[rnd.choice(SMALL) for _ in range(c)] for _ in range(r)], dtype=float).reshape(r, c)
        raise ValueError(t)

    out, bad = {}, []
    for key, c in reg["contracts"].items():
        name = key.split("::")[1]
        fn = getattr(probe, name)
        calls = viol = 0
        first = None
        for _ in range(600):
            kwargs = {p: gen(t, p) for p, t in c.params.items()}
            if name == "t_searchsorted":
                kwargs["g"] = np.sort(kwargs["g"])
            if name.endswith("reshape_split"):
                pe = [(p_, e_) for p_ in range(0, 4) for e_ in range(1, 4) if p_ * e_ == kwargs["a"].shape[0]]
                if pe:
                    kwargs["p"], kwargs["e"] = rnd.choice(pe)
            try:
                status, _ = rt.check_call(reg, key, fn, None, kwargs)
            except rt.ContractViolation as e:
                viol += 1
                first = first or f"{e} on {({k: (v.tolist() if hasattr(v, 'tolist') else v) for k, v in kwargs.items()})}"
                calls += 1
                continue
            if status != "precondition-false":
                calls += 1
        if name.startswith("f_"):
            ok = viol > 0
        else:
            ok = viol == 0 and calls >= 20
        out[name] = {"calls": calls, "violations": viol, "ok": ok, "first": (first or "")[:300]}
        if not ok:
            bad.append(name)
        print(("ok  " if ok else "BAD ") + f"cpython {name}: calls={calls} violations={viol} {(first or '')[:160] if not ok else ''}", flush=True)
    json.dump({"results": out, "bad": bad}, sys.stdout if False else open(V / "work" / "selftest_cpython.json", "w"))
    return 1 if bad else 0


def main():
    if "--cpython" in sys.argv:
        sys.exit(cpython_half())
    os.makedirs(V / "work", exist_ok=True)
    pr, pbad = prover_half()
    r = subprocess.run(["/venv/bin/python", str(Path(__file__).resolve()), "--cpython"], env=ENV, text=True)
    cp = json.load(open(V / "work" / "selftest_cpython.json")) if r.returncode in (0, 1) else {"results": {}, "bad": ["<crash>"]}
    res = {"models_hash": models_hash(), "prover": pr, "cpython": cp["results"], "bad_prover": pbad, "bad_cpython": cp["bad"]}
    json.dump(res, open(V / "selftest" / "RESULTS.json", "w"), indent=1, sort_keys=True)
    print(f"selftest: {len(pr)} probes; prover failures: {pbad}; cpython failures: {cp['bad']}")
    # the counter-model refinement on hand-built obligations (hints never prove; one model for everything)
    rr = subprocess.run([sys.executable, str(V / "tools" / "test_refine.py")], text=True)
    sys.exit(1 if (pbad or cp["bad"] or rr.returncode != 0) else 0)


if __name__ == "__main__":
    main()
