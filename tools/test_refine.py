#!/usr/bin/env python3
"""Unit regression of the counter-model refinement (pyvc.verify._refine / discharge) on hand-built obligations.

Each case is (premises, goal, expected) with expected in {"proved", "refuted", "not-proved", "not-refuted"}:
  * the refutation hints (concrete interpretations of rng_next / rng_iter / model_out_*) must never PROVE anything;
  * premises left out of the solved part must hold in ONE model together with it (no mixing of default completions with
    separately solved residues).
usage: python3-vt tools/test_refine.py        (exit 1 on a wrong verdict)
"""
import os
import sys

V = os.path.dirname(os.path.dirname(os.path.abspath(__file__)))
sys.path.insert(0, V)
import z3  # noqa: E402

from pyvc import lib, lib2, verify  # noqa: E402


def run(name, prem, goal, expect):
    ob = verify.Ob(name, "F", name, 0, list(prem), goal, "test")
    verify.discharge(ob, 10, use_cvc5=False)
    ok = {"proved": ob.verdict == "proved", "refuted": ob.verdict == "refuted",
          "not-proved": ob.verdict != "proved", "not-refuted": ob.verdict != "refuted"}[expect]
    print(("ok  " if ok else "BAD ") + f"{name}: verdict={ob.verdict} expected={expect}")
    return ok


def main():
    x, y, n, k = z3.Ints("x y n k")
    f = z3.Function("f_test", z3.IntSort(), z3.IntSort())
    g = z3.Function("g_test", z3.IntSort(), z3.IntSort())
    i = z3.Int("i")
    # a quantified premise that makes the first attempt `unknown` for z3 (non-linear + recursive definition)
    h = z3.Function("h_test", z3.IntSort(), z3.IntSort())
    j = z3.Int("j")
    hard = z3.And(z3.ForAll([i, j], z3.Or(i == j, h(i) != h(j))),
                  z3.ForAll([i], z3.Implies(i >= 0, f(i + 1) == f(i) * f(i) + h(i))))
    ok = True
    # 1. true only under the hint interpretation rng_next(x, k) = x + 1: must NOT be proved
    ok &= run("hint-is-no-axiom", [hard, y == lib._RNG_NEXT(x, z3.IntVal(1))], y == x + 1, "not-proved")
    ok &= run("hint-iter-is-no-axiom", [hard, y == lib2._RNG_ITER(x, k), k >= 0], y == x + k, "not-proved")
    # 2. a genuine counter-model exists
    ok &= run("plain-refutable", [hard, x >= 0], x >= 1, "refuted")
    # 3. left-out premises that are jointly contradictory with the solved part THROUGH a symbol the model does not
    #    interpret: g(0) = 0 holds under default completion, the quantified one needs g(0) = 5 - no model, so the
    #    goal (anything) holds vacuously: must not be refuted
    ok &= run("no-mixed-models", [hard, x == 1, g(0) == 0, z3.ForAll([i], z3.Implies(i == 0, g(i) == 5))], x == 2,
              "not-refuted")
    # 4. same shape, consistent: refutable
    ok &= run("consistent-left-out", [hard, x == 1, g(0) == 5, z3.ForAll([i], z3.Implies(i == 0, g(i) == 5))], x == 2,
              "refuted")
    sys.exit(0 if ok else 1)


if __name__ == "__main__":
    main()
