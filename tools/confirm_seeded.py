#!/usr/bin/env python3
"""Confirm a sub-agent's change in a fresh scratch worktree of /repo HEAD and file it under /verif/seeded/.

usage: confirm_seeded.py <property> <agent out dir containing m1..mk> [--full]
For every m<k>: (1) demo passes on the clean worktree, (2) patch applies, (3) demo fails with the patch,
(4) the pinned baseline tests still pass with the patch (--full: whole baseline suite, else the tests/ directory
    restricted to the stable_pass ids of BASELINE.json).  Results go to seeded/<prop>-m<k>/meta.json.
"""
import json
import os
import shutil
import subprocess
import sys
import tempfile
import xml.etree.ElementTree as ET

V = os.path.dirname(os.path.dirname(os.path.abspath(__file__)))
PY = "/venv/bin/python"


def sh(cmd, cwd, timeout=1800):
    return subprocess.run(cmd, shell=True, cwd=cwd, capture_output=True, text=True, timeout=timeout)


def suite(wt):
    b = json.load(open("/root/.vp/BASELINE.json"))
    out = tempfile.mktemp(suffix=".xml", dir="/tmp")
    cmd = b["cmd"].replace("cd /repo", f"cd {wt}").replace("<file>", out)
    sh(cmd, wt, timeout=3000)
    passed = set()
    try:
        for tc in ET.parse(out).getroot().iter("testcase"):
            if not any(ch.tag in ("failure", "error", "skipped") for ch in tc):
                passed.add(f"{tc.get('classname')}::{tc.get('name')}")
        os.unlink(out)
    except Exception as e:  # noqa: BLE001
        return [f"suite did not produce a report: {e}"]
    return [t for t in b["stable_pass"] if t not in passed]


def main():
    prop, outdir = sys.argv[1], sys.argv[2]
    wt = tempfile.mkdtemp(prefix=f"seed_{prop}_", dir="/tmp")
    os.rmdir(wt)
    sh(f"git -C /repo worktree add -q --detach {wt} HEAD", "/")
    try:
        for m in sorted(os.listdir(outdir)):
            d = os.path.join(outdir, m)
            if not (os.path.isdir(d) and os.path.exists(os.path.join(d, "patch.diff"))):
                continue
            meta = {"property": prop, "source": "independent sub-agent (given only the property text and its own worktree)",
                    "repo_head": sh("git rev-parse --short HEAD", wt).stdout.strip()}
            sh("git checkout -q -- . && git clean -fdq", wt)
            shutil.copy(os.path.join(d, "demo.py"), os.path.join(wt, "demo.py"))
            r0 = sh(f"{PY} demo.py", wt, 900)
            meta["demo_on_clean_tree"] = {"rc": r0.returncode, "tail": (r0.stdout + r0.stderr)[-300:]}
            ap = sh(f"git apply {os.path.join(d, 'patch.diff')}", wt)
            meta["patch_applies"] = ap.returncode == 0
            if ap.returncode != 0:
                meta["verdict"] = "rejected: patch does not apply to the current /repo HEAD: " + ap.stderr[-200:]
            else:
                r1 = sh(f"{PY} demo.py", wt, 900)
                meta["demo_with_patch"] = {"rc": r1.returncode, "tail": (r1.stdout + r1.stderr)[-400:]}
                os.unlink(os.path.join(wt, "demo.py"))
                missing = suite(wt)
                meta["baseline_tests_missing_with_patch"] = missing
                ok = r0.returncode == 0 and r1.returncode != 0 and not missing
                meta["verdict"] = "kept" if ok else "rejected"
            notes = os.path.join(d, "notes.md")
            meta["needs_to_manifest"] = open(notes).read()[:1500] if os.path.exists(notes) else ""
            meta["ran"] = [f"cd <worktree> && {PY} demo.py  (clean: rc {r0.returncode})",
                           "git apply patch.diff && demo.py", "baseline suite of /root/.vp/BASELINE.json in the worktree"]
            dst = os.path.join(V, "seeded", f"{prop}-{m}")
            os.makedirs(dst, exist_ok=True)
            shutil.copy(os.path.join(d, "patch.diff"), dst)
            shutil.copy(os.path.join(d, "demo.py"), dst)
            json.dump(meta, open(os.path.join(dst, "meta.json"), "w"), indent=1)
            print(prop, m, meta["verdict"], "missing:", meta.get("baseline_tests_missing_with_patch"))
    finally:
        sh(f"git -C /repo worktree remove --force {wt}", "/")


main()
