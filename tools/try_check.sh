#!/bin/sh
# usage: try_check.sh <patch.diff> <Cxx>  - full ./check of a property on a scratch copy of /repo with the patch applied
D=$(mktemp -d /tmp/pyvc_patch_XXXX)
cp -r /repo/black_it "$D/"
(cd "$D" && patch -s -p1 < "$1") || { echo "PATCH DID NOT APPLY"; rm -rf "$D"; exit 2; }
cd /verif && PYVC_REPO="$D" PYVC_OUT="$D" ./check "$2" 2>&1 | grep -E "^VIOLATION|^  |^UNDECIDED function|^C[0-9]+:|CHECKER" | cut -c1-330 | head -${3:-8}
rm -rf "$D"
