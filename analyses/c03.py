"""C03: structural obligation for the samplers whose numerics are outside the verified subset: every `return` of
sample_batch is `digitize_data(<proposal>, search_space.param_grid)` - together with the PROVED contract of
digitize_data (C17) this puts every coordinate on the declared grid."""
import ast

# samplers decided by a full pyvc contract instead (see contracts/): they may return something else than a snap
BY_CONTRACT = {"RandomUniformSampler"}


def run(repo, reg, prop, tier):
    groups = []
    for cname, ci in sorted(repo.classes.items()):
        if not repo.is_subclass(cname, "BaseSampler") or "sample_batch" not in ci.methods or cname == "BaseSampler":
            continue
        if cname in BY_CONTRACT:
            continue
        fn = ci.methods["sample_batch"]
        rets = [n for n in ast.walk(fn) if isinstance(n, ast.Return)]
        bad = []
        for r in rets:
            v = r.value
            ok = (isinstance(v, ast.Call) and ast.unparse(v.func) == "digitize_data" and len(v.args) == 2
                  and ast.unparse(v.args[1]) == "search_space.param_grid")
            if not ok:
                bad.append({"line": r.lineno, "returns": ast.unparse(v)[:120] if v is not None else "None"})
        key = f"{ci.module}::{cname}.sample_batch"
        groups.append({"name": f"{key}/T/returns-through-grid-snap", "function": key,
                       # a return that does not syntactically go through the snap is UNDECIDED (the bounded stand-in
                       # C03/all-samplers decides), never a violation by itself
                       "verdict": "unknown" if (bad or not rets) else "proved", "kind": "T", "backend": ["structure"],
                       "time": 0.0, "instances": max(len(rets), 1), "lines": [b["line"] for b in bad],
                       "witness": {"returns_not_snapped": bad} if bad else None,
                       "detail": (f"return statements that do not go through digitize_data(..., search_space.param_grid): {bad}"
                                  if bad else f"{len(rets)} return statements, all snap onto search_space.param_grid"),
                       "replayed": None,
                       "assumes": ["C03 structural: the proposal handed to digitize_data is a 2-d array with one column "
                                   "per parameter and batch_size rows (proved only for Halton / R-sequence / surrogate / "
                                   "random-uniform contracts; bounded stand-in C03/all-samplers for PSO, CORS, GP, best-batch)"]})
    return groups
