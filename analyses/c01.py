"""C01 (and the structural part of C05): flow obligations about where randomness and configuration may flow.

D1  no un-seeded source of nondeterminism in the library code reached by a calibration (global numpy / stdlib RNGs,
    default_rng() without seed, os.urandom, uuid, hash()/id() ordering, set iteration); time.time() may only feed prints
D2  reset completeness: an attribute a seedable class draws from its generator at construction time is re-drawn by its
    _set_random_state override (a reseed erases every trace of the constructor seed)
D3  simulation seeds are drawn in the parent process, in order, as an ARGUMENT of the delayed model call
D4  verbosity / saving folder / n_jobs reach only prints, the checkpoint call and the Parallel constructor in calibrate
D5  seed cascade: calibrator -> scheduler -> every sampler (-> agent, env) through _get_random_seed, at batch 0 only
A pattern that is no longer recognised is UNDECIDED (the bounded stand-ins C01/determinism, C05/resume decide).
"""
from __future__ import annotations

import ast
import re

CA = "black_it/calibrator.py"
SKIP_DIRS = ("black_it/plot/",)


def _grp(name, verdict, detail, fkey, witness=None):
    return {"name": f"{fkey}/D/{name}", "function": fkey, "verdict": verdict, "kind": "D", "backend": ["flow"],
            "time": 0.0, "instances": 1, "lines": [], "witness": witness, "detail": detail, "replayed": None,
            "assumes": ["determinism of sklearn / xgboost / scipy given a fixed integer random_state, of joblib's result "
                        "order, and of the user model given (theta, N, seed) is assumed"]}


BAD_CALL = re.compile(r"^(np\.random\.(?!default_rng|Generator|SeedSequence)\w+|random\.\w+|os\.urandom|uuid\.\w+|"
                      r"secrets\.\w+|numpy\.random\.(?!default_rng)\w+)$")


def d1_sources(repo):
    groups = []
    for path, mod in sorted(repo.modules.items()):
        if path.startswith(SKIP_DIRS):
            continue
        bad, n = [], 0
        for fn in [x for x in ast.walk(mod) if isinstance(x, ast.FunctionDef)]:
            tnames = set()
            for node in ast.walk(fn):
                if isinstance(node, ast.Call):
                    n += 1
                    name = ast.unparse(node.func)
                    if BAD_CALL.match(name):
                        bad.append({"line": node.lineno, "call": name, "why": "global / unseeded random source"})
                    if name.endswith("default_rng") and not node.args and not node.keywords:
                        bad.append({"line": node.lineno, "call": name, "why": "default_rng() without a seed"})
                    if name in ("hash", "id") and not isinstance(getattr(node, "_parent", None), ast.FormattedValue):
                        bad.append({"line": node.lineno, "call": name, "why": "address / hash dependent value"})
                if isinstance(node, ast.Assign) and isinstance(node.value, ast.Call) and \
                        ast.unparse(node.value.func) == "time.time" and isinstance(node.targets[0], ast.Name):
                    tnames.add(node.targets[0].id)
                if isinstance(node, ast.For) and isinstance(node.iter, ast.Call) and ast.unparse(node.iter.func) == "set":
                    bad.append({"line": node.lineno, "call": "for .. in set(..)", "why": "set iteration order"})
            if tnames:
                # wall-clock values may only be combined with each other and printed
                derived = set(tnames)
                for _ in range(3):
                    for node in ast.walk(fn):
                        if isinstance(node, ast.Assign) and isinstance(node.targets[0], ast.Name) and \
                                any(isinstance(x, ast.Name) and x.id in derived for x in ast.walk(node.value)):
                            derived.add(node.targets[0].id)
                for node in ast.walk(fn):
                    if isinstance(node, ast.Name) and node.id in derived and isinstance(node.ctx, ast.Load):
                        p = getattr(node, "_p", None)
                for node in ast.walk(fn):
                    for ch in ast.iter_child_nodes(node):
                        ch._p = node  # type: ignore[attr-defined]
                for node in ast.walk(fn):
                    if isinstance(node, ast.Name) and node.id in derived and isinstance(node.ctx, ast.Load):
                        p = node
                        ok = False
                        while hasattr(p, "_p"):
                            p = p._p
                            if isinstance(p, ast.Call) and ast.unparse(p.func) == "print":
                                ok = True
                                break
                            if isinstance(p, ast.Assign) and isinstance(p.targets[0], ast.Name) and \
                                    p.targets[0].id in derived:
                                ok = True
                                break
                        if not ok:
                            bad.append({"line": node.lineno, "call": node.id, "why": "wall-clock value used outside print"})
        groups.append(_grp("no-unseeded-randomness", "refuted" if bad else "proved",
                           f"{bad}" if bad else f"{n} calls examined", path, {"sites": bad} if bad else None))
    return groups


def _draw_attrs(fn):
    """attributes assigned from a generator draw in this method"""
    out = set()
    for node in ast.walk(fn):
        if isinstance(node, ast.Assign) and isinstance(node.targets[0], ast.Attribute) and \
                ast.unparse(node.targets[0].value) == "self" and "random_generator" in ast.unparse(node.value):
            out.add(node.targets[0].attr)
    return out


def _self_calls(fn):
    return {n.func.attr for n in ast.walk(fn) if isinstance(n, ast.Call) and isinstance(n.func, ast.Attribute)
            and ast.unparse(n.func.value) == "self"}


def d2_reset_completeness(repo):
    groups = []
    for cname, ci in sorted(repo.classes.items()):
        if not repo.is_subclass(cname, "BaseSeedable") or cname == "BaseSeedable":
            continue
        init = ci.methods.get("__init__")
        if init is None:
            continue
        helpers = {m: _draw_attrs(f) for m, f in ci.methods.items() if _draw_attrs(f) and m != "_set_random_state"}
        drawn = set(_draw_attrs(init))
        called = _self_calls(init)
        for m, attrs in helpers.items():
            if m in called and m != "__init__":
                drawn |= attrs
        key = f"{ci.module}::{cname}._set_random_state"
        if not drawn:
            continue
        r = repo.find_method(cname, "_set_random_state")
        reset = set()
        if r is not None:
            dcls, fn = r
            reset |= _draw_attrs(fn)
            for m in _self_calls(fn):
                f2 = repo.find_method(cname, m)
                if f2 is not None:
                    reset |= _draw_attrs(f2[1])
        missing = sorted(drawn - reset)
        groups.append(_grp("reseed-redraws-constructor-draws", "refuted" if missing else "proved",
                           (f"attributes drawn from the generator at construction {sorted(drawn)}; not re-drawn by "
                            f"_set_random_state: {missing}") if missing else
                           f"{sorted(drawn)} are re-drawn by _set_random_state", key,
                           {"not_reset": missing} if missing else None))
    return groups


def d3_seeds_in_parent(repo):
    key = f"{CA}::Calibrator.simulate_model"
    r = repo.get_function(key)
    if r is None:
        return [_grp("seeds-drawn-in-parent-in-order", "unknown", "simulate_model not found", key)]
    fn = r[2]
    src = ast.unparse(fn).replace(" ", "")
    ok = False
    for node in ast.walk(fn):
        if isinstance(node, ast.Call) and isinstance(node.func, ast.Call) and \
                ast.unparse(node.func.func) == "Parallel" and len(node.args) == 1 and \
                isinstance(node.args[0], ast.GeneratorExp):
            g = node.args[0]
            elt = g.elt
            if isinstance(elt, ast.Call) and isinstance(elt.func, ast.Call) and ast.unparse(elt.func.func) == "delayed" \
                    and ast.unparse(elt.func.args[0]) == "self.model":
                args = [ast.unparse(a) for a in elt.args]
                itsrc = ast.unparse(g.generators[0].iter)
                ok = ("self._get_random_seed()" in args and args[1] == "self.N" and len(g.generators) == 1
                      and not g.generators[0].ifs and "rep_params" in itsrc)
    rep = "rep_params=np.repeat(params,self.ensemble_size,axis=0)" in src
    resh = "np.reshape(simulated_data,(params.shape[0],self.ensemble_size,self.N,self.D))" in src
    return [_grp("seeds-drawn-in-parent-in-order", "proved" if ok else "unknown",
                 "Parallel(..)(delayed(self.model)(param, self.N, self._get_random_seed()) for .. in rep_params): the "
                 "seed is an argument evaluated by the generator in the calling process, one per (row, member) in order"
                 if ok else "pattern not recognised", key),
            _grp("ensemble-rows-paired-with-their-vector", "proved" if (rep and resh) else "unknown",
                 "np.repeat(params, E, axis=0) then reshape to (rows, E, N, D): member e of row r is call r*E+e"
                 if (rep and resh) else "pattern not recognised", key)]


def d4_config_independence(repo):
    key = f"{CA}::Calibrator.calibrate"
    r = repo.get_function(key)
    if r is None:
        return [_grp("verbosity-reaches-prints-only", "unknown", "calibrate not found", key)]
    fn = r[2]
    for node in ast.walk(fn):
        for ch in ast.iter_child_nodes(node):
            ch._p = node  # type: ignore[attr-defined]
    groups = []
    bad = []
    unsure = []
    n = 0
    for node in ast.walk(fn):
        if isinstance(node, ast.Attribute) and ast.unparse(node) == "self.verbose":
            n += 1
            p = node._p
            if not (isinstance(p, ast.If) and p.test is node):
                bad.append({"line": node.lineno, "use": ast.unparse(p)[:80]})
                continue
            assigned = set()
            for st in ast.walk(ast.Module(body=p.body, type_ignores=[])):
                if isinstance(st, ast.Assign):
                    for t in st.targets:
                        if isinstance(t, ast.Name):
                            assigned.add(t.id)
                        else:
                            bad.append({"line": st.lineno, "use": "store to " + ast.unparse(t)})
                elif isinstance(st, (ast.Break, ast.Continue, ast.Return, ast.Raise, ast.AugAssign)):
                    bad.append({"line": st.lineno, "use": type(st).__name__ + " under `if self.verbose`"})
                elif isinstance(st, ast.Call) and ast.unparse(st.func) not in ("print", "np.round", "np.min", "np.average",
                                                                              "textwrap.dedent", "np.mean", "np.max"):
                    unsure.append({"line": st.lineno, "use": "call " + ast.unparse(st.func)})
            inside = {id(x) for x in ast.walk(ast.Module(body=p.body, type_ignores=[]))}
            for x in ast.walk(fn):
                if isinstance(x, ast.Name) and x.id in assigned and id(x) not in inside and isinstance(x.ctx, ast.Load):
                    bad.append({"line": x.lineno, "use": f"{x.id} (set under `if self.verbose`) used outside"})
    groups.append(_grp("verbosity-reaches-prints-only", "refuted" if bad else ("proved" if (n and not unsure) else "unknown"),
                       f"{bad}" if bad else (f"calls of unknown effect under `if self.verbose`: {unsure}" if unsure else
                                             f"{n} reads of self.verbose, each the test of an if whose body only prints"),
                       key, {"sites": bad} if bad else None))
    bad = []
    for node in ast.walk(fn):
        if isinstance(node, ast.Attribute) and ast.unparse(node) == "self.saving_folder":
            txt = ast.unparse(node._p).replace(" ", "")
            if txt not in ("self.saving_folderisnotNone", "self.create_checkpoint(self.saving_folder)"):
                bad.append({"line": node.lineno, "use": txt[:80]})
    groups.append(_grp("saving-folder-reaches-checkpoint-only", "refuted" if bad else "proved",
                       f"{bad}" if bad else "self.saving_folder only guards / parameterises create_checkpoint", key))
    sm = repo.get_function(f"{CA}::Calibrator.simulate_model")
    uses = []
    for k2 in (key, f"{CA}::Calibrator.simulate_model"):
        f2 = repo.get_function(k2)
        if f2 is None:
            continue
        for node in ast.walk(f2[2]):
            for ch in ast.iter_child_nodes(node):
                ch._p = node  # type: ignore[attr-defined]
        for node in ast.walk(f2[2]):
            if isinstance(node, ast.Attribute) and ast.unparse(node) == "self.n_jobs":
                uses.append(ast.unparse(node._p).replace(" ", ""))
    ok = all(u == "n_jobs=self.n_jobs" for u in uses) and sm is not None
    groups.append(_grp("n-jobs-reaches-parallel-only", "proved" if ok else "refuted",
                       f"uses of self.n_jobs: {uses}", key))
    # reseeding happens at batch 0 only
    src = ast.unparse(fn).replace(" ", "")
    ok = src.count("self._set_samplers_seeds()") == 1 and "ifself.current_batch_index==0:\nself._set_samplers_seeds()" in \
        src.replace("\n\n", "\n")
    groups.append(_grp("samplers-reseeded-at-batch-0-only", "proved" if ok else "unknown",
                       "if self.current_batch_index == 0: self._set_samplers_seeds()", key))
    return groups


def d5_cascade(repo):
    groups = []
    k1 = f"{CA}::Calibrator._set_samplers_seeds"
    r = repo.get_function(k1)
    src = ast.unparse(r[2]).replace(" ", "") if r else ""
    top = [ast.unparse(st).replace(" ", "") for st in (r[2].body if r else [])]
    groups.append(_grp("scheduler-seeded-from-calibrator-seed", "proved" if
                       "self.scheduler.random_state=self.random_state" in top else
                       ("refuted" if "self.scheduler.random_state=self.random_state" in src else "unknown"),
                       "self.scheduler.random_state = self.random_state is an UNCONDITIONAL statement of "
                       "_set_samplers_seeds (every seed value, 0 included, is cascaded)"
                       if "self.scheduler.random_state=self.random_state" in top else
                       "the cascade assignment is conditional / missing", k1))
    for cls, path in (("BaseScheduler", "black_it/schedulers/base.py"), ("RLScheduler", "black_it/schedulers/rl/rl_scheduler.py")):
        k = f"{path}::{cls}._set_random_state"
        r = repo.get_function(k)
        src = ast.unparse(r[2]).replace(" ", "") if r else ""
        ok = "super()._set_random_state(random_state)" in src and \
            "forsamplerinself.samplers:\nsampler.random_state=self._get_random_seed()" in src.replace("\n\n", "\n")
        if cls == "RLScheduler":
            ok = ok and "self._agent.random_state=self._get_random_seed()" in src and \
                "self._env.reset(seed=self._get_random_seed())" in src
        groups.append(_grp("every-sampler-seeded-from-the-scheduler-stream", "proved" if ok else "unknown",
                           "generator rebuilt from the seed, then one _get_random_seed() per sampler in order"
                           + (" (+ agent, env)" if cls == "RLScheduler" else ""), k))
    k = "black_it/utils/seedable.py::BaseSeedable._set_random_state"
    r = repo.get_function(k)
    src = ast.unparse(r[2]).replace(" ", "") if r else ""
    groups.append(_grp("generator-rebuilt-from-seed", "proved" if "default_rng(self.random_state)" in src else "unknown",
                       "self.__random_generator = default_rng(self.random_state)", k))
    return groups


def d6_generator_ownership(repo):
    """The generator object is re-created on every reseed: nothing that captured the OLD generator object may be kept
    on self (a cached scipy frozen distribution, a bound method, ...), and no attribute may hold a numpy VIEW of another
    attribute (pickling turns a view into an independent array - resume would diverge)."""
    groups = []
    for cname, ci in sorted(repo.classes.items()):
        if not repo.is_subclass(cname, "BaseSeedable") or cname == "BaseSeedable":
            continue
        bad, views, n = [], [], 0
        for mname, fn in ci.methods.items():
            tainted = set()
            for _ in range(2):
                for node in ast.walk(fn):
                    if isinstance(node, ast.Assign):
                        v = ast.unparse(node.value)
                        uses_gen = "self.random_generator" in v and not v.startswith("self.random_generator.") \
                            or any(isinstance(x, ast.Name) and x.id in tainted for x in ast.walk(node.value))
                        if ast.unparse(node.value) == "self.random_generator":
                            uses_gen = True
                        for t in node.targets:
                            if isinstance(t, ast.Attribute) and isinstance(t.value, ast.Name) and t.value.id != "self" \
                                    and "self.random_generator" == v:
                                tainted.add(t.value.id)          # local_obj.attr = self.random_generator
                            if isinstance(t, ast.Name) and uses_gen and v == "self.random_generator":
                                tainted.add(t.id)
            for node in ast.walk(fn):
                if isinstance(node, ast.Assign):
                    for t in node.targets:
                        root = t
                        while isinstance(root, ast.Subscript):
                            root = root.value
                        if isinstance(root, ast.Attribute) and isinstance(root.value, ast.Name) and root.value.id == "self":
                            n += 1
                            if any(isinstance(x, ast.Name) and x.id in tainted for x in ast.walk(node.value)) or \
                                    ast.unparse(node.value) == "self.random_generator":
                                bad.append({"line": node.lineno, "store": ast.unparse(node)[:90]})
                            v = node.value
                            if isinstance(v, ast.Subscript) and isinstance(v.slice, ast.Slice) and \
                                    ast.unparse(v.value).startswith("self.") and isinstance(t, ast.Attribute):
                                views.append({"line": node.lineno, "store": ast.unparse(node)[:90]})
        key = f"{ci.module}::{cname}"
        if n:
            groups.append(_grp("old-generator-never-kept-on-self", "refuted" if bad else "proved",
                               f"{bad}" if bad else f"{n} attribute stores examined", key, {"sites": bad} if bad else None))
            groups.append(_grp("no-attribute-is-a-view-of-another", "unknown" if views else "proved",
                               f"{views}" if views else f"{n} attribute stores examined", key))
    return groups


def run(repo, reg, prop, tier):
    return d6_generator_ownership(repo) + d1_sources(repo) + d2_reset_completeness(repo) + d3_seeds_in_parent(repo) + d4_config_independence(repo) + \
        d5_cascade(repo)
