"""C02 ('rows once recorded never change'): the calibrator lends its live history arrays to samplers and its series to
the loss; the frame obligations of both families (C16 / C08 analyses) are therefore part of C02."""
from analyses import c08, c16


def run(repo, reg, prop, tier):
    return c16.run(repo, reg, prop, tier) + c08.run(repo, reg, prop, tier)
