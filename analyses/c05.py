"""C05: resuming = never having stopped, structural part.

R1  every calibrator attribute READ by the batch loop (calibrate, simulate_model, check_convergence call, create_checkpoint)
    is persisted by the checkpoint (C04 correspondence) or re-derived by the constructor from persisted configuration;
    an attribute that is neither is UNDECIDED (the bounded stand-in C05/resume decides), never a violation by itself
R2  the prologue of calibrate is the identity on a calibrator that has already run (reseeding is guarded by
    current_batch_index == 0; shared with C01) and the default scheduler session hooks are no-ops
The C04 correspondence obligations and the C01 flow obligations are part of C05 as well.
"""
import ast

from analyses import c01, c04

CA = "black_it/calibrator.py"
DERIVED = {"self.samplers_id_table": "rebuilt by __init__ from scheduler.samplers",
           "self.param_grid": "SearchSpace rebuilt from the persisted bounds / precisions",
           "self.D": "real_data.shape[1]", "self.model": "passed to restore_from_checkpoint (name compared)",
           "self.random_generator": "state restored verbatim", "self.STATE_VERSION": "class constant"}


def run(repo, reg, prop, tier):
    groups = c04.json_backend(repo) + c01.d4_config_independence(repo) + c01.d2_reset_completeness(repo) + \
        c01.d6_generator_ownership(repo)
    key = f"{CA}::Calibrator.calibrate"
    try:
        rs = c04._fn(repo, f"{CA}::Calibrator.restore_from_checkpoint")  # noqa: SLF001
        init = c04._fn(repo, f"{CA}::Calibrator.__init__")  # noqa: SLF001
        targets = c04.restore_targets(rs, init)
        persisted = set()
        for _n, tg in targets:
            persisted |= set(tg)
        persisted = {p.split(".")[0] + "." + p.split(".")[1] for p in persisted}
        read = {}
        for fname in ("calibrate", "simulate_model", "create_checkpoint"):
            fn = repo.get_function(f"{CA}::Calibrator.{fname}")[2]
            for node in ast.walk(fn):
                if isinstance(node, ast.Attribute) and isinstance(node.value, ast.Name) and node.value.id == "self" \
                        and isinstance(node.ctx, ast.Load):
                    ci = repo.classes["Calibrator"]
                    if node.attr in ci.methods or repo.find_method("Calibrator", node.attr) or \
                            repo.find_property("Calibrator", node.attr) and node.attr != "random_generator" and \
                            node.attr != "random_state":
                        continue
                    read.setdefault("self." + node.attr, []).append(node.lineno)
        unknown = sorted(a for a in read if a not in persisted and a not in DERIVED)
        groups.append({"name": f"{key}/D/loop-reads-only-persisted-or-derived-state", "function": key,
                       "verdict": "unknown" if unknown else "proved", "kind": "D", "backend": ["flow"], "time": 0.0,
                       "instances": len(read), "lines": [], "witness": None,
                       "detail": (f"attributes read by the batch loop that are neither persisted nor re-derived: {unknown}"
                                  if unknown else f"{len(read)} attributes read: persisted {sorted(set(read) & persisted)}, "
                                  f"derived {sorted(set(read) & set(DERIVED))}"), "replayed": None})
        sb = repo.get_function("black_it/schedulers/base.py::BaseScheduler.start_session")[2]
        eb = repo.get_function("black_it/schedulers/base.py::BaseScheduler.end_session")[2]
        noop = all(all(isinstance(s, ast.Expr) and isinstance(s.value, ast.Constant) for s in f.body) for f in (sb, eb))
        rr = repo.classes["RoundRobinScheduler"]
        ok = noop and "start_session" not in rr.methods and "end_session" not in rr.methods
        groups.append({"name": f"{key}/D/round-robin-session-hooks-are-no-ops", "function": key,
                       "verdict": "proved" if ok else "unknown", "kind": "D", "backend": ["flow"], "time": 0.0,
                       "instances": 1, "lines": [], "witness": None,
                       "detail": "BaseScheduler.start_session/end_session have empty bodies and RoundRobinScheduler does "
                                 "not override them" if ok else "session hooks are not trivially no-ops", "replayed": None})
    except Exception as e:  # noqa: BLE001
        groups.append({"name": f"{key}/D/loop-reads-only-persisted-or-derived-state", "function": key, "verdict": "unknown",
                       "kind": "D", "backend": ["flow"], "time": 0.0, "instances": 1, "lines": [], "witness": None,
                       "detail": f"pattern not recognised: {e}", "replayed": None})
    return groups
