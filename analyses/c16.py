"""C16 (no-modification clause): frame obligations for every built-in sampler - the history arrays lent to
sample()/sample_batch()/fit()/predict() are never written (store-site alias analysis, see frames.py)."""
from analyses import frames

TRACKED = {"existing_points", "existing_losses", "X", "y", "points", "losses", "new_points"}
METHODS = ["sample", "sample_batch", "fit", "predict", "sample_candidates", "find_and_get_duplicates", "_clip_losses",
           "prepare_data_for_classifier", "_update_best", "_predict_mean_std", "_predict_EI"]


def sampler_keys(repo):
    keys = []
    for cname, ci in sorted(repo.classes.items()):
        if not repo.is_subclass(cname, "BaseSampler"):
            continue
        for m in METHODS:
            if m in ci.methods:
                keys.append(f"{ci.module}::{cname}.{m}")
    for f in ("rbf", "boxtocube", "cubetobox"):
        if f in repo.functions:
            keys.append(f"{repo.functions[f][0]}::{f}")
    return keys


def run(repo, reg, prop, tier):
    groups, fa = frames.obligations(repo, sampler_keys(repo), TRACKED, prop, label="history-not-written")
    for g in groups:
        g["assumes"] = ["frame analysis: library calls outside the IN_PLACE list (np.nan_to_num(copy=False), "
                        "np.clip(out=), ndarray.sort/fill/put, np.put/copyto/place/putmask) do not write their "
                        "array arguments (sklearn / xgboost / scipy fit, predict, minimize included)"]
    return groups
