"""C08 (purity clause): frame obligations for every loss - the data handed to compute_loss / compute_loss_1d /
filters / moment calculators are never written (store-site alias analysis, frames.py) - and no loss method stores
data-dependent state on `self` (flow obligation: attribute stores in evaluation methods)."""
import ast

from analyses import frames

TRACKED = {"sim_data_ensemble", "real_data", "time_series", "signal_frequencies", "sq_dist", "probs", "filters",
           "sim_xd", "obs_xd"}
EVAL_METHODS = ["compute_loss", "compute_loss_1d", "_filter_data", "gsl_div_1d_1_sample", "discretize", "get_words",
                "get_words_est_prob", "get_sh_entr", "_check_coordinate_weights", "_check_coordinate_filters",
                "_check_bandwidth"]
FUNCS = ["get_mom_ts_1d", "get_mom_ts", "hp_filter", "hp_cycle_lamb1600_filter", "log_and_hp_filter",
         "diff_log_demean_filter", "ideal_low_pass_filter", "gaussian_low_pass_filter", "kernel"]


def loss_keys(repo):
    keys = []
    for cname, ci in sorted(repo.classes.items()):
        if not repo.is_subclass(cname, "BaseLoss"):
            continue
        for m in EVAL_METHODS:
            if m in ci.methods:
                keys.append(f"{ci.module}::{cname}.{m}")
    for f in FUNCS:
        if f in repo.functions:
            keys.append(f"{repo.functions[f][0]}::{f}")
    return keys


def state_obligations(repo):
    """`self.attr = <expr>` inside an evaluation method: allowed only when <expr> is the same attribute (identity
    rebinding, e.g. cast(T, self._covariance_mat)); anything else makes a later evaluation depend on an earlier one."""
    groups = []
    mutators = {"append", "extend", "insert", "update", "setdefault", "add", "pop", "popitem", "clear", "remove",
                "discard", "sort", "reverse", "fill", "resize", "put"}
    for cname, ci in sorted(repo.classes.items()):
        if not repo.is_subclass(cname, "BaseLoss"):
            continue
        # the evaluation methods of this class plus every method OF THIS CLASS they reach through self.<m>(...) calls
        todo = [m for m in EVAL_METHODS if m in ci.methods]
        reached = []
        while todo:
            m = todo.pop(0)
            if m in reached:
                continue
            reached.append(m)
            for node in ast.walk(ci.methods[m]):
                if isinstance(node, ast.Call) and isinstance(node.func, ast.Attribute) and \
                        isinstance(node.func.value, ast.Name) and node.func.value.id == "self" and \
                        node.func.attr in ci.methods and node.func.attr not in reached:
                    todo.append(node.func.attr)
        for m in reached:
            fn = ci.methods.get(m)
            bad, n = [], 0
            for node in ast.walk(fn):
                # containers held on self that are mutated in place: self.cache[k] = v is handled below; here
                # self.cache.update(...) / .append(...) / .setdefault(...)
                if isinstance(node, ast.Call) and isinstance(node.func, ast.Attribute) and node.func.attr in mutators and \
                        isinstance(node.func.value, ast.Attribute) and isinstance(node.func.value.value, ast.Name) and \
                        node.func.value.value.id == "self":
                    n += 1
                    bad.append({"line": node.lineno, "store": ast.unparse(node)[:100]})
                targets = []
                if isinstance(node, ast.Assign):
                    targets = node.targets
                    val = node.value
                elif isinstance(node, (ast.AugAssign, ast.AnnAssign)) and getattr(node, "value", None) is not None:
                    targets = [node.target]
                    val = node.value
                for t in targets:
                    if isinstance(t, ast.Attribute) and isinstance(t.value, ast.Name) and t.value.id == "self":
                        n += 1
                        same = ast.unparse(val).replace(" ", "")
                        own = f"self.{t.attr}"
                        ident = same == own or (same.startswith("cast(") and same.endswith(f",{own})"))
                        if not ident or isinstance(node, ast.AugAssign):
                            bad.append({"line": node.lineno, "store": ast.unparse(node)[:100]})
                    if isinstance(t, ast.Subscript) and isinstance(t.value, ast.Attribute) and \
                            isinstance(t.value.value, ast.Name) and t.value.value.id == "self":
                        n += 1
                        bad.append({"line": node.lineno, "store": ast.unparse(node)[:100]})
            key = f"{ci.module}::{cname}.{m}"
            groups.append({"name": f"{key}/D/no-state-kept-between-evaluations", "function": key,
                           "verdict": "refuted" if bad else "proved", "kind": "D", "backend": ["flow"], "time": 0.0,
                           "instances": max(n, 1), "lines": [b["line"] for b in bad],
                           "witness": {"attribute_stores": bad} if bad else None,
                           "detail": f"attribute stores in an evaluation method: {bad}" if bad else
                           f"{n} attribute stores examined (identity rebinding only)", "replayed": None})
    return groups


def run(repo, reg, prop, tier):
    groups, _fa = frames.obligations(repo, loss_keys(repo), TRACKED, prop, label="inputs-not-written")
    for g in groups:
        g["assumes"] = ["frame analysis: library calls outside the IN_PLACE list do not write their array arguments; "
                        "user-supplied filters / moment calculators do not write their argument"]
    return groups + state_obligations(repo)
