"""(A source pattern that no longer matches is UNDECIDED - the bounded stand-in decides - never a violation.)
C20: structural obligations on the thin wrappers of utils/time_series.py + frame obligations (inputs not written).
The numerical identities (HP optimality, zero mean) are decided only by the bounded stand-in C20/filters-and-moments."""
import ast

from analyses import frames

F = "black_it/utils/time_series.py"


def _fn(repo, name):
    r = repo.functions.get(name)
    return r[1] if r else None


def _group(name, ok, detail, line=0):
    return {"name": f"{F}::{name}", "function": f"{F}::{name.split('/')[0]}", "verdict": "proved" if ok else "unknown",
            "kind": "T", "backend": ["structure"], "time": 0.0, "instances": 1, "lines": [line] if line else [],
            "witness": None if ok else {"source": detail}, "detail": detail, "replayed": None}


def run(repo, reg, prop, tier):
    groups = []
    # cycle at lambda 1600: element 0 of hp_filter(time_series, lamb=1600)
    fn = _fn(repo, "hp_cycle_lamb1600_filter")
    if fn is not None:
        rets = [n for n in ast.walk(fn) if isinstance(n, ast.Return)]
        txt = ast.unparse(rets[0].value).replace(" ", "") if rets else ""
        groups.append(_group("hp_cycle_lamb1600_filter/T/is-cycle-of-hp-filter-1600",
                             txt in ("hp_filter(time_series,lamb=1600)[0]", "hp_filter(time_series,1600)[0]"), txt))
    fn = _fn(repo, "log_and_hp_filter")
    if fn is not None:
        rets = [n for n in ast.walk(fn) if isinstance(n, ast.Return)]
        txt = ast.unparse(rets[0].value).replace(" ", "") if rets else ""
        groups.append(_group("log_and_hp_filter/T/is-log-minus-hp-trend-of-log",
                             txt == "np.log(time_series)-hp_filter(np.log(time_series),lamb=1600)[1]", txt))
    fn = _fn(repo, "hp_filter")
    if fn is not None:
        rets = [n for n in ast.walk(fn) if isinstance(n, ast.Return)]
        txt = ast.unparse(rets[0].value).replace(" ", "") if rets else ""
        src = ast.unparse(fn).replace(" ", "")
        groups.append(_group("hp_filter/T/returns-cycle-then-trend", txt == "(cycle,trend)" and
                             "cycle=time_series-trend" in src, txt))
        groups.append(_group("hp_filter/T/second-difference-operator",
                             "offsets=np.array([0,1,2])" in src and "np.repeat([[1.0],[-2.0],[1.0]],nobs,axis=1)" in src
                             and "shape=(nobs-2,nobs)" in src and "I+lamb*K.T.dot(K)" in src,
                             "K = dia_matrix(rows (1,-2,1) at offsets 0,1,2, shape (n-2, n)); system I + lamb*K'K"))
    fn = _fn(repo, "get_mom_ts_1d")
    if fn is not None:
        body = fn.body
        last_two = [ast.unparse(s).replace(" ", "") for s in body[-2:]]
        slots = set()
        for n in ast.walk(fn):
            if isinstance(n, ast.Assign) and isinstance(n.targets[0], ast.Subscript) and \
                    ast.unparse(n.targets[0].value) == "avg_vec_mom" and isinstance(n.targets[0].slice, ast.Constant):
                slots.add(n.targets[0].slice.value)
        groups.append(_group("get_mom_ts_1d/T/nan-to-num-in-place-before-return",
                             last_two == ["np.nan_to_num(avg_vec_mom,copy=False)", "returnavg_vec_mom"], str(last_two)))
        groups.append(_group("get_mom_ts_1d/T/all-18-slots-assigned", slots == set(range(18)), f"slots {sorted(slots)}"))
    keys = [f"{F}::{f}" for f in ("hp_filter", "hp_cycle_lamb1600_filter", "log_and_hp_filter", "diff_log_demean_filter",
                                  "get_mom_ts", "get_mom_ts_1d") if f in repo.functions]
    fg, _ = frames.obligations(repo, keys, {"time_series"}, prop, label="input-not-written")
    return groups + fg
