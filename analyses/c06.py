"""C06: effect-trace obligations for an interrupted save.

JSON/CSV/HDF5 back-end: the ordered list of file effects of save_calibrator_state is extracted from the real AST; for
every proper prefix (a crash after effect k, the next file possibly truncated) the obligation is
    restore(folder) raises  OR  restore(folder) is exactly the old or the new checkpoint.
Assumed reader contracts: a truncated JSON object / pickle raises; a truncated CSV may parse with fewer rows; an HDF5
file is either old, resized-but-unwritten or new.  With files written one after the other the obligation can only
hold if load/restore cross-check the files (counters against array lengths); the analysis looks for such a check.

SQLite back-end: the statements of the try-block are extracted; the obligation is that the DELETE of the previous row
and the INSERT of the new one belong to ONE transaction (no executescript / commit in between, DELETE not inside a
script - sqlite3's executescript commits first and runs in autocommit), and that every exit path rolls back.
"""
from __future__ import annotations

import ast
import re

JP = "black_it/utils/json_pandas_checkpointing.py"
SQ = "black_it/utils/sqlite3_checkpointing.py"
CA = "black_it/calibrator.py"


def _grp(name, verdict, detail, fkey, witness=None):
    return {"name": f"{fkey}/T/{name}", "function": fkey, "verdict": verdict, "kind": "T", "backend": ["trace"],
            "time": 0.0, "instances": 1, "lines": [], "witness": witness, "detail": detail, "replayed": None,
            "assumes": ["crash granularity: one library call = one effect, a partially applied effect leaves a strict "
                        "prefix of its byte stream; truncated JSON / pickle raise on load; kernel / page-cache "
                        "reordering and torn sectors are not modelled"]}


def file_effects(fn: ast.FunctionDef):
    """Ordered (line, file, action) effects of the save function."""
    out = []
    for node in ast.walk(fn):
        if isinstance(node, ast.With):
            txt = ast.unparse(node.items[0].context_expr)
            m = re.search(r"checkpoint_path / '([^']+)'\)\.open\('(\w+)'\)", txt)
            if m:
                out.append((node.lineno, m.group(1), "truncate+write"))
            elif "h5py.File" in txt:
                mode = re.search(r"mode='(\w)'", txt)
                out.append((node.lineno, "series_samp.h5", {"a": "append-in-place", "w": "create+write"}.get(
                    mode.group(1) if mode else "?", "?")))
        if isinstance(node, ast.Call) and ast.unparse(node.func).endswith(".to_csv"):
            m = re.search(r"checkpoint_path / '([^']+)'", ast.unparse(node))
            out.append((node.lineno, m.group(1) if m else "?", "truncate+write"))
    return sorted(out)


def cross_check_present(repo):
    """Is there any comparison of the restored counters with the restored array lengths (or a stamp) in load/restore?"""
    for key in (f"{JP}::load_calibrator_state", f"{CA}::Calibrator.restore_from_checkpoint"):
        r = repo.get_function(key)
        if r is None:
            continue
        for node in ast.walk(r[2]):
            if isinstance(node, (ast.Compare, ast.Call)):
                t = ast.unparse(node)
                if ("n_sampled_params" in t or "current_batch_index" in t) and ("len(" in t or ".shape" in t) and \
                        isinstance(node, ast.Compare):
                    return True
    return False


def json_backend(repo):
    fkey = f"{JP}::save_calibrator_state"
    r = repo.get_function(fkey)
    if r is None:
        return [_grp("json-backend/effects-extracted", "unknown", "save function not found", fkey)]
    eff = file_effects(r[2])
    files = []
    for _, f, _a in eff:
        if f not in files:
            files.append(f)
    if len(files) < 2:
        return [_grp("json-backend/effects-extracted", "unknown", f"effects not recognised: {eff}", fkey)]
    groups = [_grp("json-backend/effects-extracted", "proved", f"write order: {files}", fkey)]
    checked = cross_check_present(repo)
    for k in range(1, len(files)):
        done, pending = files[:k], files[k:]
        ok = checked
        groups.append(_grp(f"json-backend/crash-after[{done[-1]}]", "proved" if ok else "refuted",
                           (f"files {done} new, {pending} still old (first of them possibly truncated): "
                            + ("load/restore cross-check counters against the arrays" if ok else
                               "nothing in load_calibrator_state / restore_from_checkpoint compares the counters of "
                               "calibration_params.json with the lengths of the restored arrays: a mixture loads silently")),
                           fkey, None if ok else {"new_files": done, "old_files": pending}))
    # ---- FIRST save into an empty folder (no previous checkpoint to mix with): for every prefix "files `done`
    #      complete, file f partially written (any byte prefix), the rest not yet created" the restore must FAIL.
    #      It does iff load opens a file that does not exist yet, or the partial file cannot be parsed.  Assumed reader
    #      contracts: a strict prefix of a JSON object / pickle / HDF5 file raises on load; a strict prefix of a CSV
    #      table MAY parse (fewer rows) - so a CSV may only be cut while another required file is still missing.
    lf = repo.get_function(f"{JP}::load_calibrator_state")
    read = set()
    if lf is not None:
        for node in ast.walk(lf[2]):
            if isinstance(node, ast.Constant) and isinstance(node.value, str) and \
                    re.fullmatch(r"[\w.]+\.(json|csv|pickle|h5)", node.value):
                read.add(node.value)
    if lf is None or not read:
        groups.append(_grp("json-backend/first-save/files-read-by-load", "unknown", "load function / its files not recognised", fkey))
        return groups
    for k, f in enumerate(files):
        later_required = [g for g in files[k + 1:] if g in read]
        cut_parses = f.endswith(".csv")
        ok = bool(later_required) or not cut_parses or f not in read
        groups.append(_grp(f"json-backend/first-save/crash-in[{f}]", "proved" if ok else "refuted",
                           (f"files {files[:k]} complete, {f} cut at any byte, {files[k + 1:]} not created: "
                            + (f"load fails on the missing {later_required[0]}" if later_required else
                               ("a cut JSON / pickle / HDF5 file raises on load" if not cut_parses else
                                "a CSV table cut at a line end parses with fewer rows and every other file is "
                                "complete: the restore succeeds with a truncated history"))),
                           fkey, None if ok else {"complete": files[:k], "cut": f}))
    return groups


def sqlite_backend(repo):
    fkey = f"{SQ}::save_calibrator_state"
    r = repo.get_function(fkey)
    if r is None:
        return [_grp("sqlite/statements-extracted", "unknown", "save function not found", fkey)]
    fn = r[2]
    consts = repo.module_consts.get(SQ, {})

    def sql_of(node):
        if isinstance(node, ast.Name) and node.id in consts and isinstance(consts[node.id], ast.Constant):
            return str(consts[node.id].value)
        if isinstance(node, ast.Name) and node.id in consts and isinstance(consts[node.id], ast.JoinedStr):
            return ast.unparse(consts[node.id])
        if isinstance(node, ast.Constant):
            return str(node.value)
        return ast.unparse(node)
    tries = [n for n in ast.walk(fn) if isinstance(n, ast.Try)]
    if len(tries) != 1:
        return [_grp("sqlite/statements-extracted", "unknown", "expected exactly one try block", fkey)]
    t = tries[0]
    stmts = []
    for s in t.body:
        for n in ast.walk(s):
            if isinstance(n, ast.Call):
                f = ast.unparse(n.func)
                if f.endswith(".execute") or f.endswith(".executescript"):
                    stmts.append((f.split(".")[-1], sql_of(n.args[0]).upper()))
                elif f.endswith(".commit"):
                    stmts.append(("commit", ""))
    groups = [_grp("sqlite/statements-extracted", "proved", " ; ".join(f"{k}:{q.split()[0] if q else ''}" for k, q in stmts),
                   fkey)]
    # locate DELETE and INSERT
    di = [i for i, (k, q) in enumerate(stmts) if "DELETE FROM CHECKPOINT" in q]
    ii = [i for i, (k, q) in enumerate(stmts) if "INSERT INTO CHECKPOINT" in q]
    if len(di) != 1 or len(ii) != 1:
        groups.append(_grp("sqlite/delete-and-insert-in-one-transaction", "unknown",
                           f"DELETE at {di}, INSERT at {ii}", fkey))
    else:
        d, i = di[0], ii[0]
        bad = []
        if stmts[d][0] == "executescript":
            bad.append("the DELETE is issued through executescript (commits first, runs in autocommit)")
        if d > i:
            bad.append("the DELETE follows the INSERT")
        for k in range(min(d, i) + 1, max(d, i)):
            if stmts[k][0] in ("executescript", "commit"):
                bad.append(f"a {stmts[k][0]} separates DELETE and INSERT")
        groups.append(_grp("sqlite/delete-and-insert-in-one-transaction", "refuted" if bad else "proved",
                           "; ".join(bad) if bad else "DELETE and INSERT are plain execute() calls with no commit in between",
                           fkey, {"statements": [k for k, _ in stmts]} if bad else None))
    # rollback on every exceptional exit, close on every exit
    h = [x for x in t.handlers if x.type is None or ast.unparse(x.type) in ("BaseException", "Exception")]
    rb = any("rollback" in ast.unparse(x) for x in h)
    re_raise = any(isinstance(n, ast.Raise) for x in h for n in ast.walk(x))
    groups.append(_grp("sqlite/rollback-and-reraise-on-error", "proved" if (rb and re_raise) else "refuted",
                       "except-handler rolls back and re-raises" if (rb and re_raise) else "no rollback / exception swallowed",
                       fkey))
    prag = [q for k, q in stmts if q.strip().startswith("PRAGMA") and "USER_VERSION" not in q]
    allsrc = ast.unparse(fn).upper() + " ".join(str(getattr(v, "value", "")) for v in consts.values()).upper()
    risky = [w for w in ("JOURNAL_MODE", "SYNCHRONOUS", "LOCKING_MODE") if w in allsrc]
    groups.append(_grp("sqlite/default-rollback-journal-kept", "unknown" if (prag or risky) else "proved",
                       f"PRAGMAs that change the journalling: {prag or risky}" if (prag or risky) else
                       "no PRAGMA other than user_version: SQLite's rollback journal protects the previous row", fkey))
    groups.append(_grp("sqlite/commit-is-last", "proved" if stmts and stmts[-1][0] == "commit" else "refuted",
                       "the single commit is the last statement of the try block", fkey))
    return groups


def run(repo, reg, prop, tier):
    return json_backend(repo) + sqlite_backend(repo)
