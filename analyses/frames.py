"""Frame (`modifies`) checker: a modular may-alias / store analysis over the real AST.

For a function f and a set of tracked parameters P ("the caller's arrays"), every store site of f - subscript store,
augmented assignment on an array name, in-place library call, call of a repo function whose own summary writes a
parameter - yields one obligation "the store target does not alias a tracked parameter".  Summaries are computed
per function (callers use the callee's summary, not its body) and iterated to a fixed point over the call graph.

Aliasing rules (conservative: anything not known to copy may alias):
  alias:  x = y, cast(T, y), y[...] (ANY subscript: views; fancy indexing is treated as a view too), y.T, reshape,
          atleast_2d, asarray, for-targets over y, tuple unpacking, conditional expressions, `or`
  fresh:  arithmetic / comparisons, np.copy, np.array, np.zeros/ones/full, np.vstack/hstack/concatenate/append,
          astype, constructor calls, literals
Assumed (listed in the evidence): library calls other than the IN_PLACE list do not write their array arguments.
"""
from __future__ import annotations

import ast

IN_PLACE_FUNCS = {"np.nan_to_num": ("copy", False), "np.clip": ("out", None), "np.put": None, "np.copyto": None,
                  "np.place": None, "np.putmask": None, "np.fill_diagonal": None, "np.random.shuffle": None}
IN_PLACE_METHODS = {"sort", "fill", "put", "resize", "itemset", "partition", "setfield", "byteswap", "clip_",
                    "__setitem__", "shuffle"}
FRESH_FUNCS = {"np.copy", "np.array", "np.zeros", "np.ones", "np.full", "np.vstack", "np.hstack", "np.concatenate",
               "np.append", "np.argsort", "np.argmin", "np.argmax", "np.min", "np.max", "np.mean", "np.sum",
               "np.where", "np.abs", "np.linalg.norm", "np.subtract", "np.unique", "np.sort", "np.clip", "np.round",
               "np.quantile", "np.digitize", "np.linspace", "np.arange", "np.exp", "np.log", "np.sqrt", "np.isnan",
               "np.dot", "np.transpose_copy", "len", "float", "int", "abs", "sum", "min", "max", "np.diag", "np.std",
               "np.diff", "np.power", "np.sign", "np.absolute", "np.fft.rfft", "np.repeat", "np.tile", "np.divide",
               "np.multiply", "np.all", "np.any", "np.argwhere", "np.searchsorted", "np.full_like", "np.zeros_like",
               "np.float64", "np.int64", "np.nan_to_num", "np.random.default_rng", "np.isclose", "np.allclose",
               "np.column_stack", "np.cumsum", "np.var", "np.median", "np.percentile", "np.histogram", "np.maximum",
               "np.minimum", "np.fabs", "np.floor", "np.ceil", "np.rint", "range", "enumerate_fresh", "tuple", "list"}
ALIAS_FUNCS = {"cast", "np.atleast_2d", "np.atleast_1d", "np.asarray", "np.asanyarray", "np.reshape", "np.transpose",
               "np.squeeze", "np.ravel", "np.expand_dims", "np.ascontiguousarray", "np.swapaxes", "np.broadcast_to",
               "zip", "enumerate", "reversed", "iter", "np.nditer"}
ALIAS_METHODS = {"reshape", "view", "transpose", "ravel", "squeeze", "swapaxes", "T"}
FRESH_METHODS = {"copy", "astype", "mean", "sum", "min", "max", "std", "var", "tolist", "dot", "any", "all",
                 "flatten", "argsort", "argmin", "argmax", "item", "round", "cumsum", "prod", "conj", "clip"}


class Summary:
    def __init__(self, params):
        self.params = params
        self.writes = {}  # param -> list of (lineno, description)
        self.ret = set()  # params the return value may alias
        self.escapes = {}  # param -> list of (lineno, 'self.attr')


class FrameAnalysis:
    def __init__(self, repo):
        self.repo = repo
        self.summaries = {}
        self.sites = {}  # key -> list of store-site records (all, including safe ones)

    # ---------------------------------------------------------------- resolution
    def resolve(self, call: ast.Call, cls):
        """-> list of repo function keys the call may dispatch to (dynamic dispatch: all overriders)."""
        f = call.func
        if isinstance(f, ast.Attribute) and isinstance(f.value, ast.Name) and f.value.id in ("self", "cls") and cls:
            name = f.attr
            if name.startswith("__") and not name.endswith("__"):
                pass
            keys = []
            for c, ci in self.repo.classes.items():
                if (self.repo.is_subclass(c, cls) or self.repo.is_subclass(cls, c)) and name in ci.methods:
                    keys.append((f"{ci.module}::{c}.{name}", True))
            return keys
        if isinstance(f, ast.Attribute) and isinstance(f.value, ast.Call) and isinstance(f.value.func, ast.Name) \
                and f.value.func.id == "super" and cls:
            r = None
            for c in self.repo.mro(cls)[1:]:
                if f.attr in self.repo.classes[c].methods:
                    r = c
                    break
            return [(f"{self.repo.classes[r].module}::{r}.{f.attr}", True)] if r else []
        if isinstance(f, ast.Name) and f.id in self.repo.functions:
            mod, _ = self.repo.functions[f.id]
            return [(f"{mod}::{f.id}", False)]
        if isinstance(f, ast.Attribute) and isinstance(f.value, ast.Name) and f.value.id in self.repo.classes:
            c = f.value.id
            if f.attr in self.repo.classes[c].methods:
                fn = self.repo.classes[c].methods[f.attr]
                static = "staticmethod" in getattr(fn, "_decos", [])
                return [(f"{self.repo.classes[c].module}::{c}.{f.attr}", not static and False)]
        return []

    def fn_params(self, key):
        info = self.repo.get_function(key)
        if info is None:
            return None
        _, cls, fn = info
        ps = [a.arg for a in fn.args.posonlyargs + fn.args.args]
        decos = getattr(fn, "_decos", [])
        if cls and "staticmethod" not in decos and ps and ps[0] in ("self", "cls"):
            ps = ps[1:]
        return ps, fn, cls

    # ---------------------------------------------------------------- per function
    def analyse(self, key, depth=0):
        if key in self.summaries:
            return self.summaries[key]
        r = self.fn_params(key)
        if r is None:
            return None
        params, fn, cls = r
        summ = Summary(params)
        self.summaries[key] = summ  # provisional (recursion guard)
        for _round in range(3):
            before = (dict(summ.writes), set(summ.ret))
            self._run(key, fn, cls, params, summ)
            if (dict(summ.writes), set(summ.ret)) == before:
                break
        return summ

    def _run(self, key, fn, cls, params, summ):
        env = {p: {p} for p in params}  # local name -> set of params it may alias
        sites = []
        summ.writes = {}
        summ.escapes = {}
        summ.ret = set()

        def al(node):
            """params the value of `node` may alias"""
            if isinstance(node, ast.Name):
                return set(env.get(node.id, set()))
            if isinstance(node, ast.Subscript):
                return al(node.value)
            if isinstance(node, ast.Attribute):
                if node.attr in ALIAS_METHODS:
                    return al(node.value)
                if isinstance(node.value, ast.Name) and node.value.id == "self":
                    return set(env.get("self." + node.attr, set()))
                return al(node.value) if node.attr in ("real", "imag", "flat") else set()
            if isinstance(node, ast.Starred):
                return al(node.value)
            if isinstance(node, (ast.Tuple, ast.List)):
                out = set()
                for e in node.elts:
                    out |= al(e)
                return out
            if isinstance(node, ast.IfExp):
                return al(node.body) | al(node.orelse)
            if isinstance(node, ast.BoolOp):
                out = set()
                for v in node.values:
                    out |= al(v)
                return out
            if isinstance(node, ast.NamedExpr):
                return al(node.value)
            if isinstance(node, ast.Call):
                name = ast.unparse(node.func)
                if name in ALIAS_FUNCS:
                    out = set()
                    for a in node.args:
                        out |= al(a)
                    return out
                if isinstance(node.func, ast.Attribute) and node.func.attr in ALIAS_METHODS:
                    return al(node.func.value)
                targets = self.resolve(node, cls)
                if targets:
                    out = set()
                    for tk, _bound in targets:
                        cs = self.analyse(tk)
                        if cs is None:
                            continue
                        for p in cs.ret:
                            a = self._actual(node, cs.params, p)
                            if a is not None:
                                out |= al(a)
                    return out
                # a USER-SUPPLIED callable (a local / parameter bound to a callable, or a callable stored on self that is
                # not a method): nothing is known about it - its result may be (a view of) any of its arguments
                f_ = node.func
                user = (isinstance(f_, ast.Name) and f_.id in env) or \
                       (isinstance(f_, ast.Attribute) and isinstance(f_.value, ast.Name) and f_.value.id == "self")
                if user:
                    out = set()
                    for a in list(node.args) + [k.value for k in node.keywords]:
                        out |= al(a)
                    return out
                return set()  # library call / constructor / arithmetic helper: fresh (see module docstring)
            return set()  # literals, arithmetic, comparisons, comprehensions: fresh

        def store(target_aliases, lineno, desc):
            rec = {"line": lineno, "what": desc, "aliases": sorted(target_aliases)}
            sites.append(rec)
            for p in target_aliases:
                summ.writes.setdefault(p, []).append((lineno, desc))

        def assign(target, aliases):
            if isinstance(target, ast.Name):
                env[target.id] = set(aliases)
            elif isinstance(target, (ast.Tuple, ast.List)):
                for t in target.elts:
                    assign(t, aliases)
            elif isinstance(target, ast.Starred):
                assign(target.value, aliases)
            elif isinstance(target, ast.Attribute):
                if isinstance(target.value, ast.Name) and target.value.id == "self":
                    env["self." + target.attr] = set(aliases) | env.get("self." + target.attr, set())
                    for p in aliases:
                        summ.escapes.setdefault(p, []).append((target.lineno, "self." + target.attr))
            elif isinstance(target, ast.Subscript):
                store(al(target.value), target.lineno, f"subscript store into `{ast.unparse(target.value)}`")

        def visit_calls(node):
            for n in ast.walk(node):
                if not isinstance(n, ast.Call):
                    continue
                name = ast.unparse(n.func)
                if name in IN_PLACE_FUNCS and n.args:
                    spec = IN_PLACE_FUNCS[name]
                    hit = spec is None
                    if spec is not None:
                        kwn, val = spec
                        for kw in n.keywords:
                            if kw.arg == kwn:
                                if val is None:
                                    store(al(kw.value), n.lineno, f"in-place `{name}(out=...)`")
                                elif isinstance(kw.value, ast.Constant) and kw.value.value == val:
                                    hit = True
                    if hit:
                        store(al(n.args[0]), n.lineno, f"in-place `{name}`")
                if isinstance(n.func, ast.Attribute) and n.func.attr in IN_PLACE_METHODS:
                    store(al(n.func.value), n.lineno, f"in-place method `.{n.func.attr}()`")
                for tk, _bound in self.resolve(n, cls):
                    cs = self.analyse(tk)
                    if cs is None:
                        continue
                    for p, ws in cs.writes.items():
                        a = self._actual(n, cs.params, p)
                        if a is not None:
                            store(al(a), n.lineno, f"call of `{tk.split('::')[1]}` which writes its parameter `{p}` "
                                                   f"(line {ws[0][0]}: {ws[0][1]})")
                    for p, es in cs.escapes.items():
                        a = self._actual(n, cs.params, p)
                        if a is not None:
                            for q in al(a):
                                summ.escapes.setdefault(q, []).append((n.lineno, es[0][1] + " (via callee)"))

        def block(stmts):
            for s in stmts:
                stmt(s)

        def stmt(s):
            if isinstance(s, (ast.FunctionDef, ast.ClassDef)):
                # nested function: analysed as part of this body (closures see the same names)
                if isinstance(s, ast.FunctionDef):
                    block(s.body)
                return
            if isinstance(s, ast.Assign):
                visit_calls(s.value)
                a = al(s.value)
                for t in s.targets:
                    assign(t, a)
            elif isinstance(s, ast.AnnAssign):
                if s.value is not None:
                    visit_calls(s.value)
                    assign(s.target, al(s.value))
            elif isinstance(s, ast.AugAssign):
                visit_calls(s.value)
                if isinstance(s.target, ast.Name):
                    a = al(s.target)
                    if a:
                        store(a, s.lineno, f"augmented assignment `{ast.unparse(s.target)} {type(s.op).__name__}=` "
                                           f"(in place on an ndarray)")
                elif isinstance(s.target, ast.Subscript):
                    store(al(s.target.value), s.lineno, f"augmented subscript store into `{ast.unparse(s.target.value)}`")
                elif isinstance(s.target, ast.Attribute):
                    pass
            elif isinstance(s, ast.For):
                visit_calls(s.iter)
                assign(s.target, al(s.iter))
                for _ in range(2):
                    block(s.body)
                block(s.orelse)
            elif isinstance(s, ast.While):
                visit_calls(s.test)
                for _ in range(2):
                    block(s.body)
                block(s.orelse)
            elif isinstance(s, ast.If):
                visit_calls(s.test)
                saved = {k: set(v) for k, v in env.items()}
                block(s.body)
                e1 = {k: set(v) for k, v in env.items()}
                env.clear()
                env.update(saved)
                block(s.orelse)
                for k, v in e1.items():
                    env[k] = env.get(k, set()) | v
            elif isinstance(s, ast.With):
                for it in s.items:
                    visit_calls(it.context_expr)
                    if it.optional_vars is not None:
                        assign(it.optional_vars, al(it.context_expr))
                block(s.body)
            elif isinstance(s, ast.Try):
                block(s.body)
                for h in s.handlers:
                    block(h.body)
                block(s.orelse)
                block(s.finalbody)
            elif isinstance(s, ast.Return):
                if s.value is not None:
                    visit_calls(s.value)
                    summ.ret |= al(s.value)
            elif isinstance(s, ast.Expr):
                visit_calls(s.value)
            elif isinstance(s, (ast.Raise, ast.Assert)):
                for ch in ast.iter_child_nodes(s):
                    visit_calls(ch)
            elif isinstance(s, ast.Delete):
                pass

        block(fn.body)
        self.sites[key] = sites

    def _actual(self, call: ast.Call, params, p):
        if p not in params:
            return None
        i = params.index(p)
        if i < len(call.args) and not any(isinstance(a, ast.Starred) for a in call.args[: i + 1]):
            return call.args[i]
        for kw in call.keywords:
            if kw.arg == p:
                return kw.value
        return None


def obligations(repo, keys, tracked, prop, label="frame"):
    """One obligation group per (function, store site): proved iff the target aliases no tracked parameter."""
    fa = FrameAnalysis(repo)
    groups = []
    for key in keys:
        summ = fa.analyse(key)
        if summ is None:
            groups.append({"name": f"{key}/M/{label}[function-present]", "function": key, "verdict": "unknown",
                           "kind": "M", "backend": ["flow"], "time": 0.0, "instances": 1, "witness": None,
                           "detail": "function not found in the repository source", "lines": []})
            continue
        track = [p for p in summ.params if p in tracked]
        sites = fa.sites.get(key, [])
        bad = [s for s in sites if set(s["aliases"]) & set(track)]
        n = len(sites)
        groups.append({"name": f"{key}/M/{label}[{','.join(track) or '-'}]", "function": key,
                       "verdict": "refuted" if bad else "proved", "kind": "M", "backend": ["flow"], "time": 0.0,
                       "instances": max(n, 1), "lines": [s["line"] for s in bad],
                       "witness": {"store_sites": bad} if bad else None,
                       "detail": ("; ".join(f"line {s['line']}: {s['what']} may alias {s['aliases']}" for s in bad)
                                  if bad else f"{n} store sites / writing calls examined, none can alias {track}"),
                       "escapes": {p: summ.escapes.get(p, []) for p in track if summ.escapes.get(p)},
                       "replayed": None})
    return groups, fa
