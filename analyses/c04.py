"""C04: save/restore correspondence obligations (structure of the four functions that make a checkpoint round trip).

For every component handed to save_calibrator_state the chain
    calibrator attribute --create_checkpoint--> save parameter --save--> storage slot (json key / csv column /
    pickle file / hdf5 dataset) --load--> tuple position --restore_from_checkpoint--> constructor parameter or
    attribute assignment --Calibrator.__init__--> calibrator attribute
is extracted from the real AST and must close on the SAME attribute.  The codecs themselves (json, pickle, csv text,
hdf5, sqlite adapters) are ASSUMED to return what was stored; where that assumption is known to be false or the
chain needs more than structure, the bounded stand-ins of C04 decide (and known findings are recorded).

A link whose source pattern is not recognised any more is UNDECIDED (never a violation).
"""
from __future__ import annotations

import ast
import re

JP = "black_it/utils/json_pandas_checkpointing.py"
SQ = "black_it/utils/sqlite3_checkpointing.py"
CA = "black_it/calibrator.py"


class Undecided(Exception):
    pass


def _fn(repo, key):
    r = repo.get_function(key)
    if r is None:
        raise Undecided(f"{key} not found")
    return r[2]


def _names(node):
    return [n.id for n in ast.walk(node) if isinstance(n, ast.Name)]


def _file_of_with(w: ast.With):
    """`with (checkpoint_path / "name").open(mode) as fb:` -> (name, var)"""
    it = w.items[0]
    txt = ast.unparse(it.context_expr)
    m = re.search(r"checkpoint_path / '([^']+)'", txt)
    if m and it.optional_vars is not None:
        return m.group(1), ast.unparse(it.optional_vars)
    m = re.search(r"h5py.File\((\w+)", txt)
    if m and it.optional_vars is not None:
        return "series_samp.h5", ast.unparse(it.optional_vars)
    return None, None


def save_slots(fn: ast.FunctionDef):
    """param name -> slot"""
    params = [a.arg for a in fn.args.args]
    slots = {}
    for node in ast.walk(fn):
        if isinstance(node, ast.Assign) and isinstance(node.value, ast.Dict) and isinstance(node.targets[0], ast.Name):
            kind = {"calibration_params": "json", "calibration_results": "csv"}.get(node.targets[0].id)
            if kind is None:
                continue
            for k, v in zip(node.value.keys, node.value.values):
                if isinstance(k, ast.Constant):
                    src = [n for n in _names(v) if n in params]
                    if len(src) == 1:
                        slots.setdefault(src[0], []).append((kind, k.value))
        if isinstance(node, ast.For):
            # for d in range(params_samp.shape[1]): calibration_results[f"params_samp_{d}"] = params_samp[:, d]
            for st in node.body:
                if isinstance(st, ast.Assign) and isinstance(st.targets[0], ast.Subscript) and \
                        ast.unparse(st.targets[0].value) == "calibration_results":
                    src = [n for n in _names(st.value) if n in params]
                    keytxt = ast.unparse(st.targets[0].slice)
                    ktxt = None
                    for s2 in node.body:
                        if isinstance(s2, ast.Assign) and ast.unparse(s2.targets[0]) == keytxt:
                            ktxt = ast.unparse(s2.value)
                    key = ktxt or keytxt
                    m = re.match(r"f'(\w+?)_?\{(\w+)\}'", key)
                    col = st.value
                    if m and len(src) == 1 and isinstance(col, ast.Subscript) and \
                            ast.unparse(col.slice).replace(" ", "").strip("()") == f":,{m.group(2)}":
                        slots.setdefault(src[0], []).append(("csv-columns", m.group(1).rstrip("_")))
        if isinstance(node, ast.With):
            fname, var = _file_of_with(node)
            if fname is None:
                continue
            for c in ast.walk(node):
                if isinstance(c, ast.Call):
                    f = ast.unparse(c.func)
                    if f == "pickle.dump" and ast.unparse(c.args[1]) == var and isinstance(c.args[0], ast.Name):
                        slots.setdefault(c.args[0].id, []).append(("pickle", fname))
                    if f.endswith("create_dataset"):
                        for kw in c.keywords:
                            if kw.arg == "data" and isinstance(kw.value, ast.Name):
                                slots.setdefault(kw.value.id, []).append(("hdf5", fname))
    return params, slots


def load_slots(fn: ast.FunctionDef):
    """tuple position -> slot"""
    local_slot = {}
    for node in ast.walk(fn):
        if isinstance(node, ast.With):
            fname, var = _file_of_with(node)
            for st in node.body:
                if isinstance(st, ast.Assign) and isinstance(st.targets[0], ast.Name):
                    v = ast.unparse(st.value)
                    if v.startswith("pickle.load(") and fname:
                        local_slot[st.targets[0].id] = ("pickle", fname)
                    if fname and "series_file['data']" in v:
                        local_slot[st.targets[0].id] = ("hdf5", fname)
        if isinstance(node, ast.Assign) and isinstance(node.targets[0], ast.Name):
            v = ast.unparse(node.value)
            m = re.search(r"cr\[f'(\w+?)_?\{(\w+)\}'\]", v)
            if m:
                local_slot[node.targets[0].id] = ("csv-columns", m.group(1).rstrip("_"), node.targets[0].id)
    # params_samp = np.vstack(params_samp_list).T  (list of columns -> column-major matrix)
    for node in ast.walk(fn):
        if isinstance(node, ast.Assign) and isinstance(node.targets[0], ast.Name):
            v = ast.unparse(node.value).replace(" ", "")
            m = re.match(r"np\.vstack\((\w+)\)\.T$", v)
            if m and m.group(1) in local_slot and local_slot[m.group(1)][0] == "csv-columns":
                local_slot[node.targets[0].id] = local_slot[m.group(1)][:2]
    ret = [n for n in ast.walk(fn) if isinstance(n, ast.Return)]
    if len(ret) != 1 or not isinstance(ret[0].value, ast.Tuple):
        raise Undecided("load_calibrator_state does not return a single tuple")
    out = []
    for e in ret[0].value.elts:
        t = ast.unparse(e)
        m = re.search(r"cp\['(\w+)'\]", t)
        if m:
            out.append(("json", m.group(1)))
            continue
        m = re.search(r"cr\['(\w+)'\]", t)
        if m:
            out.append(("csv", m.group(1)))
            continue
        if isinstance(e, ast.Name) and e.id in local_slot:
            out.append(tuple(local_slot[e.id][:2]))
            continue
        out.append(None)
    return out


def checkpoint_args(fn: ast.FunctionDef, save_params):
    """save parameter -> source expression text in create_checkpoint"""
    local = {}
    for node in ast.walk(fn):
        if isinstance(node, ast.Assign) and isinstance(node.targets[0], ast.Name):
            local[node.targets[0].id] = ast.unparse(node.value)
    for node in ast.walk(fn):
        if isinstance(node, ast.Call) and ast.unparse(node.func) == "save_calibrator_state":
            if node.keywords or len(node.args) != len(save_params):
                raise Undecided("save_calibrator_state is not called with exactly its positional parameters")
            out = {}
            for p, a in zip(save_params, node.args):
                t = ast.unparse(a)
                out[p] = local.get(t, t) if isinstance(a, ast.Name) else t
            return out
    raise Undecided("call of save_calibrator_state not found in create_checkpoint")


def restore_targets(fn: ast.FunctionDef, init: ast.FunctionDef):
    """tuple position -> attribute path restored from it (or a marker)"""
    unpack = None
    for node in ast.walk(fn):
        if isinstance(node, ast.Assign) and isinstance(node.targets[0], ast.Tuple) and \
                "load_calibrator_state" in ast.unparse(node.value):
            unpack = [ast.unparse(t) for t in node.targets[0].elts]
    if unpack is None:
        raise Undecided("tuple unpacking of load_calibrator_state not found")
    # constructor parameter -> attribute path (from Calibrator.__init__)
    ctor = {}
    for node in ast.walk(init):
        if isinstance(node, ast.Assign) and isinstance(node.targets[0], ast.Attribute) and \
                ast.unparse(node.targets[0].value) == "self":
            attr = node.targets[0].attr
            v = node.value
            if isinstance(v, ast.Name):
                ctor.setdefault(v.id, set()).add(f"self.{attr}")
            elif isinstance(v, ast.Call) and ast.unparse(v.func) == "SearchSpace":
                for a in v.args:
                    if isinstance(a, ast.Name):
                        ctor.setdefault(a.id, set()).add(f"self.{attr}.{a.id}")
            elif isinstance(v, ast.IfExp):
                for nm in _names(v):
                    ctor.setdefault(nm, set()).add(f"self.{attr}")
            elif isinstance(v, ast.Call) and "__validate_samplers_and_scheduler" in ast.unparse(v.func):
                ctor.setdefault("scheduler", set()).add(f"self.{attr}")
    ctor_params = [a.arg for a in init.args.args][1:]
    call = None
    for node in ast.walk(fn):
        if isinstance(node, ast.Call) and ast.unparse(node.func) == "cls":
            call = node
    if call is None:
        raise Undecided("constructor call cls(...) not found in restore_from_checkpoint")
    local_to_ctor = {}
    for p, a in zip(ctor_params, call.args):
        if isinstance(a, ast.Name):
            local_to_ctor.setdefault(a.id, []).append(p)
    for kw in call.keywords:
        if isinstance(kw.value, ast.Name):
            local_to_ctor.setdefault(kw.value.id, []).append(kw.arg)
    assigned = {}
    for node in ast.walk(fn):
        if isinstance(node, ast.Assign) and isinstance(node.targets[0], ast.Attribute) and \
                isinstance(node.value, ast.Name):
            t = ast.unparse(node.targets[0])
            if t.startswith("calibrator."):
                assigned.setdefault(node.value.id, []).append("self." + t[len("calibrator."):])
    out = []
    for name in unpack:
        tg = set(assigned.get(name, []))
        for p in local_to_ctor.get(name, []):
            tg |= ctor.get(p, set())
        out.append((name, tg))
    return out


def _grp(name, verdict, detail, fkey):
    return {"name": f"{fkey}/C/{name}", "function": fkey, "verdict": verdict, "kind": "C", "backend": ["structure"],
            "time": 0.0, "instances": 1, "lines": [], "witness": None if verdict == "proved" else {"detail": detail},
            "detail": detail, "replayed": None,
            "assumes": ["codec round trips assumed: json.dump/load (ints, floats via repr, lists), pickle.dump/load "
                        "(structural copy), DataFrame.to_csv/read_csv (ints exact, floats via round-trip parser), h5py "
                        "dataset create/resize/slice-assign/read, sqlite3 adapters (np.save/np.load, gzip)"]}


# attribute paths that denote the same state on both sides
EQUIV = {
    "self.model.__name__": "model-name (only compared, not restored)",
    "self.random_generator.bit_generator.state": "self.random_generator.bit_generator.state",
}


def json_backend(repo):
    groups = []
    key = f"{CA}::Calibrator.restore_from_checkpoint"
    try:
        save = _fn(repo, f"{JP}::save_calibrator_state")
        load = _fn(repo, f"{JP}::load_calibrator_state")
        ck = _fn(repo, f"{CA}::Calibrator.create_checkpoint")
        rs = _fn(repo, f"{CA}::Calibrator.restore_from_checkpoint")
        init = _fn(repo, f"{CA}::Calibrator.__init__")
        sparams, sslots = save_slots(save)
        lslots = load_slots(load)
        args = checkpoint_args(ck, sparams)
        targets = restore_targets(rs, init)
    except Undecided as e:
        return [_grp("round-trip-structure", "unknown", f"pattern not recognised: {e}", key)]
    if len(targets) != len(lslots):
        groups.append(_grp("tuple-arity", "refuted", f"load returns {len(lslots)} items, restore unpacks {len(targets)}", key))
        return groups
    groups.append(_grp("tuple-arity", "proved", f"{len(lslots)} components", key))
    for p in sparams[1:]:
        sl = sslots.get(p)
        if not sl or len(sl) != 1:
            groups.append(_grp(f"component[{p}]", "unknown" if not sl else "refuted",
                               f"save parameter {p} is written to {sl}", key))
            continue
        slot = sl[0]
        pos = [k for k, s in enumerate(lslots) if s == slot]
        if len(pos) != 1:
            groups.append(_grp(f"component[{p}]", "refuted" if lslots.count(None) == 0 else "unknown",
                               f"slot {slot} written for {p} is read at tuple positions {pos}", key))
            continue
        local, tgs = targets[pos[0]]
        src = args[p]
        if src == "self.model.__name__":
            ok = "model_name ==" in ast.unparse(rs) or "model_name==" in ast.unparse(rs).replace(" ", "")
            groups.append(_grp(f"component[{p}]", "proved" if ok else "unknown",
                               f"{src} -> {slot} -> position {pos[0]} ({local}) -> compared with model.__name__", key))
            continue
        if p == "D":
            groups.append(_grp(f"component[{p}]", "proved", f"{src} -> {slot} -> position {pos[0]} (derived: real_data.shape[1])", key))
            continue
        want = src
        # the generator state is restored through the bit generator, N through sim_length, etc.
        ok = want in tgs
        if not ok and src == "self.random_generator.bit_generator.state":
            ok = "self.random_generator.bit_generator.state" in tgs
        groups.append(_grp(f"component[{p}]", "proved" if ok else "refuted",
                           f"{src} -> save parameter {p} -> {slot} -> tuple position {pos[0]} ({local}) -> {sorted(tgs)}",
                           key))
    return groups


def _sql_cols(text, kw):
    m = re.search(kw + r"\s*(?:INTO checkpoint\s*)?\(?([\w\s,]+?)\)?\s*(?:FROM|VALUES|\))", text, re.S)
    if not m:
        return None
    return [c.strip() for c in m.group(1).split(",") if c.strip()]


def sqlite_backend(repo):
    key = f"{SQ}::load_calibrator_state"
    try:
        mod = repo.modules[SQ]
        consts = repo.module_consts[SQ]
        save = _fn(repo, f"{SQ}::save_calibrator_state")
        load = _fn(repo, f"{SQ}::load_calibrator_state")
        ins = _sql_cols(consts["SQL_SAVE_QUERY"].value, "INSERT INTO checkpoint")
        sel = _sql_cols(consts["SQL_LOAD_QUERY"].value, "SELECT")
        if not ins or not sel:
            raise Undecided("SQL column lists not recognised")
        sparams = [a.arg for a in save.args.args][1:]
        bound = None
        for node in ast.walk(save):
            if isinstance(node, ast.Call) and ast.unparse(node.func).endswith(".execute") and len(node.args) == 2 and \
                    isinstance(node.args[1], ast.Tuple):
                bound = node.args[1].elts
        if bound is None or len(bound) != len(ins):
            raise Undecided("INSERT parameter tuple not recognised")
        local = {}
        for node in ast.walk(save):
            if isinstance(node, ast.Assign) and isinstance(node.targets[0], ast.Name):
                src = [n for n in _names(node.value) if n in sparams]
                if len(src) == 1:
                    local[node.targets[0].id] = src[0]
        col_param = {}
        for c, e in zip(ins, bound):
            src = [local.get(n, n) for n in _names(e) if n in sparams or n in local]
            col_param[c] = src[0] if len(src) == 1 else None
        unpack = None
        for node in ast.walk(load):
            if isinstance(node, ast.Assign) and isinstance(node.targets[0], ast.Tuple) and "SQL_LOAD_QUERY" in ast.unparse(node.value):
                unpack = [ast.unparse(t) for t in node.targets[0].elts]
        if unpack is None or len(unpack) != len(sel):
            raise Undecided("SELECT unpacking not recognised")
        local_col = dict(zip(unpack, sel))
        for node in ast.walk(load):
            if isinstance(node, ast.Assign) and isinstance(node.targets[0], ast.Name):
                src = [n for n in _names(node.value) if n in local_col]
                if len(src) == 1:
                    local_col[node.targets[0].id] = local_col[src[0]]
        ret = [n for n in ast.walk(load) if isinstance(n, ast.Return) and isinstance(n.value, ast.Tuple)]
        if len(ret) != 1:
            raise Undecided("return tuple not recognised")
        groups = []
        elts = ret[0].value.elts
        if len(elts) != len(sparams):
            return [_grp("sqlite-tuple-arity", "refuted", f"load returns {len(elts)} items for {len(sparams)} saved", key)]
        for k, (e, p) in enumerate(zip(elts, sparams)):
            src = [n for n in _names(e) if n in local_col]
            col = local_col[src[0]] if len(src) == 1 else None
            got = col_param.get(col)
            groups.append(_grp(f"sqlite-component[{p}]", "proved" if got == p else ("unknown" if got is None else "refuted"),
                               f"save parameter {p} -> column {[c for c, q in col_param.items() if q == p]} ; load position "
                               f"{k} reads column {col} (written from {got})", key))
        return groups
    except (Undecided, KeyError, AttributeError) as e:
        return [_grp("sqlite-round-trip-structure", "unknown", f"pattern not recognised: {e}", key)]


def run(repo, reg, prop, tier):
    return json_backend(repo) + sqlite_backend(repo)
