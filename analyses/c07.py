"""C07: history-independence of every loss evaluation method (flow obligation shared with C08): an option resolved
once and kept on `self` makes the value depend on earlier evaluations."""
from analyses import c08


def run(repo, reg, prop, tier):
    return c08.state_obligations(repo)
