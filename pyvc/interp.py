"""pyvc symbolic executor (part 2): the interpreter for expressions and statements."""
from __future__ import annotations

import ast

import z3

from . import lib
from .engine import (
    BUILTIN_EXC, GHOST, KNOWN_MODULES, Frame, GhostNS, Outcome, fresh, fresh_arr_like, fresh_like, parse_expr,
)
from .values import (
    NONE, Arr, BoundMethod, CDict, Closure, DictV, Exc, FuncV, Iter, ModuleV, Obj, ObjS, Opaque, Opt, Poison, Ref, ViewRef,
    State, Unsupported, VClass, VStr, VTuple, fresh_name, intern_str, is_boolish, is_num, is_z3, num_pair, to_real,
    to_z3, zand, zimplies, zite, znot, zor,
)


class Interp:
    def __init__(self, repo, reg, sink):
        self.repo = repo
        self.reg = reg
        self.sink = sink  # object with .oblige(state, goal, kind, label, node, frame)
        self.frame: Frame | None = None
        self.dry = 0  # >0 while dry-running a loop body (obligations discarded)
        self.in_contract = 0  # >0 while evaluating a contract expression (pure; safety obligations off)

    # ------------------------------------------------------------------ obligations
    def oblige(self, st, goal, kind, label, node=None):
        if self.dry or self.in_contract:
            return
        self.sink.oblige(st, goal, kind, label, node, self.frame)

    facet = None     # the facet of the current verification pass (None = base pass)

    def clause_on(self, clause):
        """Is this clause part of what the current pass ASSUMES / talks about?  (untagged, or tagged with the pass)"""
        f = getattr(clause, "facet", None)
        return f is None or f == self.facet

    facet_all = False

    def clause_due(self, clause):
        """Does the current pass have to PROVE this clause?  base pass: the untagged ones; facet pass: its own only
        (a function verified in a single facet pass proves everything there)"""
        if self.facet_all:
            return self.clause_on(clause)
        return getattr(clause, "facet", None) == self.facet

    def safety(self, st, goal, label, node=None):
        """Implicit-exception freedom (index in range, division by non-zero, not None, key present)."""
        if self.in_contract:
            # inside specifications partial operations are total-by-convention (guarded by the spec writer)
            return
        if isinstance(goal, bool) and goal:
            return
        self.oblige(st, goal, "S", label, node)
        # after the check the condition may be assumed on this path (Python would have raised otherwise)
        st.assume(goal)

    # ------------------------------------------------------------------ truthiness
    def truth(self, v, st):
        if isinstance(v, bool):
            return v
        if v is NONE:
            return False
        if is_z3(v):
            if z3.is_bool(v):
                return v
            if z3.is_int(v) or z3.is_real(v):
                return v != 0
        if isinstance(v, (int, float)):
            return v != 0
        if isinstance(v, Opt):
            return zand(znot(v.is_none), self.truth(v.val, st))
        if isinstance(v, (Arr, Ref)):
            a = self.arr_of(v, st) if not (isinstance(v, Ref) and v.what != "arr") else None
            if a is not None:
                if a.kind == "ndarray" and a.ndim >= 1:
                    raise Unsupported("truth value of an ndarray")
                n = a.shape[0]
                return n != 0 if is_z3(n) else n != 0
        if isinstance(v, VTuple):
            return len(v.items) != 0
        if isinstance(v, (Obj, Opaque, VClass, BoundMethod, FuncV)):
            return True
        if isinstance(v, VStr) and v.text is not None:
            return len(v.text) != 0
        raise Unsupported(f"truth of {type(v).__name__}")

    # ------------------------------------------------------------------ arrays helpers
    def arr_of(self, v, st) -> Arr:
        if isinstance(v, Arr):
            return v
        if isinstance(v, ViewRef):      # snapshot of the row as it is NOW
            return lib.arr_index(self, st, st.heap[v.base.rid], [v.index])
        if isinstance(v, Ref) and v.what == "arr":
            return st.heap[v.rid]
        if isinstance(v, VTuple):
            items = v.items
            return Arr((len(items),), lambda i: self._pick(items, i), kind="tuple", etype="any")
        if isinstance(v, Opt):
            return self.arr_of(v.val, st)
        raise Unsupported(f"expected array-like, got {type(v).__name__}")

    def _pick(self, items, i):
        if isinstance(i, int):
            return items[i]
        if is_z3(i):
            s = z3.simplify(i)
            if z3.is_int_value(s):
                return items[s.as_long()]
            # symbolic index into a concrete list: If-chain (scalars only)
            if not items:
                # an EMPTY list has no element: any index is out of range, the value is never used on a feasible
                # path (specifications mention it only under a guard that is false) - an arbitrary integer
                return z3.Int(fresh_name("no_element"))
            out = items[-1]
            for k in range(len(items) - 2, -1, -1):
                out = zite(i == k, items[k], out)
            return out
        raise Unsupported("index kind")

    def concrete_int(self, v):
        if isinstance(v, bool):
            return None
        if isinstance(v, int):
            return v
        if is_z3(v):
            s = z3.simplify(v)
            if z3.is_int_value(s):
                return s.as_long()
        return None

    # ------------------------------------------------------------------ names
    def lookup(self, name, st):
        if name in st.env:
            v = st.env[name]
            if isinstance(v, Poison):
                raise Unsupported(f"use of loop-local {name!r} before definition at loop head")
            return v
        fr = self.frame
        if name == "ghost":
            return GHOST
        if fr is not None and fr.contract is not None and name in fr.contract.defs and self.in_contract:
            return FuncV(("def", name))
        if name in self.reg["specs"]:
            return FuncV(("spec", name))
        if name in ("True", "False", "None"):
            return {"True": True, "False": False, "None": NONE}[name]
        if fr is not None and fr.module in self.repo.module_consts and name in self.repo.module_consts[fr.module]:
            node = self.repo.module_consts[fr.module][name]
            saved = self.in_contract
            self.in_contract += 1
            try:
                v = self.eval(node, State())
            finally:
                self.in_contract = saved
            if isinstance(v, (Ref, Obj)):
                raise Unsupported(f"module-level mutable object {name!r} (global state is outside the verified subset)")
            return v
        if name in KNOWN_MODULES:
            return ModuleV({"numpy": "np"}.get(name, name))
        if name in self.repo.classes or name in BUILTIN_EXC:
            return VClass(name)
        if fr is not None:
            # module-level functions: own module first, then `from black_it.x import f [as g]` (two modules may
            # define functions of the same name, e.g. the two checkpointing back-ends)
            if name in self.repo.mod_functions.get(fr.module, {}):
                return FuncV(("repo", f"{fr.module}::{name}"))
            imp = self.repo.imports.get(fr.module, {}).get(name)
            if imp is not None and imp[1] in self.repo.mod_functions.get(imp[0], {}):
                return FuncV(("repo", f"{imp[0]}::{imp[1]}"))
        if name in self.repo.functions:
            mod, _fn = self.repo.functions[name]
            return FuncV(("repo", f"{mod}::{name}"))
        if name in lib.BUILTIN_FUNCS or name in lib.DSL_FUNCS:
            return FuncV(("builtin", name))
        if name in ("float", "int", "str", "bool", "list", "tuple", "dict", "type", "object"):
            return FuncV(("builtin", name))
        raise Unsupported(f"unknown name {name!r}")

    # ------------------------------------------------------------------ expressions
    def eval(self, node, st):
        m = getattr(self, "e_" + type(node).__name__, None)
        if m is None:
            raise Unsupported(f"expression {type(node).__name__}")
        return m(node, st)

    def eval_src(self, src, st):
        return self.eval(parse_expr(src), st)

    def e_Constant(self, node, st):
        v = node.value
        if v is None:
            return NONE
        if isinstance(v, (bool, int, float)):
            return v
        if isinstance(v, str):
            return VStr.const(v)
        if v is Ellipsis:
            raise Unsupported("Ellipsis")
        raise Unsupported(f"constant {type(v).__name__}")

    def e_Name(self, node, st):
        return self.lookup(node.id, st)

    def e_JoinedStr(self, node, st):
        # f-string: an opaque string; embedded expressions must be pure (checked syntactically)
        for v in node.values:
            if isinstance(v, ast.FormattedValue):
                _check_pure(v.value)
        vals = node.values
        # all parts constant (module constants included): an ordinary string constant
        try:
            parts = []
            for v in vals:
                if isinstance(v, ast.Constant) and isinstance(v.value, str):
                    parts.append(v.value)
                elif isinstance(v, ast.FormattedValue) and v.format_spec is None and v.conversion == -1:
                    x = self.eval(v.value, st)
                    if isinstance(x, bool) or not isinstance(x, (int, str)) and not (isinstance(x, VStr) and x.text is not None):
                        raise Unsupported("not constant")
                    parts.append(x.text if isinstance(x, VStr) else str(x))
                else:
                    raise Unsupported("not constant")
            return VStr.const("".join(parts))
        except Unsupported:
            pass
        # f"prefix{int-expr}": a structured key (prefix, d) - distinct from every string constant of the program
        # (checked), injective in d
        if len(vals) == 2 and isinstance(vals[0], ast.Constant) and isinstance(vals[0].value, str) and \
                isinstance(vals[1], ast.FormattedValue) and vals[1].format_spec is None and vals[1].conversion == -1:
            try:
                d = self.eval(vals[1].value, st)
            except Unsupported:
                d = None
            if d is not None and (isinstance(d, int) and not isinstance(d, bool) or (is_z3(d) and z3.is_int(d))):
                return lib.fstr(st, vals[0].value, d)
        return VStr(z3.Int(fresh_name("fstr")))

    def e_Tuple(self, node, st):
        items = []
        segs = []      # (x, *seq, y) with a sequence of symbolic length: the concatenation of the segments
        for e in node.elts:
            if isinstance(e, ast.Starred):
                v = self.eval(e.value, st)
                if isinstance(v, VTuple):
                    items.extend(v.items)
                    continue
                a = self.arr_of(v, st)
                n = self.concrete_int(a.shape[0])
                if n is None:
                    if items:
                        segs.append(self._list_of(items, st))
                        items = []
                    segs.append(v)
                    continue
                items.extend(a.elem(i) for i in range(n))
            else:
                items.append(self.eval(e, st))
        if segs:
            if items:
                segs.append(self._list_of(items, st))
            out = segs[0]
            for s_ in segs[1:]:
                out = lib.list_concat(self, st, out, s_)
            return out
        return VTuple(items)

    def _list_of(self, items, st):
        et = lib.etype_of(items[0]) if items else "any"
        return st.alloc(Arr((len(items),), lambda i, items=items: self._pick(items, i), kind="list", etype=et), "arr")

    def e_List(self, node, st):
        items = [self.eval(e, st) for e in node.elts]
        et = lib.etype_of(items[0]) if items else "any"
        return st.alloc(Arr((len(items),), lambda i, items=items: self._pick(items, i), kind="list", etype=et), "arr")

    def e_Dict(self, node, st):
        if not node.keys:
            # empty literal: a dict with symbolic (string) keys and scalar values
            return st.alloc(DictV(lambda k: False, lambda k: 0, "int", 0), "dict")
        d = {}
        for k, v in zip(node.keys, node.values):
            kv = self.eval(k, st)
            if not (isinstance(kv, VStr) and kv.text is not None):
                raise Unsupported("dict literal with non-constant key")
            d[kv.text] = self.eval(v, st)
        return st.alloc(CDict(d), "cdict")

    def e_DictComp(self, node, st):
        return lib.dict_comprehension(self, st, node)

    def e_Lambda(self, node, st):
        return Closure([a.arg for a in node.args.args], node.body, dict(st.env))

    def e_IfExp(self, node, st):
        c = self.truth(self.eval(node.test, st), st)
        if isinstance(c, bool):
            return self.eval(node.body if c else node.orelse, st)
        s1 = st.fork()
        s1.assume(c)
        a = self.eval_guarded(node.body, st, c)
        b = self.eval_guarded(node.orelse, st, znot(c))
        if (is_num(a) or is_boolish(a)) and (is_num(b) or is_boolish(b)):
            return zite(c, a, b)
        if a is NONE and b is NONE:
            return NONE
        if b is NONE and not isinstance(a, Opt):
            return Opt(znot(c), a)
        if a is NONE and not isinstance(b, Opt):
            return Opt(c, b)
        raise Unsupported("conditional expression over non-scalar values")

    def eval_guarded(self, node, st, guard):
        """Evaluate under an extra path assumption (for short-circuit operators); no forking."""
        n = len(st.pc)
        st.assume(guard)
        try:
            return self.eval(node, st)
        finally:
            del st.pc[n:]

    def e_BoolOp(self, node, st):
        is_and = isinstance(node.op, ast.And)
        acc = None
        guard = True
        for sub in node.values:
            v = self.eval_guarded(sub, st, guard) if not isinstance(guard, bool) else (
                self.eval(sub, st) if guard else None)
            if v is None:
                break
            t = self.truth(v, st)
            if acc is None:
                acc = t
            else:
                acc = zand(acc, t) if is_and else zor(acc, t)
            guard = zand(guard, t) if is_and else zand(guard, znot(t))
            if isinstance(guard, bool) and not guard:
                break
        return acc

    def e_UnaryOp(self, node, st):
        v = self.eval(node.operand, st)
        if isinstance(node.op, ast.Not):
            return znot(self.truth(v, st))
        if isinstance(node.op, ast.USub):
            if isinstance(v, (int, float)) and not isinstance(v, bool):
                return -v
            if is_z3(v):
                return -v
            if isinstance(v, (Arr, Ref)):
                return lib.elementwise(self, st, lambda x: -to_z3(x), v)
        if isinstance(node.op, ast.UAdd):
            return v
        raise Unsupported("unary op")

    def e_Compare(self, node, st):
        left = self.eval(node.left, st)
        acc = True
        for op, rn in zip(node.ops, node.comparators):
            right = self.eval_guarded(rn, st, acc) if not isinstance(acc, bool) else self.eval(rn, st)
            acc = zand(acc, self.compare(op, left, right, st, node))
            left = right
        return acc

    def compare(self, op, a, b, st, node=None):
        if isinstance(op, (ast.Is, ast.IsNot)):
            r = self.identical(a, b, st)
            return r if isinstance(op, ast.Is) else znot(r)
        if isinstance(op, (ast.In, ast.NotIn)):
            r = self.contains(b, a, st)
            return r if isinstance(op, ast.In) else znot(r)
        if isinstance(op, (ast.Eq, ast.NotEq)):
            r = self.equal(a, b, st)
            return r if isinstance(op, ast.Eq) else znot(r) if not isinstance(r, (Arr, Ref)) else lib.elementwise(
                self, st, lambda x: znot(x), r)
        if isinstance(a, Opt):
            self.safety(st, znot(a.is_none), "operand-not-None", node)
            a = a.val
        if isinstance(b, Opt):
            self.safety(st, znot(b.is_none), "operand-not-None", node)
            b = b.val
        if isinstance(a, (Arr, Ref)) or isinstance(b, (Arr, Ref)):
            f = {ast.Lt: lambda x, y: x < y, ast.LtE: lambda x, y: x <= y, ast.Gt: lambda x, y: x > y,
                 ast.GtE: lambda x, y: x >= y}[type(op)]
            return lib.elementwise2(self, st, lambda x, y: f(*num_pair(x, y)), a, b)
        if not (is_num(a) and is_num(b)):
            raise Unsupported(f"ordering comparison of {type(a).__name__} and {type(b).__name__}")
        if isinstance(a, (int, float)) and isinstance(b, (int, float)):
            return {ast.Lt: a < b, ast.LtE: a <= b, ast.Gt: a > b, ast.GtE: a >= b}[type(op)]
        x, y = num_pair(a, b)
        return {ast.Lt: x < y, ast.LtE: x <= y, ast.Gt: x > y, ast.GtE: x >= y}[type(op)]

    def identical(self, a, b, st):
        if a is NONE or b is NONE:
            o = b if a is NONE else a
            if o is NONE:
                return True
            if isinstance(o, Opt):
                return o.is_none
            return False
        if isinstance(a, Opt) and isinstance(b, Opt):
            return zor(zand(a.is_none, b.is_none), zand(znot(a.is_none), znot(b.is_none), self.identical(a.val, b.val, st)))
        if isinstance(a, Opt):
            return zand(znot(a.is_none), self.identical(a.val, b, st))
        if isinstance(b, Opt):
            return zand(znot(b.is_none), self.identical(a, b.val, st))
        if isinstance(a, Opaque) and isinstance(b, Opaque):
            return a.term == b.term
        if isinstance(a, Obj) and isinstance(b, Obj):
            return a.oid == b.oid
        if isinstance(a, Ref) and isinstance(b, Ref):
            return a.rid == b.rid
        if isinstance(a, VClass) and isinstance(b, VClass):
            return self.equal(a, b, st)
        if isinstance(a, FuncV) and isinstance(b, FuncV):
            return a.qual == b.qual
        if isinstance(a, (Obj, Ref, Opaque, VClass, FuncV)) or isinstance(b, (Obj, Ref, Opaque, VClass, FuncV)):
            return False
        return self.equal(a, b, st)

    def equal(self, a, b, st):
        if a is NONE or b is NONE:
            return self.identical(a, b, st)
        if isinstance(a, Opt) and isinstance(b, Opt):
            return zor(zand(a.is_none, b.is_none), zand(znot(a.is_none), znot(b.is_none), self.equal(a.val, b.val, st)))
        if isinstance(a, Opt):
            return zand(znot(a.is_none), self.equal(a.val, b, st))
        if isinstance(b, Opt):
            return zand(znot(b.is_none), self.equal(a, b.val, st))
        if isinstance(a, VStr) and is_num(b) and not isinstance(b, float):
            b = VStr(b)   # quantified string variables are plain ints (string ids)
        if isinstance(b, VStr) and is_num(a) and not isinstance(a, float):
            a = VStr(a)
        if isinstance(a, VStr) and isinstance(b, VStr):
            if isinstance(a.sid, int) and isinstance(b.sid, int):
                return a.sid == b.sid
            return to_z3(a.sid) == to_z3(b.sid)
        if isinstance(a, VClass) and isinstance(b, VClass):
            x = intern_str(a.name) if isinstance(a.name, str) else a.name
            y = intern_str(b.name) if isinstance(b.name, str) else b.name
            if isinstance(x, int) and isinstance(y, int):
                return x == y
            return to_z3(x) == to_z3(y)
        if isinstance(a, bool) and isinstance(b, bool):
            return a == b
        if (is_num(a) or is_boolish(a)) and (is_num(b) or is_boolish(b)):
            if isinstance(a, (int, float)) and isinstance(b, (int, float)):
                return a == b
            if is_boolish(a) and is_boolish(b):
                return to_z3(a) == to_z3(b)
            x, y = num_pair(a, b)
            return x == y
        if isinstance(a, Opaque) and isinstance(b, Opaque):
            return a.term == b.term
        if isinstance(a, Obj) and isinstance(b, Obj):
            return a.oid == b.oid
        if isinstance(a, VTuple) and isinstance(b, VTuple):
            if len(a.items) != len(b.items):
                return False
            return zand(*[self.equal(x, y, st) for x, y in zip(a.items, b.items)])
        if isinstance(a, (Arr, Ref)) or isinstance(b, (Arr, Ref)):
            aa = self.arr_of(a, st) if isinstance(a, (Arr, Ref)) else None
            bb = self.arr_of(b, st) if isinstance(b, (Arr, Ref)) else None
            if (aa is not None and aa.kind == "ndarray") or (bb is not None and bb.kind == "ndarray"):
                return lib.elementwise2(self, st, lambda x, y: self.equal(x, y, st), a, b)
            if aa is not None and bb is not None:
                # list equality: same length and pointwise equal
                j = z3.Int(fresh_name("eqi"))
                la, lb = to_z3(aa.shape[0]), to_z3(bb.shape[0])
                return zand(la == lb, z3.ForAll([j], z3.Implies(z3.And(j >= 0, j < la),
                                                               to_z3(self.equal(aa.elem(j), bb.elem(j), st)))))
        if isinstance(a, VStr) or isinstance(b, VStr):
            return False
        raise Unsupported(f"equality of {type(a).__name__} and {type(b).__name__}")

    def contains(self, container, item, st):
        if isinstance(container, DictV):
            return container.has(item)
        if isinstance(container, Ref) and container.what == "dict":
            return st.heap[container.rid].has(item)
        if isinstance(container, Ref) and container.what == "cdict":
            if isinstance(item, VStr) and item.text is not None:
                return item.text in st.heap[container.rid].items
            if isinstance(item, VStr) and item.fparts is not None:
                fam = st.heap[container.rid].fam.get(item.fparts[0])
                return fam[0](to_z3(item.fparts[1])) if fam is not None else False
            raise Unsupported("symbolic key in concrete dict")
        if isinstance(container, (Arr, Ref, VTuple)):
            a = self.arr_of(container, st)
            n = self.concrete_int(a.shape[0])
            if n is not None and n <= 32:
                return zor(*[self.equal(a.elem(i), item, st) for i in range(n)])
            j = z3.Int(fresh_name("ini"))
            return z3.Exists([j], z3.And(j >= 0, j < to_z3(a.shape[0]), to_z3(self.equal(a.elem(j), item, st))))
        raise Unsupported("membership test")

    # ------------------------------------------------------------------ arithmetic
    def e_BinOp(self, node, st):
        a = self.eval(node.left, st)
        b = self.eval(node.right, st)
        return self.binop(node.op, a, b, st, node)

    def binop(self, op, a, b, st, node=None):
        if isinstance(a, Opt):
            self.safety(st, znot(a.is_none), "operand-not-None", node)
            a = a.val
        if isinstance(b, Opt):
            self.safety(st, znot(b.is_none), "operand-not-None", node)
            b = b.val
        # list repetition / concatenation
        if isinstance(op, ast.Mult) and self._is_list(a, st) and is_num(b):
            return lib.list_repeat(self, st, a, b)
        if isinstance(op, ast.Mult) and self._is_list(b, st) and is_num(a):
            return lib.list_repeat(self, st, b, a)
        if isinstance(op, ast.Add) and self._is_list(a, st) and self._is_list(b, st):
            return lib.list_concat(self, st, a, b)
        if isinstance(op, ast.Add) and isinstance(a, VTuple) and isinstance(b, VTuple):
            return VTuple(a.items + b.items)
        if isinstance(a, (Arr, Ref)) or isinstance(b, (Arr, Ref)):
            return lib.elementwise2(self, st, lambda x, y: self.scalar_binop(op, x, y, st, node), a, b)
        if isinstance(op, ast.Div) and isinstance(a, Opaque) and a.cls == "Path":
            from . import lib_fs
            return lib_fs.path_div(self, st, a, b)
        return self.scalar_binop(op, a, b, st, node)

    def _is_list(self, v, st):
        if isinstance(v, Ref) and v.what == "arr":
            return st.heap[v.rid].kind in ("list", "tuple")
        if isinstance(v, Arr):
            return v.kind in ("list", "tuple")
        return False

    def scalar_binop(self, op, a, b, st, node=None):
        if not (is_num(a) or is_boolish(a)) or not (is_num(b) or is_boolish(b)):
            raise Unsupported(f"arithmetic on {type(a).__name__}, {type(b).__name__}")
        if isinstance(op, (ast.BitOr, ast.BitAnd)) and is_boolish(a) and is_boolish(b):
            return zor(a, b) if isinstance(op, ast.BitOr) else zand(a, b)
        conc = isinstance(a, (int, float)) and isinstance(b, (int, float))
        if isinstance(op, ast.Add):
            return a + b if conc else _ar(lambda x, y: x + y, a, b)
        if isinstance(op, ast.Sub):
            return a - b if conc else _ar(lambda x, y: x - y, a, b)
        if isinstance(op, ast.Mult):
            return a * b if conc else _ar(lambda x, y: x * y, a, b)
        if isinstance(op, ast.Div):
            if conc:
                if b == 0:
                    self.safety(st, False, "division-by-nonzero", node)
                    raise Unsupported("division by constant zero")
                return a / b
            x, y = to_real(a), to_real(b)
            self.safety(st, y != 0, "division-by-nonzero", node)
            return x / y
        if isinstance(op, (ast.FloorDiv, ast.Mod)):
            if conc and b != 0:
                return a // b if isinstance(op, ast.FloorDiv) else a % b
            x, y = num_pair(a, b)
            if z3.is_real(x):
                if isinstance(op, ast.Mod) and isinstance(b, (int, float)) and b == 1:
                    return x - z3.ToReal(z3.ToInt(x))  # x % 1 on reals: fractional part
                raise Unsupported("floor division / modulo on reals")
            self.safety(st, y != 0, "division-by-nonzero", node)
            # Python floor semantics; z3 div/mod are Euclidean (remainder >= 0): agree when y > 0
            q, r = x / y, x % y
            pq = z3.If(y > 0, q, z3.If(r == 0, q, q - 1))
            pr = z3.If(y > 0, r, z3.If(r == 0, r, r + y))
            return pq if isinstance(op, ast.FloorDiv) else pr
        if isinstance(op, (ast.BitOr, ast.BitAnd)):
            if is_boolish(a) and is_boolish(b):
                return zor(a, b) if isinstance(op, ast.BitOr) else zand(a, b)
            raise Unsupported("bitwise operator on non-bool operands")
        if isinstance(op, ast.Pow):
            if conc:
                return a ** b
            cb = self.concrete_int(b)
            if cb is not None and 0 <= cb <= 8:
                out = 1
                for _ in range(cb):
                    out = _ar(lambda x, y: x * y, out, a) if not isinstance(out, int) or is_z3(a) else out * a
                return out
            return lib.upow(a, b)
        raise Unsupported(f"binary operator {type(op).__name__}")

    # ------------------------------------------------------------------ attribute / subscript
    def e_Attribute(self, node, st):
        base = self.eval(node.value, st)
        return self.getattr(base, node.attr, st, node)

    def mangle(self, attr, cls):
        if attr.startswith("__") and not attr.endswith("__") and cls:
            return f"_{cls.lstrip('_')}{attr}"
        return attr

    def getattr(self, base, attr, st, node=None):
        fr = self.frame
        if isinstance(base, GhostNS):
            if attr not in st.ghost:
                if attr not in self.reg["ghosts"]:
                    raise Unsupported(f"undeclared ghost variable {attr}")
                st.ghost[attr] = fresh(self.reg["ghosts"][attr], "ghost." + attr, st, self)
                if self.frame is not None and self.frame.pre is not None and attr not in self.frame.pre.ghost:
                    self.frame.pre.ghost[attr] = st.ghost[attr]
                    v = st.ghost[attr]
                    if isinstance(v, Ref):
                        self.frame.pre.heap[v.rid] = st.heap[v.rid]
            return st.ghost[attr]
        if isinstance(base, Opt):
            self.safety(st, znot(base.is_none), "receiver-not-None", node)
            base = base.val
        if base is NONE:
            self.safety(st, False, "receiver-not-None", node)
            raise Unsupported("attribute of None")
        if isinstance(base, ModuleV):
            full = f"{base.path}.{attr}"
            if full in lib.CONSTS:
                return lib.CONSTS[full]
            return ModuleV(full)
        if isinstance(base, Obj) and base.cls == "rng" and attr == "bit_generator":
            from . import lib_fs
            return lib_fs.bit_generator_of(self, st, base)
        if isinstance(base, Obj):
            raw_attr = attr
            attr = self.mangle(attr, fr.cls if fr else None)
            cls = base.cls
            if cls in self.repo.classes:
                pr = self.repo.find_property(cls, attr)
                if pr is not None:
                    return self.inline_property(base, pr, st)
                if self.repo.find_method(cls, attr) is not None:
                    return BoundMethod(base, attr)
                if self.repo.find_method(cls, raw_attr) is not None:   # private (name-mangled) method
                    return BoundMethod(base, raw_attr)
            if cls in lib.OBJ_METHODS and attr in lib.OBJ_METHODS[cls]:
                return BoundMethod(base, attr)
            fields = st.heap[base.oid]
            if attr not in fields:
                cc = self.class_constant(cls, attr, st)
                if cc is not None:
                    return cc
                fields[attr] = self.materialize_field(base, attr, st)
            v = fields[attr]
            if isinstance(v, Poison):
                raise Unsupported(f"field {attr} undefined here")
            return v
        if isinstance(base, Opaque):
            return self.opaque_attr(base, attr, st)
        if isinstance(base, Exc):
            if attr in base.fields:
                return base.fields[attr]
            if attr == "cls":
                return VClass(base.cls)
            raise Unsupported(f"exception has no recorded field {attr}")
        if isinstance(base, VClass):
            if attr == "__name__":
                return VStr.const(base.name) if isinstance(base.name, str) else VStr(base.name)
            if isinstance(base.name, str) and base.name in self.repo.classes:
                r = self.repo.find_method(base.name, self.mangle(attr, fr.cls if fr else None))
                if r is not None:
                    return BoundMethod(base, r[1].name)
                cc = self.class_constant(base.name, attr, st)
                if cc is not None:
                    return cc
            raise Unsupported(f"class attribute {attr}")
        if isinstance(base, (Arr, Ref, VTuple)) and not (isinstance(base, Ref) and base.what != "arr"):
            a = self.arr_of(base, st)
            if attr == "shape":
                return VTuple(list(a.shape))
            if attr == "ndim":
                return a.ndim
            if attr == "T":
                return lib.transpose(self, st, base)
            if attr == "size":
                out = 1
                for s in a.shape:
                    out = _ar(lambda x, y: x * y, out, s) if (is_z3(out) or is_z3(s)) else out * s
                return out
            return BoundMethod(base, attr)
        if isinstance(base, Ref):
            return BoundMethod(base, attr)
        if isinstance(base, VStr):
            return BoundMethod(base, attr)
        if isinstance(base, FuncV):
            if attr == "__name__":
                return VStr(z3.Int(fresh_name("fname")))
        raise Unsupported(f"attribute {attr} of {type(base).__name__}")

    def class_constant(self, cls, attr, st):
        """NAME = <literal expression> in the class body (following the MRO), unless a sidecar declares the field."""
        for c in (self.repo.mro(cls) or []):
            spec = self.reg["classes"].get(c)
            if spec is not None and attr in spec.fields:
                return None
            for stmt in self.repo.classes[c].node.body:
                tgt = None
                if isinstance(stmt, ast.Assign) and len(stmt.targets) == 1 and isinstance(stmt.targets[0], ast.Name):
                    tgt, val = stmt.targets[0].id, stmt.value
                elif isinstance(stmt, ast.AnnAssign) and isinstance(stmt.target, ast.Name) and stmt.value is not None:
                    tgt, val = stmt.target.id, stmt.value
                if tgt == attr:
                    try:
                        ast.literal_eval(val)
                    except Exception:  # noqa: BLE001
                        return None
                    return self.eval(val, st)
        return None

    def materialize_field(self, obj: Obj, attr, st):
        for c in (self.repo.mro(obj.cls) or [obj.cls]):
            spec = self.reg["classes"].get(c)
            if spec is not None and attr in spec.fields:
                return fresh(spec.fields[attr], f"{obj.cls}.{attr}", st, self)
        # an attribute without a sidecar type: take the type of the literal (or annotation) its constructor assigns
        for c in (self.repo.mro(obj.cls) or []):
            init = self.repo.classes[c].methods.get("__init__")
            for node in (ast.walk(init) if init is not None else []):
                tgt = val = ann = None
                if isinstance(node, ast.Assign) and len(node.targets) == 1:
                    tgt, val = node.targets[0], node.value
                elif isinstance(node, ast.AnnAssign):
                    tgt, val, ann = node.target, node.value, ast.unparse(node.annotation)
                if isinstance(tgt, ast.Attribute) and isinstance(tgt.value, ast.Name) and tgt.value.id == "self" and \
                        self.mangle(tgt.attr, c) == attr:
                    t = None
                    if isinstance(val, ast.Constant):
                        t = {bool: "bool", int: "int", float: "real", str: "str"}.get(type(val.value))
                    if t is None and ann in ("bool", "int", "float", "str"):
                        t = {"float": "real"}.get(ann, ann)
                    if t is not None:
                        return fresh(t, f"{obj.cls}.{attr}", st, self)
        raise Unsupported(f"field {obj.cls}.{attr} has no declared type in the sidecar class spec")

    def opaque_attr(self, base: Opaque, attr, st):
        ov = st.heap.get("$opq", {}).get(attr)
        if not ov:
            return self._opaque_attr_base(base, attr, st)
        # the stores to this field, in program order: a store to the same term overwrites, a store to another term MAY
        # have hit this object (conditional for scalars), a havoc (loop write-set) makes the field an unknown function
        # of the object
        out = None

        def cur():
            return out if out is not None else self._opaque_attr_base(base, attr, st)
        for term, val in ov:
            if isinstance(term, str) and term == "*":
                bv = cur()
                if not (is_num(bv) or is_boolish(bv)):
                    raise Unsupported(f"field {attr} of foreign objects is written in a loop and is not a scalar")
                zb = to_z3(bv)
                out = z3.Function(f"{val}#{attr}", ObjS, zb.sort())(base.term)
            elif term.eq(base.term):
                out = val
            else:
                bv = cur()
                if (is_num(val) or is_boolish(val)) and (is_num(bv) or is_boolish(bv)):
                    out = zite(term == base.term, val, bv)
                else:
                    raise Unsupported(f"field {attr} was stored on another object that may alias this one")
        return out

    def _opaque_attr_base(self, base: Opaque, attr, st):
        cls = base.cls
        if cls is not None:
            for c in (self.repo.mro(cls) or [cls]):
                spec = self.reg["classes"].get(c)
                if spec is not None and attr in spec.fields:
                    t = spec.fields[attr]
                    from .engine import _wrap, _zsort
                    if t.startswith("opt[") and t.endswith("]"):
                        isnone = z3.Function(f"fld_{attr}?none", ObjS, z3.BoolSort())(base.term)
                        inner_spec = type("S", (), {"fields": {attr: t[4:-1]}})()
                        saved = self.reg["classes"].get("$tmp")
                        self.reg["classes"]["$tmp"] = inner_spec
                        try:
                            inner = self.opaque_attr(Opaque(base.term, "$tmp"), attr, st)
                        finally:
                            if saved is None:
                                del self.reg["classes"]["$tmp"]
                            else:
                                self.reg["classes"]["$tmp"] = saved
                        return Opt(isnone, inner)
                    if t[:4] in ("arr2", "arr3", "arr4") and t[5:-1] in ("real", "int"):
                        nd = int(t[3])
                        inner = t[5:-1]
                        shf = [z3.Function(f"fld_{attr}#s{k}", ObjS, z3.IntSort()) for k in range(nd)]
                        ef = z3.Function(f"fld_{attr}#el", ObjS, *([z3.IntSort()] * nd), _zsort(inner))
                        for f_ in shf:
                            st.fact(f_(base.term) >= 0)
                        return Arr(tuple(f_(base.term) for f_ in shf),
                                   lambda *idx, tm=base.term: ef(tm, *[to_z3(i) for i in idx]), kind="ndarray", etype=inner)
                    if t.startswith("arr1["):
                        t = "seq[" + t[5:]
                    if t in ("int", "nat", "pos", "real", "bool", "str", "class") or t.startswith("opaque"):
                        f = z3.Function(f"fld_{attr}", ObjS, _zsort(t))
                        v = f(base.term)
                        if t == "nat":
                            st.fact(v >= 0)
                        if t == "pos":
                            st.fact(v >= 1)
                        return _wrap(v, t)
                    if t.startswith("seq[") and not t[4:-1].startswith(("seq", "arr", "list")):
                        inner = t[4:-1]
                        lf = z3.Function(f"fld_{attr}#len", ObjS, z3.IntSort())
                        ef = z3.Function(f"fld_{attr}#el", ObjS, z3.IntSort(), _zsort(inner))
                        n = lf(base.term)
                        st.fact(n >= 0)
                        return Arr((n,), lambda i, tm=base.term: _wrap(ef(tm, to_z3(i)), inner), kind="tuple",
                                   etype=inner)
                    raise Unsupported(f"opaque field {cls}.{attr} of non-scalar type {t}")
            if cls in self.repo.classes and self.repo.find_method(cls, attr) is not None:
                return BoundMethod(base, attr)
            if cls in self.repo.classes:
                pr = self.repo.find_property(cls, attr)
                if pr is not None:
                    body = [s for s in pr[1].body if not _is_doc(s)]
                    if len(body) == 1 and isinstance(body[0], ast.Return) and isinstance(body[0].value, ast.Attribute) \
                            and isinstance(body[0].value.value, ast.Name) and body[0].value.value.id == "self":
                        return self.opaque_attr(base, self.mangle(body[0].value.attr, pr[0]), st)
        if cls in lib.OPAQUE_METHODS and attr in lib.OPAQUE_METHODS[cls]:
            return BoundMethod(base, attr)
        if cls in getattr(lib, "OPAQUE_ATTRS", {}) and attr in lib.OPAQUE_ATTRS[cls]:
            return lib.OPAQUE_ATTRS[cls][attr](self, st, base)
        if attr == "__name__":
            return VStr(z3.Function("fld___name__", ObjS, z3.IntSort())(base.term))
        raise Unsupported(f"attribute {attr} of opaque {cls}")

    def inline_property(self, obj, pr, st):
        """A property whose body is a single `return <expr>` is inlined (re-read from the source each run)."""
        dcls, fn = pr
        body = [s for s in fn.body if not _is_doc(s)]
        if len(body) == 1 and isinstance(body[0], ast.Return):
            saved_env, saved_frame = st.env, self.frame
            st.env = {"self": obj}
            self.frame = Frame(self.repo.classes[dcls].module, dcls, None, None, saved_frame.pre if saved_frame else None)
            try:
                return self.eval(body[0].value, st)
            finally:
                st.env, self.frame = saved_env, saved_frame
        raise Unsupported(f"property {dcls}.{fn.name} is not a single return")

    def e_Subscript(self, node, st):
        base = self.eval(node.value, st)
        return self.getitem(base, node.slice, st, node)

    def view_slice(self, vr, sl, st):
        """AST of the subscript `(<row>, *sl)` on the viewed array; the row index travels in a hidden local."""
        name = f"$view_row_{id(vr)}"
        st.env[name] = vr.index
        parts = list(sl.elts) if isinstance(sl, ast.Tuple) else [sl]
        tup = ast.Tuple(elts=[ast.Name(id=name, ctx=ast.Load())] + parts, ctx=ast.Load())
        return name, ast.fix_missing_locations(ast.copy_location(tup, sl))

    def getitem(self, base, sl, st, node=None):
        if isinstance(base, ViewRef):
            name, tup = self.view_slice(base, sl, st)
            try:
                return lib.arr_getitem(self, st, base.base, tup, node)
            finally:
                st.env.pop(name, None)
        if isinstance(base, Opt):
            self.safety(st, znot(base.is_none), "subscript-not-None", node)
            base = base.val
        if isinstance(base, DictV) or (isinstance(base, Ref) and base.what == "dict"):
            k = self.eval(sl, st)
            d = base if isinstance(base, DictV) else st.heap[base.rid]
            self.safety(st, d.has(k), "key-present", node)
            return d.get(k)
        if isinstance(base, Ref) and base.what == "cdict":
            k = self.eval(sl, st)
            d = st.heap[base.rid]
            if isinstance(k, VStr) and k.text is not None:
                if k.text not in d.items:
                    self.safety(st, False, "key-present", node)
                    raise Unsupported("missing key")
                return d.items[k.text]
            if isinstance(k, VStr) and k.fparts is not None and k.fparts[0] in d.fam:
                has, get = d.fam[k.fparts[0]]
                self.safety(st, has(to_z3(k.fparts[1])), "key-present", node)
                return get(to_z3(k.fparts[1]))
            raise Unsupported("symbolic key into concrete dict")
        if isinstance(base, VTuple):
            if isinstance(sl, ast.Slice):
                lo = self.concrete_int(self.eval(sl.lower, st)) if sl.lower else None
                hi = self.concrete_int(self.eval(sl.upper, st)) if sl.upper else None
                return VTuple(base.items[lo:hi])
            i = self.eval(sl, st)
            ci = self.concrete_int(i)
            if ci is not None:
                if not -len(base.items) <= ci < len(base.items):
                    self.safety(st, False, "index-in-range", node)
                    raise Unsupported("tuple index out of range")
                return base.items[ci]
            self.safety(st, zand(i >= 0, i < len(base.items)), "index-in-range", node)
            return self._pick(base.items, i)
        if isinstance(base, (Arr, Ref)):
            return lib.arr_getitem(self, st, base, sl, node)
        if isinstance(base, Opaque):
            return lib.opaque_getitem(self, st, base, sl, node)
        if isinstance(base, FuncV) or isinstance(base, VClass):
            return base  # typing generics: list[int], CalibrationEnv[int]
        raise Unsupported(f"subscript of {type(base).__name__}")

    # ------------------------------------------------------------------ comprehensions
    def e_ListComp(self, node, st):
        return lib.comprehension(self, st, node)

    def e_GeneratorExp(self, node, st):
        return lib.comprehension(self, st, node)

    def e_Call(self, node, st):
        outs = self.call_outcomes(node, st)
        normal = [o for o in outs if o[2] is None]
        raising = [o for o in outs if o[2] is not None]
        if raising:
            raise Unsupported("call that may raise in nested expression position: " + ast.unparse(node)[:60])
        if len(normal) != 1:
            raise Unsupported("forking call in nested expression position")
        s2, val, _ = normal[0]
        if s2 is not st:
            # adopt the successor state in place
            st.env, st.heap, st.pc, st.ghost, st.facts, st.trace = s2.env, s2.heap, s2.pc, s2.ghost, s2.facts, s2.trace
        return val

    # call_outcomes and statements are in part 3 (mixed in below)


def _ar(f, a, b):
    x, y = num_pair(a, b)
    return f(x, y)


def _is_doc(s):
    return isinstance(s, ast.Expr) and isinstance(s.value, ast.Constant) and isinstance(s.value.value, str)


PURE_CALLS = {"np.round", "np.min", "np.max", "np.average", "np.mean", "len", "type", "str", "repr", "float", "int",
              "round", "textwrap.dedent", "min", "max", "abs", "map", "join", "sum"}


def _check_pure(node):
    """Syntactic purity check for expressions whose value is dropped (print arguments, f-string parts)."""
    for n in ast.walk(node):
        if isinstance(n, ast.Call):
            name = ast.unparse(n.func)
            if name in PURE_CALLS or name.split(".")[-1] in ("join", "format", "tolist"):
                continue
            raise Unsupported(f"possibly impure call {name} inside print/f-string")
        if isinstance(n, (ast.NamedExpr, ast.Await, ast.Yield, ast.YieldFrom)):
            raise Unsupported("impure expression inside print/f-string")
