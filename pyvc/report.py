"""Verdict policy, known findings, replay files, evidence/<id>.json."""
from __future__ import annotations

import hashlib
import json
import os
import re
import subprocess
import sys
import time
from pathlib import Path

VERIF = Path(__file__).resolve().parent.parent
RT_PY = "/venv/bin/python"

ENCODING_ASSUMPTIONS = [
    "pyvc encoding: Python int -> mathematical Int; float -> mathematical Real (IEEE rounding, NaN, inf NOT modelled); "
    "str/class names -> interned ints (equality only)",
    "pyvc encoding: ndarray/list -> (shape, element function); vectorised NumPy code is lifted pointwise; "
    "basic slices are immutable views (a write through a view is outside the subset -> undecided, never proved)",
    "pyvc encoding: distinct array/object parameters are assumed not to alias each other",
    "pyvc: termination is not proved (partial correctness); memory exhaustion, signals, KeyboardInterrupt not modelled",
    "pyvc: print()/f-string arguments are not evaluated (checked syntactically to be pure); warnings.warn is a no-op",
    "pyvc: single-return @property getters and property setters are inlined from their real source",
    "the verifier itself (pyvc, ~4k lines) and z3/cvc5 are trusted; mitigations: per-function reachability canaries, "
    "mutation self-tests (tools/muttest.py), CPython cross-check of the same contract text on the real functions",
]


# properties whose deciding content is mostly NOT deductive are reported as `other`, with the explanation below
LEVEL_OVERRIDE = {"C07": "other", "C20": "other", "C04": "other", "C06": "other", "C10": "other", "C01": "other", "C05": "other"}


def _strip_line(n):
    return re.sub(r"@L\d+", "", n)


def load_known():
    p = VERIF / "known_findings.json"
    if not p.exists():
        return []
    return json.load(open(p)).get("findings", [])


def _source_line(fkey, line):
    try:
        from .repo import repo_root
        return (repo_root() / fkey.split("::")[0]).read_text().splitlines()[line - 1]
    except Exception:  # noqa: BLE001
        return ""


def match_known(prop, gname, witness, known, group=None, fkey=None):
    for k in known:
        if k.get("status", "open") != "open" or k.get("property") != prop:
            continue
        if re.fullmatch(k["obligation"], _strip_line(gname)):
            # optional narrowing to the failing call site: EVERY failing instance must sit on a source line that
            # contains the recorded statement text (another statement failing the same obligation is not masked)
            need = k.get("source_contains")
            if need and group is not None and re.search(k.get("source_contains_for", ".*"), _strip_line(gname)):
                lines = group.get("refuted_lines") or []
                if not lines or not all(need in _source_line(fkey or "", ln) for ln in lines):
                    continue
            return k
    return None


def write_replay(prop, fkey, gname, g, extra=None):
    h = hashlib.sha1((gname + json.dumps(g.get("witness"), sort_keys=True, default=str)).encode()).hexdigest()[:10]
    path = VERIF / "replay" / f"{prop}_{h}.json"
    os.makedirs(path.parent, exist_ok=True)
    doc = {"property": prop, "function": fkey, "failed_obligation": gname, "kind": g.get("kind"),
           "lines": g.get("lines"), "witness": g.get("witness"), "solver_output": g.get("detail"),
           "backend": g.get("backend")}
    if extra:
        doc.update(extra)
    json.dump(doc, open(path, "w"), indent=1, default=str)
    return path


def try_replay(path):
    """Replay the solver's counter-model against the REAL code under /venv/bin/python.
    -> 'reproduced' | 'not-reproduced' | 'no-driver' | 'error'"""
    rt = VERIF / "runtime" / "rt.py"
    if not rt.exists():
        return "no-driver", ""
    try:
        r = subprocess.run([RT_PY, str(rt), "replay", str(path)], capture_output=True, text=True, timeout=600,
                           cwd=str(VERIF))
    except subprocess.TimeoutExpired:
        return "error", "timeout"
    out = (r.stdout + r.stderr)[-3000:]
    if r.returncode == 0 and "REPRODUCED" in r.stdout:
        return "reproduced", out
    if r.returncode == 1:
        return "not-reproduced", out
    if r.returncode == 4:
        return "no-driver", out
    return "error", out


def do_replay(prop, path):
    st, out = try_replay(path)
    print(out)
    if st == "reproduced":
        print(f"VIOLATION property={prop} replay={path}")
        return 1
    print(f"replay: {st}")
    return 0 if st == "not-reproduced" else 3


def run_bounded(prop, tier, seed, functions=None):
    rt = VERIF / "runtime" / "rt.py"
    if not rt.exists():
        return None
    # (per-run file names: several checks of one property may run at the same time, e.g. the seeded sweep)
    wd = Path(os.environ.get("PYVC_OUT") or (VERIF / "work"))
    if not os.environ.get("PYVC_OUT"):
        os.makedirs(wd, exist_ok=True)
    out = wd / f"{prop}_bounded_{os.getpid()}.json"
    if out.exists():
        out.unlink()
    cmd = [RT_PY, str(rt), "bounded", prop, "--tier", tier, "--seed", str(seed), "--out", str(out)]
    if functions:
        cmd += ["--functions", ",".join(functions)]
    log = wd / f"{prop}_bounded_{os.getpid()}.log"
    try:
        # output goes to a file, not a pipe: worker processes that outlive the runtime layer must not block us
        with open(log, "w") as lf:
            rc = subprocess.run(cmd, stdout=lf, stderr=subprocess.STDOUT, timeout=3000, cwd=str(VERIF)).returncode
    except subprocess.TimeoutExpired:
        return {"error": "bounded stand-in timed out", "standins": []}

    class R:
        returncode = rc
        stdout = open(log).read()[-4000:]
        stderr = ""
    r = R
    if not out.exists():
        return {"error": f"runtime layer exited with {r.returncode} and wrote nothing:\n" + (r.stdout + r.stderr)[-2000:],
                "standins": []}
    res = json.load(open(out))
    for f_ in (out, log):
        try:
            f_.unlink()
        except OSError:
            pass
    if r.returncode not in (0, 1) and not res.get("error"):
        res["error"] = f"runtime layer exited with {r.returncode}:\n" + (r.stdout + r.stderr)[-2000:]
    return res


def finish(prop, tier, seed, reg, repo, results, extra, t0):
    known = load_known()
    lock = {}
    lp = VERIF / "contracts" / "obligations.lock"
    if lp.exists():
        lock = json.load(open(lp))
    groups = []  # (fkey, name, g)
    undecided_funcs, crashed, vacuous = [], [], []
    fn_rows = []
    lib_used = set()
    for r in results:
        fn_rows.append({"function": r["key"], "status": r["status"], "obligations": len(r["groups"]),
                        "paths": r["outcomes"], "feasible_paths": r["feasible"], "time_s": round(r["time"], 2),
                        "reason": r["reason"][:300]})
        lib_used.update(r["lib_used"])
        if r["status"] in ("undecided", "missing"):
            undecided_funcs.append(r)
        elif r["status"] == "crash":
            crashed.append(r)
        elif r["status"] == "vacuous":
            vacuous.append(r)
        for n, g in r["groups"].items():
            groups.append((r["key"], n, g))
    for g in extra:
        groups.append((g.get("function", g["name"].split("/")[0]), g["name"], g))
        lib_used.update(g.get("assumes", []))

    # a prover crash on one function is never a violation and never a success: the function counts as undecided, the
    # bounded stand-ins still run (they may find a failing input -> exit 1), otherwise the run ends with exit 3
    for r in crashed:
        print(f"CHECKER-ERROR: {r['key']}: {r['reason']}")
        undecided_funcs.append(dict(r, reason="prover crashed: " + r["reason"].splitlines()[0]))
    if vacuous:
        for r in vacuous:
            print(f"CHECKER-ERROR: vacuous verification of {r['key']}: {r['reason']}")
        return 3

    # vacuity guard: every locked obligation name must have been generated (for decided functions)
    present = {_strip_line(n) for _, n, _ in groups}
    und_keys = {r["key"] for r in undecided_funcs}
    missing = [n for n in lock.get(prop, []) if n not in present and n.split("/")[0] not in und_keys]
    total = len(groups)
    proved = [x for x in groups if x[2]["verdict"] == "proved"]
    refuted = [x for x in groups if x[2]["verdict"] == "refuted"]
    unknown = [x for x in groups if x[2]["verdict"] == "unknown"]
    vac = [x for x in groups if x[2]["verdict"] == "vacuous"]
    if vac:
        for _, n, g in vac:
            print(f"CHECKER-ERROR: vacuous obligation {n}: {g['detail']}")
        return 3

    violations = []
    known_hits = []
    for fkey, n, g in refuted:
        k = match_known(prop, n, g.get("witness"), known, group=g, fkey=fkey)
        if k is not None:
            known_hits.append((n, k))
            continue
        path = write_replay(prop, fkey, n, g)
        if g.get("replayed") is not None:
            status, out = g["replayed"], ""
        else:
            status, out = try_replay(path)
        violations.append((n, path, status))

    # undecided -> bounded stand-in on the real code (same contracts, CPython)
    need_bounded = bool(undecided_funcs or unknown) or tier == "thorough" or os.environ.get("PYVC_BOUNDED") == "1"
    bounded = run_bounded(prop, tier, seed) if (need_bounded or True) else None
    bounded_fail = []
    if bounded:
        for s in bounded.get("standins", []):
            for f in s.get("failures", []):
                oname = "bounded/" + s["name"] + ("#" + f["tag"] if f.get("tag") else "")
                k = match_known(prop, oname, f, known)
                if k is not None:
                    known_hits.append((oname, k))
                    continue
                os.makedirs(VERIF / "replay", exist_ok=True)
                path = VERIF / "replay" / f"{prop}_bounded_{hashlib.sha1(json.dumps(f, default=str).encode()).hexdigest()[:10]}.json"
                json.dump({"property": prop, "bounded_standin": s["name"], "failure": f}, open(path, "w"), indent=1,
                          default=str)
                bounded_fail.append((s["name"], path))

    printed = set()
    for n, k in known_hits:
        if id(k) in printed:
            continue
        printed.add(id(k))
        print(f"KNOWN-FINDING: property={prop} {k['what']} [obligation {n}]")
    for r in undecided_funcs:
        print(f"UNDECIDED function={r['key']} reason={r['reason'][:200]}")
    for fkey, n, g in unknown:
        print(f"UNDECIDED obligation={n} reason=solver returned unknown ({g.get('detail', '')[:80]})")
    for n in missing:
        print(f"UNDECIDED obligation={n} reason=locked obligation was not generated from the current source")

    exit_code = 0
    for n, path, status in violations:
        tail = "" if status == "reproduced" else " no-failing-input-found"
        print(f"VIOLATION property={prop} replay={path}{tail}")
        print(f"  failed obligation: {n}  (replay on real code: {status})")
        exit_code = 1
    for name, path in bounded_fail:
        print(f"VIOLATION property={prop} replay={path}")
        print(f"  bounded stand-in {name} found a failing input on the real code")
        exit_code = 1
    if bounded and bounded.get("error"):
        print("CHECKER-ERROR: runtime layer failed:\n" + bounded["error"])
        if exit_code == 0:
            exit_code = 3
    if crashed and exit_code == 0:
        exit_code = 3

    # ------------------------------------------------------------------ evidence
    by_backend = {}
    solver_time = 0.0
    for _, _, g in groups:
        solver_time += g.get("time", 0.0)
        for b in g.get("backend", []) or ["analysis"]:
            by_backend[b] = by_backend.get(b, 0) + 1
    abstract = [k for k, c in reg["contracts"].items() if (c.abstract or c.trusted) and prop in c.props]
    trusted = sorted(lib_used) + [f"abstract/assumed contract (not verified from a body): {k}" for k in abstract]
    trusted += [f"trusted marker in sidecars: {m}" for m in scan_trust_markers()]
    discharged = len(proved)
    all_decided = (not undecided_funcs and not unknown and not missing)
    level = LEVEL_OVERRIDE.get(prop, "proof")
    samples = []
    for fkey, n, g in (refuted + unknown + proved)[:6]:
        samples.append({"obligation": n, "verdict": g["verdict"], "kind": g.get("kind"),
                        "instances": g.get("instances", 1), "time_s": round(g.get("time", 0.0), 3),
                        "backend": g.get("backend")})
    cov = {
        "obligations": max(total, 1) if total else 0,
        "discharged": discharged,
        "checker_cmd": f"./check {prop} --tier {tier}  (python3-vt pyvc/check.py; z3 {z3_version()}; /usr/bin/cvc5 on z3-unknown)",
        "trusted_base": trusted,
        "functions_under_contract": fn_rows,
        "by_backend": by_backend,
        "solver_time_s": round(solver_time, 2),
        "refuted": [n for _, n, _ in refuted],
        "undecided": [n for _, n, _ in unknown] + [r["key"] + ": " + r["reason"][:160] for r in undecided_funcs] + missing,
        "known_findings_hit": [k["what"] for _, k in known_hits],
        "bounded_standins": [{k: v for k, v in s.items() if k != "failures"} | {"failures": len(s.get("failures", []))}
                             for s in (bounded or {}).get("standins", [])],
        "samples": samples,
        "explanation": ("every obligation generated from /repo's current source was discharged"
                        if all_decided and not refuted else
                        "NOT all obligations discharged: see refuted/undecided; bounded stand-ins are never counted as discharged"),
    }
    if total == 0:
        level = "other"
        cov["explanation"] = "no deductive obligation was generated; " + cov["explanation"]
    ev = {"property_id": prop, "tier": tier, "seed": seed, "level": level, "coverage": cov,
          "assumptions": ENCODING_ASSUMPTIONS + prop_notes(reg, prop), "wall_s": round(time.time() - t0, 2),
          "violations": len(violations) + len(bounded_fail)}
    evdir = Path(os.environ["PYVC_OUT"]) / "evidence" if os.environ.get("PYVC_OUT") else VERIF / "evidence"
    os.makedirs(evdir, exist_ok=True)
    json.dump(ev, open(evdir / f"{prop}.json", "w"), indent=1, default=str)
    if os.environ.get("PYVC_WRITE_LOCK") == "1":
        lock[prop] = sorted(present)
        json.dump(lock, open(lp, "w"), indent=1)
    print(f"{prop}: functions={len(results)} obligations={total} discharged={discharged} refuted={len(refuted)} "
          f"(known: {len(known_hits)}) undecided={len(unknown) + len(undecided_funcs) + len(missing)} "
          f"solver={solver_time:.1f}s wall={time.time() - t0:.1f}s exit={exit_code}")
    if total == 0 and exit_code == 0:
        print("CHECKER-ERROR: zero obligations generated")
        return 3
    return exit_code


def z3_version():
    import z3
    return z3.get_version_string()


def prop_notes(reg, prop):
    out = []
    for k, c in reg["contracts"].items():
        if prop in c.props and c.notes:
            out.append(f"{k}: {c.notes}")
    return out


def scan_trust_markers():
    out = []
    for p in sorted((VERIF / "contracts").glob("*.py")):
        for i, line in enumerate(open(p), 1):
            if re.search(r"\b(trusted=True|abstract=True|assume\(|axiom)", line):
                out.append(f"{p.name}:{i}: {line.strip()[:100]}")
    return out
