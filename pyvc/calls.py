"""pyvc symbolic executor (part 3): calls, contract application."""
from __future__ import annotations

import ast
import re

import z3

from . import lib
from .engine import BUILTIN_EXC, Frame, fresh, fresh_arr_like, fresh_like, parse_expr
from .interp import Interp, _check_pure
from .values import (
    NONE, Arr, BoundMethod, CDict, Closure, DictV, Exc, FuncV, Iter, ModuleV, Obj, ObjS, Opaque, Opt, Poison, Ref,
    State, Unsupported, VClass, VStr, VTuple, fresh_name, intern_str, is_boolish, is_num, is_z3, to_z3, zand,
    zimplies, zite, znot, zor,
)


class SuperProxy:
    def __init__(self, obj, after):
        self.obj = obj
        self.after = after


def _quant(self: Interp, node, st, kind, real=False):
    """forall(range(a,b), lambda j: P)  /  forall(lambda j: P)  (int-typed bound variables)."""
    args = node.args
    rng = None
    if len(args) == 2:
        rng, lam = args
    else:
        (lam,) = args
    if not isinstance(lam, ast.Lambda):
        raise Unsupported("quantifier body must be a lambda")
    names = [a.arg for a in lam.args.args]
    vars_ = [(z3.Real if real else z3.Int)(fresh_name(n)) for n in names]
    saved = dict(st.env)
    try:
        for n, v in zip(names, vars_):
            st.env[n] = v
        guard = True
        if rng is not None:
            if not (isinstance(rng, ast.Call) and isinstance(rng.func, ast.Name) and rng.func.id == "range"):
                raise Unsupported("quantifier domain must be range(..)")
            ra = [self.eval(a, st) for a in rng.args]
            lo, hi = (0, ra[0]) if len(ra) == 1 else (ra[0], ra[1])
            guard = zand(to_z3(lo) <= vars_[0], vars_[0] < to_z3(hi))
        nfacts = len(st.facts)
        body = self.truth(self.eval(lam.body, st), st)
        # facts instantiated while evaluating the body mention the bound variable: re-quantify them
        newf = st.facts[nfacts:]
        del st.facts[nfacts:]
        for f in newf:
            f = to_z3(f)
            if any(_mentions(f, v) for v in vars_):
                st.facts.append(z3.ForAll(vars_, f))
            else:
                st.facts.append(f)
    finally:
        st.env = saved
    body = to_z3(body)
    if kind == "forall":
        if z3.is_quantifier(body) and body.is_forall() and body.num_patterns() == 0:
            # forall i: g(i) -> forall e: B   ==   forall i, e: g(i) -> B   (one instantiation step for the solver)
            inner = [z3.Const(fresh_name(body.var_name(i)), body.var_sort(i)) for i in range(body.num_vars())]
            ib = z3.substitute_vars(body.body(), *reversed(inner))
            return z3.ForAll(vars_ + inner, z3.Implies(to_z3(guard), ib))
        return z3.ForAll(vars_, z3.Implies(to_z3(guard), body))
    return z3.Exists(vars_, z3.And(to_z3(guard), body))


_FSUM: dict = {}


def _fsum(self: Interp, node, st, product=False):
    """fsum(lambda j: term(j), n) = sum of term(j) for 0 <= j < n: an uninterpreted S with S(0) = 0 and
    S(k+1) = S(k) + term(k) for all k >= 0 (definition by recursion; no induction is performed)."""
    lam, nnode = node.args
    var = lam.args.args[0].arg
    text = ast.unparse(lam.body)
    free = sorted({x.id for x in ast.walk(lam.body) if isinstance(x, ast.Name) and x.id != var})
    key = (product, text, tuple((f, id(st.env.get(f))) if not isinstance(st.env.get(f), Ref)
                                else (f, id(st.heap[st.env[f].rid])) for f in free))
    if key not in _FSUM:
        S = z3.Function(fresh_name("fsum"), z3.IntSort(), z3.RealSort())
        kz = z3.Int(fresh_name("k"))
        saved = dict(st.env)
        nf = len(st.facts)
        try:
            st.env[var] = kz
            from .values import to_real
            term = to_real(self.eval(lam.body, st))
        finally:
            st.env = saved
        inner = st.facts[nf:]
        del st.facts[nf:]
        if product:
            ax = [S(0) == 1, z3.ForAll([kz], z3.Implies(kz >= 0, S(kz + 1) == S(kz) * term))]
        else:
            ax = [S(0) == 0, z3.ForAll([kz], z3.Implies(kz >= 0, S(kz + 1) == S(kz) + term))]
        for f in inner:
            f = to_z3(f)
            ax.append(z3.ForAll([kz], f) if _mentions(f, kz) else f)
        _FSUM[key] = (S, ax)
    S, ax = _FSUM[key]
    for a in ax:
        if not any(a.eq(f) for f in st.facts if is_z3(f)):
            st.fact(a)
    return S(to_z3(self.eval(nnode, st)))


def _mentions(f, v):
    todo, seen = [f], set()
    while todo:
        e = todo.pop()
        if e.get_id() in seen:
            continue
        seen.add(e.get_id())
        if z3.is_quantifier(e):
            todo.append(e.body())
            continue
        if e.eq(v):
            return True
        todo.extend(e.children())
    return False


def call_outcomes(self: Interp, node: ast.Call, st: State):
    """-> list of (state, value, exc). exc is None on normal return."""
    fn = node.func
    if isinstance(fn, ast.Name):
        nm = fn.id
        if nm in ("forall", "exists") and nm not in st.env:
            return [(st, _quant(self, node, st, nm), None)]
        if nm in ("forall_real", "exists_real") and nm not in st.env:
            return [(st, _quant(self, node, st, nm[:-5], real=True), None)]
        if nm == "fsum" and len(node.args) == 2 and isinstance(node.args[0], ast.Lambda):
            return [(st, _fsum(self, node, st), None)]
        if nm == "fprod" and len(node.args) == 2 and isinstance(node.args[0], ast.Lambda):
            return [(st, _fsum(self, node, st, product=True), None)]
        if nm == "implies":
            a = self.truth(self.eval(node.args[0], st), st)
            if not isinstance(a, bool) and self.in_contract:
                # a guard that is impossible on this path makes the implication true without evaluating the body;
                # the (costly) feasibility query is only made when the body cannot be evaluated as it stands
                nf, npc = len(st.facts), len(st.pc)
                try:
                    b = self.truth(self.eval_guarded(node.args[1], st, a), st)
                    return [(st, zimplies(a, b), None)]
                except Unsupported:
                    del st.facts[nf:]
                    del st.pc[npc:]
                    n0 = len(st.pc)
                    st.assume(a)
                    ok = self.feasible(st, 500)
                    del st.pc[n0:]
                    if not ok:
                        return [(st, True, None)]
                    raise
            b = self.truth(self.eval_guarded(node.args[1], st, a), st) if not isinstance(a, bool) else (
                self.truth(self.eval(node.args[1], st), st) if a else True)
            return [(st, zimplies(a, b), None)]
        if nm == "ite":
            c = self.truth(self.eval(node.args[0], st), st)
            a = self.eval_guarded(node.args[1], st, c)
            b = self.eval_guarded(node.args[2], st, znot(c))
            return [(st, zite(c, a, b), None)]
        if nm == "old":
            return [(st, self.eval_old(node.args[0], st), None)]
        if nm == "before":
            snap = getattr(self.frame, "before", None)
            if snap is None:
                raise Unsupported("before() outside a statement contract")
            return [(st, self.eval_old(node.args[0], st, snap), None)]
        if nm == "entry":
            # entry(e): the value of e when the (innermost) loop whose invariant is being evaluated was entered
            snap = getattr(self.frame, "loop_entry", None)
            if snap is None:
                raise Unsupported("entry() outside a loop invariant")
            return [(st, self.eval_old(node.args[0], st, snap), None)]
        if nm == "cast":
            return [(st, self.eval(node.args[1], st), None)]
        if nm == "print":
            for a in node.args:
                _check_pure(a)
            return [(st, NONE, None)]
        if nm == "isinstance":
            return [(st, lib.isinstance_(self, st, self.eval(node.args[0], st), node.args[1]), None)]
        if nm == "type" and len(node.args) == 1:
            return [(st, lib.type_of(self, st, self.eval(node.args[0], st)), None)]
        if nm == "super" and not node.args:
            return [(st, SuperProxy(st.env["self"], self.frame.cls), None)]
    f = self.eval_callee(fn, st)
    args = []
    for a in node.args:
        if isinstance(a, ast.Starred):
            v = self.eval(a.value, st)
            if not isinstance(v, VTuple):
                raise Unsupported("star-args of non-tuple")
            args.extend(v.items)
        else:
            args.append(self.eval(a, st))
    kwargs = {}
    for kw in node.keywords:
        if kw.arg is None:
            v = self.eval(kw.value, st)
            if isinstance(v, Ref) and v.what == "cdict":
                for k2, v2 in st.heap[v.rid].items.items():
                    if not isinstance(k2, str):
                        raise Unsupported("**kwargs with symbolic key")
                    kwargs[k2] = v2
                continue
            raise Unsupported("**kwargs call")
        kwargs[kw.arg] = self.eval(kw.value, st)
    return self.dispatch_call(f, args, kwargs, st, node)


def eval_callee(self: Interp, fn, st):
    if isinstance(fn, ast.Attribute):
        base = self.eval(fn.value, st)
        if isinstance(base, SuperProxy):
            return BoundMethod(base, fn.attr)
        return self.getattr(base, fn.attr, st, fn)
    return self.eval(fn, st)


def dispatch_call(self: Interp, f, args, kwargs, st, node):
    if isinstance(f, Opt):
        self.safety(st, znot(f.is_none), "callee-not-None", node)
        f = f.val
    if isinstance(f, FuncV):
        kind, name = f.qual
        if kind == "builtin":
            h = lib.BUILTIN_FUNCS.get(name)
            if h is None:
                raise Unsupported(f"builtin {name}")
            return [(st, h(self, st, args, kwargs, node), None)]
        if kind in ("def", "spec"):
            params, body = (self.frame.contract.defs[name] if kind == "def" else self.reg["specs"][name])
            saved = dict(st.env)
            try:
                for p, a in zip(params, args):
                    st.env[p] = a
                return [(st, self.eval(parse_expr(body), st), None)]
            finally:
                st.env = saved
        if kind == "repo":
            return self.apply_contract(name, None, args, kwargs, st, node)
    if isinstance(f, Closure):
        saved = dict(st.env)
        try:
            st.env.update(f.env)
            for p, a in zip(f.params, args):
                st.env[p] = a
            return [(st, self.eval(f.body, st), None)]
        finally:
            st.env = saved
    if isinstance(f, ModuleV):
        h = lib.LIB.get(f.path)
        if h is None:
            raise Unsupported(f"library function {f.path} has no model")
        r = h(self, st, args, kwargs, node)
        if isinstance(r, list):
            return r
        return [(st, r, None)]
    if isinstance(f, VClass):
        return self.construct(f, args, kwargs, st, node)
    if isinstance(f, BoundMethod):
        recv = f.recv
        if isinstance(recv, SuperProxy):
            mro = self.repo.mro(recv.obj.cls if isinstance(recv.obj, Obj) else recv.after)
            if recv.after in mro:
                mro = mro[mro.index(recv.after) + 1:]
            for c in mro:
                ci = self.repo.classes[c]
                if f.name in ci.methods:
                    return self.apply_contract(f"{ci.module}::{c}.{f.name}", recv.obj, args, kwargs, st, node)
            if f.name == "__init__":
                return [(st, NONE, None)]  # object.__init__ / Exception.__init__ / ABC
            raise Unsupported(f"super().{f.name} not found")
        if isinstance(recv, Obj):
            if recv.cls in lib.OBJ_METHODS and f.name in lib.OBJ_METHODS[recv.cls]:
                r = lib.OBJ_METHODS[recv.cls][f.name](self, st, recv, args, kwargs, node)
                return r if isinstance(r, list) else [(st, r, None)]
            key = self.repo.method_key(recv.cls, f.name)
            if key is None:
                raise Unsupported(f"method {recv.cls}.{f.name} not found")
            return self.apply_contract(key, recv, args, kwargs, st, node)
        if isinstance(recv, Opaque):
            if recv.cls in lib.OPAQUE_METHODS and f.name in lib.OPAQUE_METHODS[recv.cls]:
                r = lib.OPAQUE_METHODS[recv.cls][f.name](self, st, recv, args, kwargs, node)
                return r if isinstance(r, list) else [(st, r, None)]
            key = self.repo.method_key(recv.cls, f.name) if recv.cls in self.repo.classes else None
            if key is None:
                raise Unsupported(f"method {f.name} of opaque {recv.cls}")
            return self.apply_contract(key, recv, args, kwargs, st, node)
        if isinstance(recv, VClass):
            if isinstance(recv.name, str) and recv.name in self.repo.classes:
                key = self.repo.method_key(recv.name, f.name)
                r = self.repo.find_method(recv.name, f.name)
                decos = getattr(r[1], "_decos", [])
                if "staticmethod" in decos:
                    selfv = None
                elif "classmethod" in decos:
                    selfv = recv
                else:  # unbound method call: Class.method(self, ...)
                    selfv, args = args[0], args[1:]
                return self.apply_contract(key, selfv, args, kwargs, st, node)
            raise Unsupported("method of symbolic class")
        if isinstance(recv, (Arr, Ref, VStr, VTuple)):
            h = lib.VALUE_METHODS.get(f.name)
            if h is None:
                raise Unsupported(f"method .{f.name} on {type(recv).__name__}")
            r = h(self, st, recv, args, kwargs, node)
            return r if isinstance(r, list) else [(st, r, None)]
    if isinstance(f, Opaque):
        h = lib.OPAQUE_CALL.get(f.cls)
        if h is None:
            raise Unsupported("call of opaque callable")
        r = h(self, st, f, args, kwargs, node)
        return r if isinstance(r, list) else [(st, r, None)]
    raise Unsupported(f"call of {type(f).__name__}")


def construct(self: Interp, cls: VClass, args, kwargs, st, node):
    if not isinstance(cls.name, str):
        # symbolic exception class (e.g. _assert's exception_class parameter)
        return [(st, Exc(cls.name, args), None)]
    name = cls.name
    if name in self.repo.classes:
        is_exc = self.repo.exc_is_subclass(name, "BaseException")
        obj = st.new_obj(name)
        key = self.repo.method_key(name, "__init__")
        if key is not None:
            outs = self.apply_contract(key, obj, args, kwargs, st, node)
        else:
            outs = [(st, NONE, None)]
        res = []
        for s2, _v, exc in outs:
            if exc is not None:
                res.append((s2, None, exc))
            elif is_exc:
                res.append((s2, Exc(name, args, dict(s2.heap.get(obj.oid, {}))), None))
            else:
                res.append((s2, obj, None))
        return res
    if name in BUILTIN_EXC:
        return [(st, Exc(name, args), None)]
    raise Unsupported(f"constructor of {name}")


def bind_formals(self: Interp, fn: ast.FunctionDef, has_self, args, kwargs, st):
    a = fn.args
    formals = [x.arg for x in a.posonlyargs + a.args]
    if has_self:
        formals = formals[1:]
    env = {}
    if len(args) > len(formals) and a.vararg is None:
        raise Unsupported(f"too many positional arguments for {fn.name}")
    for name, v in zip(formals, args):
        env[name] = v
    if a.vararg is not None:
        env[a.vararg.arg] = VTuple(list(args[len(formals):]))
    kwonly = [x.arg for x in a.kwonlyargs]
    extra = {}
    for k, v in kwargs.items():
        if k in formals or k in kwonly:
            env[k] = v
        elif a.kwarg is not None:
            extra[k] = v
        else:
            raise Unsupported(f"unexpected keyword {k} for {fn.name}")
    if a.kwarg is not None:
        env[a.kwarg.arg] = st.alloc(CDict(extra), "cdict")
    # defaults
    defaults = dict(zip(reversed(formals), reversed(a.defaults)))
    for name in formals:
        if name not in env:
            if name in defaults:
                env[name] = self.eval(defaults[name], State())
            else:
                raise Unsupported(f"missing argument {name} for {fn.name}")
    for name, d in zip(kwonly, a.kw_defaults):
        if name not in env:
            if d is None:
                raise Unsupported(f"missing kw-only argument {name}")
            env[name] = self.eval(d, State())
    return env


class FrameCtx:
    def __init__(self, interp, st, frame, env):
        self.i, self.st, self.frame, self.env = interp, st, frame, env

    def __enter__(self):
        self.saved = (self.i.frame, self.st.env)
        self.i.frame = self.frame
        self.st.env = self.env
        return self

    def __exit__(self, *a):
        self.i.frame, self.st.env = self.saved
        return False


def eval_old(self: Interp, node, st, snap=None):
    pre = snap if snap is not None else self.frame.pre
    if pre is None:
        raise Unsupported("old() without a pre-state")
    s = pre.fork()
    env = dict(st.env)
    if snap is None:
        env.update(pre.env)
    else:  # statement snapshot: locals as they were before the statement (bound variables stay visible)
        for k_, v_ in pre.env.items():
            env[k_] = v_
        for k_, v_ in st.env.items():
            if k_ not in pre.env:
                env[k_] = v_
    s.env = env
    s.facts = st.facts  # share instantiated axioms
    v = self.eval(node, s)
    # a reference must not be dereferenced in the CURRENT heap: return the snapshotted (immutable) content
    if isinstance(v, Opt) and isinstance(v.val, Ref):
        return Opt(v.is_none, s.heap[v.val.rid])
    if isinstance(v, Ref):
        return s.heap[v.rid]
    if isinstance(v, Obj):
        raise Unsupported("old(<object>): write old(obj.field) instead")
    return v


def contract_truth(self: Interp, src, st):
    self.in_contract += 1
    try:
        return self.truth(self.eval(parse_expr(src), st), st)
    finally:
        self.in_contract -= 1


def havoc(self: Interp, target: str, st: State, callee_env=None):
    """Havoc one `modifies` target (expression string evaluated in the current env)."""
    target = target.strip()
    contents = target.endswith("[*]")
    if contents:
        target = target[:-3]
    node = parse_expr(target) if not target.endswith(".*") else parse_expr(target[:-2])
    if target.endswith(".*"):
        o = self.eval(node, st)
        if isinstance(o, Obj):
            for c in self.repo.mro(o.cls) or [o.cls]:
                spec = self.reg["classes"].get(c)
                if spec:
                    for fld, t in spec.fields.items():
                        st.heap[o.oid][fld] = fresh(t, f"{o.cls}.{fld}", st, self)
        return
    if isinstance(node, ast.Attribute) and isinstance(node.value, ast.Name) and node.value.id == "ghost":
        cur = self.getattr(self.lookup("ghost", st), node.attr, st)
        if contents and isinstance(cur, Ref):
            cell = st.heap[cur.rid]
            st.heap[cur.rid] = fresh_arr_like(cell, fresh_name("hv"), st, keep_shape=False)
            return
        st.ghost[node.attr] = fresh_like(cur, f"ghost.{node.attr}", st)
        return
    self.in_contract += 1
    try:
        if contents or isinstance(node, ast.Name):
            v = self.eval(node, st)
            if isinstance(v, Opt):
                v = v.val
            if isinstance(v, Ref) and v.what == "arr":
                cell = st.heap[v.rid]
                st.heap[v.rid] = fresh_arr_like(cell, fresh_name("hv"), st, keep_shape=(cell.kind == "ndarray"))
                return
            if isinstance(v, Ref) and v.what == "dict":
                nv = fresh_like(v, "hv", st)
                st.heap[v.rid] = st.heap[nv.rid]
                return
            if isinstance(v, Obj):
                return self.havoc(target + ".*", st)
            if isinstance(v, (Opaque,)) or v is NONE:
                return
            raise Unsupported(f"cannot havoc contents of {target}")
        if isinstance(node, ast.Attribute):
            o = self.eval(node.value, st)
            if isinstance(o, Opt):
                o = o.val
            if isinstance(o, Obj):
                attr = self.mangle(node.attr, self.frame.cls if self.frame else None)
                cur = st.heap[o.oid].get(attr)
                t = None
                for c in self.repo.mro(o.cls) or [o.cls]:
                    spec = self.reg["classes"].get(c)
                    if spec and attr in spec.fields:
                        t = spec.fields[attr]
                        break
                if t is not None:
                    st.heap[o.oid][attr] = fresh(t, f"{o.cls}.{attr}", st, self)
                elif cur is not None:
                    st.heap[o.oid][attr] = fresh_like(cur, attr, st)
                else:
                    raise Unsupported(f"havoc of untyped field {target}")
                return
            if isinstance(o, Opaque):
                return
        raise Unsupported(f"modifies target {target}")
    finally:
        self.in_contract -= 1


def inline_call(self: Interp, key, module, cls, fn, selfv, args, kwargs, st: State, node):
    """A callee WITHOUT a contract is executed symbolically in place (its body is then verified as part of the caller:
    nothing is assumed about it).  Not for recursion, depth <= 3; loops in it need an invariant or a concrete bound."""
    stack = getattr(self, "_inline_stack", [])
    if key in stack or len(stack) >= 3:
        raise Unsupported(f"call to {key}, which has no contract (recursive or too deep to inline)")
    from .engine import Frame as _Frame
    lib.used(f"inlined callee without a contract (verified as part of the caller): {key}")
    decos = getattr(fn, "_decos", [])
    has_self = cls is not None and "staticmethod" not in decos
    env = self.bind_formals(fn, has_self, args, kwargs, st)
    if has_self:
        env["self" if "classmethod" not in decos else "cls"] = selfv
    caller_env, caller_frame = st.env, self.frame
    frame = _Frame(module, cls, fn, None, caller_frame.pre if caller_frame is not None else None)
    self._inline_stack = stack + [key]
    try:
        self.frame = frame
        st.env = env
        outs = self.exec_block(list(fn.body), st)
    finally:
        self.frame = caller_frame
        self._inline_stack = stack
        st.env = caller_env
    results = []
    for o in outs:
        o.state.env = dict(caller_env)
        if o.kind in ("normal", "return"):
            v = o.value if (o.kind == "return" and o.value is not None) else NONE
            results.append((o.state, v, None))
        elif o.kind == "raise":
            results.append((o.state, None, o.value))
        else:
            raise Unsupported("break/continue escaping an inlined function")
    return results


def apply_contract(self: Interp, key, selfv, args, kwargs, st: State, node):
    c = self.reg["contracts"].get(key)
    info = self.repo.get_function(key)
    if info is None:
        raise Unsupported(f"callee {key} not found in the repository")
    module, cls, fn = info
    if c is None:
        return inline_call(self, key, module, cls, fn, selfv, args, kwargs, st, node)
    decos = getattr(fn, "_decos", [])
    has_self = cls is not None and "staticmethod" not in decos
    env = self.bind_formals(fn, has_self, args, kwargs, st)
    if has_self:
        env["self" if "classmethod" not in decos else "cls"] = selfv
    pre = st.fork()
    pre.env = dict(env)
    frame = Frame(module, cls, None, c, pre)
    outs = []
    caller_frame, caller_env = self.frame, st.env
    ghost_reset = set()
    with FrameCtx(self, st, frame, env):
        # 1. preconditions
        for i, r in enumerate(c.requires):
            if "ghost." in r:
                # a precondition on ghost (specification-only) state RESETS the ghost trace at the call site
                for gname in set(re.findall(r"ghost\.(\w+)", r)):
                    if gname not in ghost_reset:
                        ghost_reset.add(gname)
                        self.havoc("ghost." + gname + ("[*]" if isinstance(st.ghost.get(gname), Ref) else ""), st)
                continue
            g = self.contract_truth(r, st)
            saved_frame = self.frame
            self.frame = caller_frame
            try:
                self.oblige(st, g, "P", f"call-pre[{key.split('::')[1]}#{i}]", node)
            finally:
                self.frame = saved_frame
            st.assume(g)
        for r in c.requires:
            if "ghost." in r:
                st.assume(self.contract_truth(r, st))
        for i, r in enumerate(c.ghost_requires):
            g = self.contract_truth(r, st)
            saved_frame = self.frame
            self.frame = caller_frame
            try:
                self.oblige(st, g, "P", f"call-pre[{key.split('::')[1]}#ghost{i}]", node)
            finally:
                self.frame = saved_frame
            st.assume(g)
        frame.pre = st.fork()
        frame.pre.env = dict(env)
        # 2. raises clauses (ordered)
        earlier = []
        for ent in c.raises:
            w = self.contract_truth(ent["when"], st)
            cond = zand(w, *[znot(e) for e in earlier])
            earlier.append(w)
            if isinstance(cond, bool) and not cond:
                continue
            s2 = st.fork()
            s2.assume(cond)
            if not self.feasible(s2):
                continue
            with FrameCtx(self, s2, frame, dict(env)):
                excv = self.make_exc(ent, s2)
                s2.env["exc"] = excv
                for e in ent.get("ensures", []):
                    s2.assume(self.contract_truth(e, s2))
            s2.env = dict(caller_env)
            outs.append((s2, None, excv))
        for w in earlier:
            st.assume(znot(w))
        # 3. may_raise: exceptional exit with the modifies-set havocked
        for ecls in ([] if c.is_cm else c.may_raise):
            s2 = st.fork()
            with FrameCtx(self, s2, frame, dict(env)):
                for m in c.modifies:
                    self.havoc(m, s2)
                for e in c.exc_ensures:
                    s2.assume(self.contract_truth(e, s2))
            s2.env = dict(caller_env)
            ex = Exc(ecls, ())
            ex.from_may_raise = True   # "whatever a callee may let escape" (no clause of the caller describes WHEN)
            outs.append((s2, None, ex))
        # 4. normal exit
        for m in c.modifies:
            self.havoc(m, st)
        # ghost variables constrained by the postconditions are implicitly modified
        declared = " ".join(c.modifies)
        for gname in sorted(set(re.findall(r"ghost\.(\w+)", " ".join(c.ensures + c.ghost_ensures)))):
            if ("ghost." + gname) not in declared:
                self.havoc("ghost." + gname + ("[*]" if isinstance(st.ghost.get(gname), Ref) else ""), st)
        res = fresh(c.returns, "ret_" + fn.name, st, self) if c.returns != "none" else NONE
        if c.is_cm:
            from .stmts import CMToken
            res = Opaque(z3.Const(fresh_name("cm"), ObjS), "contextmanager")
            res._cm = CMToken(key, frame, dict(env), c)
        st.env["result"] = res
        for e in [x for x in c.ensures if self.clause_on(x)] + c.ghost_ensures:
            st.assume(self.contract_truth(e, st))
    outs.append((st, res, None))
    return outs


def make_exc(self: Interp, ent, st):
    e = ent["exc"]
    if e in self.repo.classes or e in BUILTIN_EXC:
        if e in self.repo.classes:
            o = st.new_obj(e)
            # materialise declared fields so that ensures can constrain them
            spec = self.reg["classes"].get(e)
            if spec:
                for fld, t in spec.fields.items():
                    st.heap[o.oid][fld] = fresh(t, f"{e}.{fld}", st, self)
            return Exc(e, (), st.heap[o.oid])
        return Exc(e, ())
    v = self.eval(parse_expr(e), st)
    if isinstance(v, VClass):
        return Exc(v.name, ())
    raise Unsupported("raises entry does not denote a class")


_hq_cache: dict = {}


def has_quantifier(e) -> bool:
    k = e.get_id()
    if k in _hq_cache:
        return _hq_cache[k][1]
    todo, seen, found = [e], set(), False
    while todo:
        x = todo.pop()
        i = x.get_id()
        if i in seen:
            continue
        seen.add(i)
        if z3.is_quantifier(x):
            found = True
            break
        todo.extend(x.children())
    _hq_cache[k] = (e, found)
    return found


def feasible(self: Interp, st: State, timeout_ms=1500, focus=None) -> bool:
    """Path pruning only: quantified assumptions are dropped (over-approximates feasibility, hence sound).
    With `focus` (the constraint just added to a state known to be feasible) only the premises in the symbol closure
    of the focus are handed to the solver - again an over-approximation."""
    s = z3.Solver()
    s.set("timeout", timeout_ms)
    qf = [a for a in st.assumptions() if is_z3(a) and not has_quantifier(a)]
    if focus is not None and is_z3(focus):
        from .rel import relevant
        qf = relevant(qf, focus, 10 ** 6)
        s.add(focus)
    for a in qf:
        s.add(a)
    return s.check() != z3.unsat


Interp.call_outcomes = call_outcomes
Interp.eval_callee = eval_callee
Interp.dispatch_call = dispatch_call
Interp.construct = construct
Interp.bind_formals = bind_formals
Interp.eval_old = eval_old
Interp.contract_truth = contract_truth
Interp.havoc = havoc
Interp.apply_contract = apply_contract
Interp.make_exc = make_exc
Interp.feasible = feasible
