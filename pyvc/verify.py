"""Per-function verification driver: builds the initial state from the contract, runs the symbolic
executor over the REAL source, generates the obligations and discharges them."""
from __future__ import annotations

import ast
import importlib.util
import os
import subprocess
import sys
import tempfile
import time
import traceback
from pathlib import Path

import z3

from . import api, lib
from . import calls as _calls  # noqa: F401  (mixes methods into Interp)
from . import stmts as _stmts  # noqa: F401
from . import lib2 as _lib2  # noqa: F401  (registers further library models)
from . import lib_fs as _lib_fs  # noqa: F401  (ghost disk + persistence library models)
from .engine import Frame, Outcome, fresh, parse_expr
from .interp import Interp
from .repo import Repo
from .stmts import _same
from .values import (
    NONE, Arr, Exc, Obj, Opaque, Opt, Poison, Ref, State, Unsupported, VClass, VStr, VTuple, fresh_name, is_boolish,
    is_num, is_z3, str_of_id, to_z3, zand, zimplies, znot, zor,
)

VERIF = Path(__file__).resolve().parent.parent


def load_sidecars():
    api.REG = {"contracts": {}, "classes": {}, "invariants": {}, "lemmas": {}, "specs": {}, "ghosts": {}, "stmts": {},
               "disk_schema": {}, "ghost_functions": {}}
    cdir = Path(os.environ.get("PYVC_CONTRACTS") or (VERIF / "contracts"))
    for p in sorted(cdir.glob("*.py")):
        spec = importlib.util.spec_from_file_location("contracts_" + p.stem, p)
        mod = importlib.util.module_from_spec(spec)
        # the sidecar modules use `from pyvc.api import ...`: make them register into the current REG
        spec.loader.exec_module(mod)
    from . import lib_fs
    lib_fs.SCHEMA.clear()
    lib_fs.SCHEMA.update(api.REG["disk_schema"])
    return api.REG


class Ob:
    """One generated obligation instance (a path-specific VC)."""

    def __init__(self, name, kind, label, line, assumptions, goal, fkey):
        self.name = name
        self.kind = kind
        self.label = label
        self.line = line
        self.assumptions = assumptions
        self.goal = goal
        self.fkey = fkey
        self.verdict = None  # proved | refuted | unknown
        self.backend = None
        self.time = 0.0
        self.model = None
        self.detail = ""


def skolemize(goal, depth=0):
    """A universally quantified GOAL is proved for fresh constants (equivalent, and much easier for the solver):
    descends through implications (hypotheses kept) and conjunctions (forall distributes over them)."""
    if not is_z3(goal) or depth > 12:
        return goal
    if z3.is_quantifier(goal) and goal.is_forall():
        consts = [z3.Const(fresh_name("sk_" + goal.var_name(i)), goal.var_sort(i)) for i in range(goal.num_vars())]
        return skolemize(z3.substitute_vars(goal.body(), *reversed(consts)), depth + 1)
    if z3.is_implies(goal):
        return z3.Implies(goal.arg(0), skolemize(goal.arg(1), depth + 1))
    if z3.is_and(goal):
        return z3.And(*[skolemize(c, depth + 1) for c in goal.children()])
    return goal


class Sink:
    def __init__(self, fkey):
        self.fkey = fkey
        self.obs: list[Ob] = []

    facet = None
    facet_all = False

    def oblige(self, st, goal, kind, label, node, frame):
        if self.facet is not None and not self.facet_all and (kind not in ("F", "I", "A") or label.startswith("class-inv")):
            return
        line = getattr(node, "lineno", 0) if node is not None else 0
        name = f"{self.fkey}/{kind}/{label}"
        goal = skolemize(goal)
        self.obs.append(Ob(name, kind, label, line, st.assumptions(), goal, self.fkey))


# ------------------------------------------------------------------------------------------------ solving

_canary_cache: dict = {}


_NCPU = os.cpu_count() or 1


def load_factor():
    """Budgets are wall-clock: on a machine whose run queue is longer than its core count every query gets that much
    less CPU, so the budgets are stretched by the same factor (1 on a quiet machine, at most 6) - verdicts must not
    flip because other jobs are running."""
    try:
        return max(1.0, min(6.0, os.getloadavg()[0] / _NCPU))
    except OSError:
        return 1.0


def _solver(timeout_ms):
    s = z3.Solver()
    s.set("timeout", int(timeout_ms * load_factor()))
    return s


def cvc5_check(smt2: str, timeout_s: int):
    with tempfile.NamedTemporaryFile("w", suffix=".smt2", delete=False, dir=os.environ.get("PYVC_TMP")) as f:
        f.write("(set-logic ALL)\n" + smt2 + "\n")
        path = f.name
    try:
        r = subprocess.run(["/usr/bin/cvc5", f"--tlimit={timeout_s * 1000}", "--lang=smt2", path],
                           capture_output=True, text=True, timeout=timeout_s + 5)
        out = r.stdout.strip().splitlines()
        return out[0] if out else "unknown"
    except Exception:  # noqa: BLE001
        return "unknown"
    finally:
        os.unlink(path)


def _canary(ob):
    """vacuity canary: the premises of a proved obligation must be satisfiable (else the path is dead)"""
    from .calls import has_quantifier
    ck = tuple(a.get_id() for a in ob.assumptions)
    if ck not in _canary_cache:
        cs = _solver(1000)
        for a in ob.assumptions:
            if not has_quantifier(a):
                cs.add(a)
        _canary_cache[ck] = cs.check() == z3.unsat
    if _canary_cache[ck]:
        ob.verdict = "dead"


def discharge(ob: Ob, timeout_s: int, use_cvc5=True):
    t0 = time.time()
    goal = ob.goal
    if isinstance(goal, bool) and goal:
        ob.verdict, ob.backend = "proved", "eval"
        return
    ob.backend = "z3-" + z3.get_version_string()

    def attempt(assumptions, ms):
        sv = _solver(ms)
        for a_ in assumptions:
            sv.add(a_)
        sv.add(z3.Not(to_z3(goal)))
        return sv.check(), sv

    # 1. everything, short budget (most obligations are immediate)
    r, s = attempt(ob.assumptions, min(timeout_s, 2) * 1000)
    # 1b. counter-model search by refinement (sound in both directions): solve a SUBSET of the premises with the negated
    #     goal; `unsat` proves the goal (fewer premises); a model is EVALUATED on every premise left out - a premise
    #     that is false (or cannot be evaluated) under it joins the subset; when every left-out premise evaluates to
    #     True the model satisfies all premises and the negated goal: a genuine counter-model, found without asking
    #     the solver to build interpretations for quantified premises that have nothing to do with the failure
    if r == z3.unknown:
        rr = _refine(ob.assumptions, to_z3(goal), min(timeout_s, 12))
        if rr is None:
            rr = _refine(ob.assumptions, to_z3(goal), min(timeout_s, 8), linearise=True)
            if rr is not None and rr[0] != z3.sat:
                rr = None       # `unsat` under the extra pins proves nothing
        if rr is not None:
            r, s = rr
            if r == z3.unsat:
                ob.verdict = "proved"
                ob.time = time.time() - t0
                _canary(ob)
                return
    # 2. relevance filtering (sound: proving from FEWER premises) keeps noisy nonlinear / library facts that share
    #    no symbol with the goal out of the solver's way
    if r == z3.unknown and len(ob.assumptions) > 12:
        tried = set()
        for rounds in (10 ** 6, 2, 1):
            sub = relevant(ob.assumptions, to_z3(goal), rounds)
            if len(sub) == len(ob.assumptions) or len(sub) in tried:
                continue
            tried.add(len(sub))
            r0, _ = attempt(sub, min(timeout_s, 2) * 1000)   # proofs that exist are found at once; do not linger
            if r0 == z3.unsat:
                ob.verdict = "proved"
                ob.time = time.time() - t0
                _canary(ob)
                return
    if r == z3.unknown:
        # refutation from the goal-relevant premises only: the premises dropped here share NO uninterpreted symbol
        # (transitively) with the goal and the kept premises, so a model of the kept part extends to a model of
        # everything whenever the dropped part is satisfiable on its own - and if it is not, the path is dead and the
        # obligation vacuous (checked: a provably unsatisfiable dropped part cancels the refutation)
        sub = relevant(ob.assumptions, to_z3(goal), 10 ** 6)
        if len(sub) < len(ob.assumptions):
            r4, s4 = attempt(sub, min(timeout_s, 10) * 1000)
            if r4 == z3.unknown:
                s4 = _solver(min(timeout_s, 10) * 1000)
                lens = set()
                for a in sub + [to_z3(goal)]:
                    _collect_lens(a, lens)
                for a in sub:
                    s4.add(a)
                s4.add(z3.Not(to_z3(goal)))
                for nm in lens:
                    s4.add(z3.Int(nm) <= 2)
                r4 = s4.check()
                if r4 != z3.sat:
                    r4 = z3.unknown
            if r4 == z3.sat:
                kept = {a.get_id() for a in sub if is_z3(a)}
                sd = _solver(3000)
                for a in ob.assumptions:
                    if is_z3(a) and a.get_id() not in kept:
                        sd.add(a)
                if sd.check() != z3.unsat:
                    r, s = r4, s4
                    # a fuller witness: add the quantifier-free dropped premises (path conditions) back
                    s5 = _solver(5000)
                    for a in ob.assumptions:
                        if is_z3(a) and (a.get_id() in kept or not _has_quantifier(a)):
                            s5.add(a)
                    s5.add(z3.Not(to_z3(goal)))
                    if s5.check() == z3.sat:
                        s = s5
            elif r4 == z3.unsat:
                r = z3.unsat
    if r == z3.unknown:
        # refutation attempt in a small scope: bound every symbolic length by 2 (extra constraints can only
        # remove models, so a `sat` here is a genuine counter-model of the original VC)
        s3 = _solver(min(timeout_s, 10) * 1000)
        lens = set()
        for a in ob.assumptions + [to_z3(goal)]:
            _collect_lens(a, lens)
        for a in ob.assumptions:
            s3.add(a)
        s3.add(z3.Not(to_z3(goal)))
        for nm in lens:
            s3.add(z3.Int(nm) <= 2)
        r3 = s3.check()
        if r3 == z3.sat:
            r, s = r3, s3
    # 3. everything, full budget (after the cheap refutation attempts)
    if r == z3.unknown and timeout_s > 4:
        r, s = attempt(ob.assumptions, timeout_s * 1000)
    if r == z3.unknown and timeout_s > 4 and len(ob.assumptions) > 12:
        sub = relevant(ob.assumptions, to_z3(goal), 2)
        if len(sub) < len(ob.assumptions):
            r0, _ = attempt(sub, timeout_s * 1000)
            if r0 == z3.unsat:
                r = z3.unsat
    if r == z3.unknown and use_cvc5:
        try:
            res = cvc5_check(s.to_smt2().replace("(check-sat)", "") + "\n(check-sat)\n", timeout_s)
        except Exception:  # noqa: BLE001
            res = "unknown"
        if res == "unsat":
            ob.verdict, ob.backend = "proved", "cvc5-1.0.3"
            ob.time = time.time() - t0
            return
    ob.time = time.time() - t0
    if r == z3.unsat:
        ob.verdict = "proved"
        _canary(ob)
    elif r == z3.sat:
        ob.verdict = "refuted"
        ob.model = s.model()
    else:
        ob.verdict = "unknown"
        ob.detail = s.reason_unknown()


def _nonlinear_factors(exprs):
    """Ground real-valued terms that occur as a factor of a product of two non-constant terms or as a divisor."""
    out, seen = {}, set()
    todo = list(exprs)
    while todo:
        x = todo.pop()
        if x.get_id() in seen:
            continue
        seen.add(x.get_id())
        if z3.is_quantifier(x):
            continue            # only ground occurrences can be pinned
        if z3.is_app(x):
            k = x.decl().kind()
            args = x.children()
            cand = []
            if k == z3.Z3_OP_MUL:
                nc = [a for a in args if not (z3.is_int_value(a) or z3.is_rational_value(a))]
                if len(nc) >= 2:
                    cand = nc
            elif k in (z3.Z3_OP_DIV, z3.Z3_OP_IDIV, z3.Z3_OP_MOD) and len(args) == 2 and \
                    not (z3.is_int_value(args[1]) or z3.is_rational_value(args[1])):
                cand = [args[1]]
            for a in cand:
                if z3.is_real(a) and z3.is_app(a) and a.decl().kind() == z3.Z3_OP_UNINTERPRETED:
                    out[a.get_id()] = a
            todo.extend(args)
    return list(out.values())


def _is_nonlinear(e):
    """Does e contain a product of two non-constant terms or a division / modulo by a non-constant?"""
    todo, seen = [e], set()
    while todo:
        x = todo.pop()
        if x.get_id() in seen:
            continue
        seen.add(x.get_id())
        if z3.is_quantifier(x):
            todo.append(x.body())
            continue
        if z3.is_app(x):
            k = x.decl().kind()
            args = x.children()
            if k == z3.Z3_OP_MUL and len([a for a in args if not (z3.is_int_value(a) or z3.is_rational_value(a))]) >= 2:
                return True
            if k in (z3.Z3_OP_DIV, z3.Z3_OP_IDIV, z3.Z3_OP_MOD) and len(args) == 2 and \
                    not (z3.is_int_value(args[1]) or z3.is_rational_value(args[1])):
                return True
            todo.extend(args)
    return False


def _refine(assumptions, goal, budget_s, linearise=False):
    from .rel import EXT
    prem = [a for a in assumptions if is_z3(a)]
    pins = []
    if linearise:
        # counter-model search only: real factors of non-linear products are tried at the value 1 (a constraint that can
        # only remove models) - the remaining arithmetic is linear and the solver answers at once
        pins = [t == 1 for t in _nonlinear_factors(prem + [goal])][:12]
        if not pins:
            return None
    # start from the quantifier-free premises next to the goal; quantified ones join when the model found needs them
    #  (non-linear ones stay out too unless the goal itself is non-linear: with the quantified hints below they make the
    #   very first query undecidable for the solver; a model that falsifies one brings it in)
    goal_nl = _is_nonlinear(goal)
    keep = {a.get_id() for a in relevant(prem, goal, 1) if not _has_quantifier(a) and (goal_nl or not _is_nonlinear(a))}
    deadline = time.time() + budget_s * load_factor()
    # concrete interpretations of some library functions (sound for refutation: they only remove models)
    allsyms = set(symbols(goal))
    for a in prem:
        allsyms |= symbols(a)
    hints_all = [(names, h) for names, h in _lib2.REFUTE_HINTS if any(nm in allsyms for nm in names)]
    hints = [h for _n, h in hints_all]

    def solve(extra=()):
        left = deadline - time.time()
        if left <= 0.2:
            return None, None
        sv = _solver(int(min(left, 4) * 1000))
        insyms = set(symbols(goal))
        for a in prem:
            if a.get_id() in keep:
                sv.add(a)
                insyms |= symbols(a)
        for a in extra:
            sv.add(a)
            insyms |= symbols(a)
        # (only for functions the query mentions: a quantified definition of a function with no ground occurrence sends
        #  the solver's model-based instantiation into a loop)
        hinted = False
        for names, h in hints_all:
            if any(nm in insyms for nm in names):
                sv.add(h)
                hinted = True
        for h in pins:
            sv.add(h)
        sv.add(z3.Not(goal))
        r_ = sv.check()
        if r_ == z3.unsat and (hinted or pins):
            r_ = z3.unknown      # `unsat` under EXTRA constraints proves nothing
        return r_, sv

    dbg = os.environ.get("PYVC_DEBUG_REFINE")
    if dbg == "2":
        print("[refine] GOAL", str(goal)[:600].replace("\n", " "), file=sys.stderr)
    for _it in range(60):
        r, sv = solve()
        if dbg:
            print(f"[refine] it={_it} keep={len(keep)}/{len(prem)} -> {r} left={deadline - time.time():.1f}s "
                  f"{sv.reason_unknown() if r == z3.unknown else ''}", file=sys.stderr)
        if dbg == "2" and r == z3.unknown:
            for a in prem:
                if a.get_id() in keep:
                    print("[refine] P", " ".join(str(a).split())[:700], file=sys.stderr)
        if r == z3.unsat:
            return z3.unsat, sv
        if r != z3.sat:
            return None
        m = sv.model()
        try:
            m0 = m.translate(z3.main_ctx())    # (evaluation WITH completion below adds default interpretations to m)
        except z3.Z3Exception:
            return None
        interp = {d.name() for d in m0.decls()}
        # --- every premise left out is PARTIALLY evaluated: the model's values are substituted, what remains (the
        #     residue) speaks only of symbols the model does not interpret.  True: satisfied whatever those symbols
        #     are.  False: the premise joins the solved part.  Otherwise the residues are grouped by shared symbols and
        #     each group is decided on its own: the union of the model with one model per group satisfies every
        #     premise and the negated goal - a genuine counter-model.
        false_ones, items, unclean = [], [], []
        for a in prem:
            if a.get_id() in keep:
                continue
            try:
                ra = m0.eval(a, model_completion=False)
            except z3.Z3Exception:
                unclean.append(a)
                continue
            if z3.is_true(ra):
                continue
            if z3.is_false(ra):
                false_ones.append(a)
                continue
            sy = set(symbols(ra))
            if sy & interp:
                unclean.append(a)      # (the evaluator left an interpreted symbol in place: decided with the solved part)
            else:
                items.append((a, ra, sy))
        if dbg:
            print(f"[refine]   false={len(false_ones)} residues={len(items)} unclean={len(unclean)}", file=sys.stderr)
        if false_ones:
            for a in false_ones:
                keep.add(a.get_id())
            continue
        groups = []
        for it_ in items:
            merged = [g for g in groups if g[1] & it_[2]]
            ng = ([it_], set(it_[2]))
            for g in merged:
                ng[0].extend(g[0])
                ng[1].update(g[1])
                groups.remove(g)
            groups.append(ng)
        undecided, added = list(unclean), False
        for g_items, g_syms in groups:
            # (i) every member holds under the model completed with default values for the group's symbols; in a large
            #     group the members that are FALSE under those defaults join the solved part (the next model is built
            #     around them) instead of handing the whole group to the solver
            try:
                vals = [m.eval(a, model_completion=True) for a, _r, _s in g_items]
                if all(z3.is_true(v) for v in vals):
                    continue
                fl = [a for (a, _r, _s), v in zip(g_items, vals) if z3.is_false(v)]
                if fl and len(g_items) > 6:
                    for a in fl:
                        keep.add(a.get_id())
                    added = True
                    if dbg:
                        print(f"[refine]   group of {len(g_items)}: {len(fl)} false under default completion join", file=sys.stderr)
                    continue
            except z3.Z3Exception:
                pass
            # (ii) the group is one family of library facts characterising fresh symbols (conservative extension) and
            #      nothing else mentions those symbols
            ents = [EXT.get(a.get_id()) for a, _r, _s in g_items]
            if all(e is not None and e[0].eq(a) and e[1] for e, (a, _r, _s) in zip(ents, g_items)):
                fresh_syms = set().union(*[e[1] for e in ents])
                if not (fresh_syms & interp) and g_syms <= fresh_syms:
                    continue
            # (iii) the solver decides the group
            left = deadline - time.time()
            if left <= 0.3:
                undecided.extend(a for a, _r, _s in g_items)
                continue
            sd = _solver(int(min(left, 2) * 1000))
            sd.set("smt.macro_finder", True)     # residues are full of quantified DEFINITIONS of fresh functions
            tags = {}
            for k_, (a, ra, _s) in enumerate(g_items):
                t_ = z3.Bool(f"__res{k_}")
                tags[t_.get_id()] = a
                sd.assert_and_track(ra, t_)
            for names, h in hints_all:
                if any(nm in g_syms for nm in names):
                    sd.add(h)
            # an injective integer-valued dictionary: the identity is one (extra constraints only lose models; an
            # unsatisfiable core found with them merely sends premises to the solved part)
            for (a, ra, _s) in g_items:
                for fd in _get_functions(ra):
                    x_ = z3.Int("hint_gx")
                    sd.add(z3.ForAll([x_], fd(x_) == x_))
            rr_ = sd.check()
            if dbg:
                print(f"[refine]   residue group of {len(g_items)}: {rr_}", file=sys.stderr)
                if rr_ == z3.unknown and dbg == "4":
                    for a, ra, _s in g_items:
                        print("[refine]     R:", " ".join(str(ra).split())[:900], file=sys.stderr)
            if rr_ == z3.unsat:
                core = [tags[c_.get_id()] for c_ in sd.unsat_core() if c_.get_id() in tags]
                for a in (core or [a for a, _r, _s in g_items]):
                    keep.add(a.get_id())
                added = True
            elif rr_ != z3.sat:
                undecided.extend(a for a, _r, _s in g_items)
        if added:
            continue
        if not undecided:
            # the counter-model exists (the solved part, one model per residue group); for the WITNESS try to get it as
            # one model: every premise, the scalar values of the solved part pinned (a short, easy query); without it
            # the witness shows the solved part only (values of symbols decided in a group are then defaults)
            try:
                sf = _solver(3000)
                for a in prem:
                    sf.add(a)
                sf.add(z3.Not(goal))
                for d in m0.decls():
                    if d.arity() == 0 and d.range().kind() in (z3.Z3_INT_SORT, z3.Z3_REAL_SORT, z3.Z3_BOOL_SORT):
                        sf.add(d() == m0[d])
                for names, h in hints_all:
                    if any(nm in allsyms for nm in names):
                        sf.add(h)
                if sf.check() == z3.sat:
                    return z3.sat, sf
            except z3.Z3Exception:
                pass
            return z3.sat, sv
        # (c) premises of undecided groups join the solved part - one at a time: a single premise the solver cannot
        #     handle must not hide the others
        progressed = False
        for a in sorted(undecided, key=lambda x: len(str(x))):
            r2, _ = solve(extra=[a])
            if r2 == z3.sat or r2 == z3.unsat:
                keep.add(a.get_id())
                progressed = True
                if r2 == z3.unsat:
                    break
        if not progressed:
            return None
    return None


def _get_functions(e):
    """Function symbols `<dict>#get : Int -> Int` occurring in e."""
    out, todo, seen = {}, [e], set()
    while todo:
        x = todo.pop()
        if x.get_id() in seen:
            continue
        seen.add(x.get_id())
        if z3.is_quantifier(x):
            todo.append(x.body())
            continue
        if z3.is_app(x):
            d = x.decl()
            if d.kind() == z3.Z3_OP_UNINTERPRETED and d.name().endswith("#get") and d.arity() == 1 and \
                    d.domain(0) == z3.IntSort() and d.range() == z3.IntSort():
                out[d.name()] = d
            todo.extend(x.children())
    return list(out.values())


def _has_quantifier(e):
    todo, seen = [e], set()
    while todo:
        x = todo.pop()
        if x.get_id() in seen:
            continue
        seen.add(x.get_id())
        if z3.is_quantifier(x):
            return True
        todo.extend(x.children())
    return False


from .rel import relevant, symbols  # noqa: E402,F401


_len_cache: dict = {}


def _collect_lens(e, out):
    k = e.get_id()
    if k in _len_cache:
        out |= _len_cache[k][1]
        return
    mine = set()
    todo, seen = [e], set()
    while todo:
        x = todo.pop()
        i = x.get_id()
        if i in seen:
            continue
        seen.add(i)
        if z3.is_quantifier(x):
            todo.append(x.body())
            continue
        if z3.is_const(x) and x.decl().kind() == z3.Z3_OP_UNINTERPRETED and z3.is_int(x):
            nm = x.decl().name()
            if "#len" in nm or "#s0" in nm or "#s1" in nm or "#s2" in nm or "#s3" in nm:
                mine.add(nm)
        todo.extend(x.children())
    _len_cache[k] = (e, mine)
    out |= mine


# ------------------------------------------------------------------------------------------------ model -> JSON

def concretize(v, model, st, depth=0):
    """Turn a symbolic input value into a plain Python/JSON value under a z3 model."""
    def ev(e):
        return model.eval(to_z3(e), model_completion=True)

    if v is NONE:
        return None
    if isinstance(v, (bool, int, float)):
        return v
    if is_z3(v):
        r = ev(v)
        if z3.is_true(r):
            return True
        if z3.is_false(r):
            return False
        if z3.is_int_value(r):
            return r.as_long()
        if z3.is_rational_value(r):
            num, den = r.numerator_as_long(), r.denominator_as_long()
            return {"$frac": [num, den], "float": num / den}
        if z3.is_algebraic_value(r):
            return {"$approx": float(r.approx(20).as_fraction())}
        return str(r)
    if isinstance(v, VStr):
        if v.text is not None:
            return v.text
        sid = ev(v.sid).as_long()
        return str_of_id(sid) or f"$str{sid}"
    if isinstance(v, VClass):
        if isinstance(v.name, str):
            return {"$class": v.name}
        sid = ev(v.name).as_long()
        return {"$class": str_of_id(sid) or f"$cls{sid}"}
    if isinstance(v, Opt):
        if z3.is_true(ev(v.is_none)):
            return None
        return concretize(v.val, model, st, depth)
    if isinstance(v, VTuple):
        return [concretize(x, model, st, depth + 1) for x in v.items]
    if isinstance(v, Ref) and v.what == "arr":
        v = st.heap[v.rid]
    if isinstance(v, Arr):
        dims = []
        for s in v.shape:
            d = s if isinstance(s, int) else ev(s).as_long()
            dims.append(max(0, min(d, {1: 12, 2: 5}.get(len(v.shape), 2))))

        def build(prefix, k):
            if k == len(dims):
                try:
                    return concretize(v.elem(*prefix), model, st, depth + 1)
                except Unsupported:
                    return "?"
            return [build(prefix + [i], k + 1) for i in range(dims[k])]
        return build([], 0)
    if isinstance(v, Obj):
        out = {"$obj": v.cls}
        if depth < 3:
            for f, fv in st.heap.get(v.oid, {}).items():
                try:
                    out[f] = concretize(fv, model, st, depth + 1)
                except Exception:  # noqa: BLE001
                    out[f] = "?"
        return out
    if isinstance(v, Opaque):
        return {"$opaque": str(ev(v.term)), "cls": v.cls}
    if type(v).__name__ == "Disk":
        # the content the checkpoint folder held BEFORE the function ran (only what the execution looked at)
        out = {}
        for k, val in list(v.init.items()):
            if k[0] == "exists":
                out.setdefault(k[1], {})["exists"] = concretize(val, model, st, depth + 1)
            elif k[0] == "content":
                kind, payload = val[0], val[1]
                ent = out.setdefault(k[1], {})
                ent["kind"] = kind
                try:
                    if kind == "h5":
                        ent["datasets"] = {ds: concretize(a, model, st, depth + 1) for ds, a in payload.items()}
                    elif kind in ("json", "csv"):
                        ent["items"] = {kk: concretize(x, model, st, depth + 1) for kk, x in payload.items.items()}
                    else:
                        ent["value"] = concretize(payload, model, st, depth + 1)
                except Exception as e:  # noqa: BLE001
                    ent["error"] = str(e)
        return {"$disk": out}
    if isinstance(v, Ref) and v.what == "dict":
        d = st.heap[v.rid]
        out = {}
        from .values import _interned
        for s_, sid in _interned.items():
            if z3.is_true(ev(d.has(sid))):
                out[s_] = concretize(d.get(sid), model, st, depth + 1)
        return {"$dict": out}
    return f"<{type(v).__name__}>"


def _witness(ob, pre):
    try:
        w = {k: concretize(v, ob.model, pre) for k, v in pre.env.items() if not k.startswith("$")}
        if pre.ghost:
            w["$ghost"] = {k: concretize(v, ob.model, pre) for k, v in pre.ghost.items()}
        return w
    except Exception as e:  # noqa: BLE001
        return {"$error": f"model extraction failed: {e}"}


def parallel_discharge(obs, timeout_s, pre, jobs=None, chunk=8):
    """Fork-parallel discharge.  Children inherit the symbolic structures (copy-on-write), solve a chunk of
    obligations each and report verdict + witness through a JSON file."""
    import json as _json
    jobs = jobs or int(os.environ.get("PYVC_JOBS", "12"))
    tmpdir = tempfile.mkdtemp(prefix="pyvc_ob_", dir=os.environ.get("PYVC_TMP"))
    pending = []
    only = os.environ.get("PYVC_ONLY")      # diagnosis: discharge only the obligations whose name contains this
    for i, ob in enumerate(obs):
        ob.witness = None
        if only and only not in ob.name:
            ob.verdict, ob.backend = "proved", "skipped-by-PYVC_ONLY"
            continue
        if isinstance(ob.goal, bool) and ob.goal:
            ob.verdict, ob.backend = "proved", "eval"
        else:
            pending.append((i, ob))
    running = {}
    settled = {}  # group name -> 'refuted' | 'unknown'
    use_cvc5 = os.environ.get("VERIF_TIER") == "thorough"

    def reap():
        try:
            pid, _status = os.waitpid(-1, 0)
        except ChildProcessError:
            running.clear()
            return
        if pid not in running:
            return
        batch = running.pop(pid)
        path = os.path.join(tmpdir, f"{pid}.json")
        try:
            res = _json.load(open(path))
            os.unlink(path)
        except Exception:  # noqa: BLE001
            res = {}
        for i, ob in batch:
            d = res.get(str(i))
            if d is None:
                ob.verdict, ob.backend, ob.time, ob.detail, ob.witness = "unknown", None, 0.0, "solver process died", None
            else:
                ob.verdict, ob.backend, ob.time, ob.detail, ob.witness = (d["verdict"], d["backend"], d["time"],
                                                                          d["detail"], d["witness"])
            if ob.verdict == "refuted":
                settled[ob.name] = "refuted"
            elif ob.verdict == "unknown" and ob.name not in settled:
                settled[ob.name] = "unknown"

    while pending or running:
        while pending and len(running) < jobs:
            batch, pending = pending[:chunk], pending[chunk:]
            snap = dict(settled)
            pid = os.fork()
            if pid == 0:
                out = {}
                try:
                    for i, ob in batch:
                        if snap.get(ob.name) == "refuted":
                            out[str(i)] = {"verdict": "skipped", "backend": None, "time": 0.0,
                                           "detail": "group already refuted", "witness": None}
                            continue
                        # budget: once something is refuted (the function is violated anyway) or this group already
                        # timed out once, the remaining instances get a short budget - keeps violating runs fast
                        t_ob = 3 if ("refuted" in snap.values() or snap.get(ob.name) == "unknown") else timeout_s
                        discharge(ob, t_ob, use_cvc5=use_cvc5)
                        w = None
                        if ob.verdict == "refuted":
                            w = _witness(ob, pre)
                            z3.set_option(max_depth=6, max_args=8, max_lines=12, max_width=100)
                            ob.detail = "goal: " + str(ob.goal)[:400]
                            snap[ob.name] = "refuted"
                        elif ob.verdict == "unknown":
                            snap.setdefault(ob.name, "unknown")
                        out[str(i)] = {"verdict": ob.verdict, "backend": ob.backend, "time": ob.time,
                                       "detail": ob.detail, "witness": w}
                    _json.dump(out, open(os.path.join(tmpdir, f"{os.getpid()}.json"), "w"), default=str)
                finally:
                    os._exit(0)
            running[pid] = batch
        if running:
            reap()
    try:
        os.rmdir(tmpdir)
    except OSError:
        pass


# ------------------------------------------------------------------------------------------------ function verification

class FunctionResult:
    def __init__(self, key):
        self.key = key
        self.status = "ok"  # ok | undecided | missing | crash
        self.reason = ""
        self.groups = {}  # name -> dict(verdict, backend, time, kind, line, instances, witness)
        self.outcomes = 0
        self.feasible_outcomes = 0
        self.lib_used = []
        self.time = 0.0
        self.props = []


def init_self(I: Interp, st: State, cls: str, is_init: bool, reg):
    obj = st.new_obj(cls)
    if not is_init:
        for c in I.repo.mro(cls) or [cls]:
            spec = reg["classes"].get(c)
            if spec:
                for f, t in spec.fields.items():
                    if f not in st.heap[obj.oid]:
                        st.heap[obj.oid][f] = fresh(t, f"{cls}.{f}", st, I)
    return obj


def class_invariants(I: Interp, cls: str, reg):
    out = []
    for c in I.repo.mro(cls) or [cls]:
        spec = reg["classes"].get(c)
        if spec:
            out += spec.invariant
    return out


def facets_of(key, reg):
    """Names of the facets that occur in the contract, the loop invariants and the statement contracts of a function."""
    out = set()
    c = reg["contracts"].get(key)
    if c is not None and getattr(c, "only_facet", None):
        return []          # verified once, in that facet's pass (verify_function switches to it)
    if c is not None:
        for e in list(c.ensures) + list(c.exit_ensures):
            f = getattr(e, "facet", None)
            if f:
                out.add(f)
    for (k, _lid), inv in reg["invariants"].items():
        if k == key:
            out |= {getattr(e, "facet", None) for e in inv.inv} - {None}
    for sc in reg["stmts"].get(key, []):
        if getattr(sc, "facet", None):
            out.add(sc.facet)
    return sorted(out)


def verify_function(key: str, repo: Repo, reg, timeout_s=20, facet=None) -> FunctionResult:
    res = FunctionResult(key)
    t0 = time.time()
    c = reg["contracts"][key]
    res.props = c.props
    info = repo.get_function(key)
    if info is None and key in reg.get("ghost_functions", {}):
        info = (key.split("::")[0], None, reg["ghost_functions"][key])    # specification-only composition
    if info is None:
        res.status, res.reason = "missing", f"{key} not found in the repository source"
        return res
    module, cls, fn = info
    sink = Sink(key)
    if getattr(c, "only_facet", None):
        facet = c.only_facet
        sink.facet_all = True
    sink.facet = facet
    I = Interp(repo, reg, sink)
    I.facet = facet
    I.facet_all = sink.facet_all
    lib.USED.clear()
    # decorators other than the structural ones replace the function by something else (a cache, a retry loop, ...): what
    # is verified here is the BODY, so the function as callers see it is undecided
    for d_ in getattr(fn, "decorator_list", []):
        dn = ast.unparse(d_)
        if dn in ("property", "staticmethod", "classmethod", "abstractmethod", "abc.abstractmethod",
                  "contextlib.contextmanager", "contextmanager", "overload", "typing.overload") or dn.endswith(".setter"):
            continue
        res.status = "undecided"
        res.reason = f"unsupported: decorator @{dn[:60]} (the decorated function is not the body that is verified)"
        res.time = time.time() - t0
        return res
    # a statement contract whose statement is gone (edited, moved into a helper ...) must not vanish silently: the function
    # is UNDECIDED, like a loop whose invariant no longer matches its iterable
    texts = None
    stale = []
    for sc in reg["stmts"].get(key, []):
        if texts is None:
            texts = {ast.unparse(n).replace(" ", "").replace("\n", "") for n in ast.walk(fn) if isinstance(n, ast.stmt)}
        if sc.match.replace(" ", "").replace("\n", "") not in texts and (getattr(sc, "facet", None) == facet):
            stale.append(sc)
    try:
        st = State()
        decos = getattr(fn, "_decos", [])
        is_static = "staticmethod" in decos
        is_init = fn.name == "__init__"
        env = {}
        formal_names = [a.arg for a in fn.args.posonlyargs + fn.args.args + fn.args.kwonlyargs]
        if fn.args.vararg:
            formal_names.append(fn.args.vararg.arg)
        if fn.args.kwarg:
            formal_names.append(fn.args.kwarg.arg)
        for name, t in c.params.items():
            if name not in formal_names:
                raise Unsupported(f"contract parameter {name!r} is not a parameter of {key} any more")
            env[name] = fresh(t, name, st, I)
        for name in formal_names:
            if name in ("self", "cls"):
                continue
            if name not in env:
                env[name] = Opaque(z3.Const(fresh_name(name), z3.DeclareSort("Obj")), None)
        selfcls = c.self_type or cls
        if cls is not None and not is_static:
            if "classmethod" in decos:
                env["cls"] = VClass(selfcls)
            else:
                env["self"] = init_self(I, st, selfcls, is_init, reg)
        st.env = env
        for g, t in reg["ghosts"].items():
            st.ghost[g] = fresh(t, "ghost." + g, st, I)
        for g, (t, init) in c.ghost.items():
            st.ghost[g] = fresh(t, "ghost." + g, st, I) if init is None else None
        I.frame = Frame(module, cls, fn, c, None)
        for g, (t, init) in c.ghost.items():
            if init is not None:
                st.ghost[g] = I.eval_src(init, st)
        invs = class_invariants(I, selfcls, reg) if (cls is not None and not is_static and "classmethod" not in decos) else []
        if not is_init:
            for src in invs:
                st.assume(I.contract_truth(src, st))
            if cls is not None and not is_static and "classmethod" not in decos:
                for c_ in I.repo.mro(selfcls) or [selfcls]:
                    spec_ = reg["classes"].get(c_)
                    for src in (getattr(spec_, "ghost_link", []) if spec_ else []):
                        st.assume(I.contract_truth(src, st))
        for src in c.requires + c.ghost_requires:
            st.assume(I.contract_truth(src, st))
        pre = st.fork()
        I.frame.pre = pre
        vs = z3.Solver()
        vs.set("timeout", 4000)
        for a_ in st.assumptions():
            vs.add(a_)
        if vs.check() == z3.unsat:
            res.status, res.reason = "vacuous", "precondition + class invariant unsatisfiable"
            return res
        body = [b for b in fn.body]
        outcomes = I.exec_block(body, st)
        res.outcomes = len(outcomes)
        for o in outcomes:
            check_outcome(I, o, c, pre, invs, fn, selfcls if "self" in env else None)
            if I.feasible(o.state, 3000):
                res.feasible_outcomes += 1
    except Unsupported as e:
        res.status, res.reason = "undecided", f"unsupported: {e}"
        res.time = time.time() - t0
        return res
    except RecursionError as e:
        res.status, res.reason = "undecided", f"recursion: {e}"
        return res
    res.lib_used = sorted(lib.USED)
    if res.feasible_outcomes == 0:
        res.status, res.reason = "vacuous", "no feasible execution path reaches an exit"
    # discharge (fork-parallel: children inherit the symbolic structures, so they can also build the witness)
    parallel_discharge(sink.obs, timeout_s, pre)
    for ob in sink.obs:
        g = res.groups.setdefault(ob.name, {"verdict": "proved", "backend": set(), "time": 0.0, "kind": ob.kind,
                                            "lines": [], "instances": 0, "witness": None, "detail": ""})
        g["instances"] += 1
        if ob.line and ob.line not in g["lines"]:
            g["lines"].append(ob.line)
        g["time"] += ob.time
        g["backend"].add(ob.backend)
        if ob.verdict == "dead":
            g["dead"] = g.get("dead", 0) + 1
            continue
        if ob.verdict == "skipped":
            continue
        if ob.verdict == "refuted":
            if ob.line and ob.line not in g.setdefault("refuted_lines", []):
                g["refuted_lines"].append(ob.line)
            if g["verdict"] != "refuted":
                g["verdict"] = "refuted"
                g["witness"] = ob.witness
                g["detail"] = ob.detail
        elif ob.verdict == "unknown" and g["verdict"] == "proved":
            g["verdict"] = "unknown"
            g["detail"] = ob.detail
    for sc in stale:
        # (reported as an undecided obligation of its own - the rest of the function is verified as usual, so a change to
        #  that very statement can still be refuted through the obligations that depend on it)
        res.groups[f"{key}/A/{sc.label}#stale"] = {
            "verdict": "unknown", "backend": set(), "time": 0.0, "kind": "A", "lines": [], "instances": 1, "witness": None,
            "detail": f"stale statement contract: the function has no statement `{sc.match[:100]}` any more"}
    for g in res.groups.values():
        g["backend"] = sorted(b for b in g["backend"] if b)
        if g.get("dead", 0) == g["instances"]:
            g["verdict"] = "vacuous"
            g["detail"] = "every instance of this obligation sits on a path whose premises are unsatisfiable"
    res.time = time.time() - t0
    return res


def check_outcome(I: Interp, o: Outcome, c, pre: State, invs, fn, selfcls):
    st = o.state
    node = fn
    if o.kind in ("break", "continue"):
        raise Unsupported("break/continue escaping the function body")
    # in a contract a PARAMETER name denotes the argument the caller passed (its current content, if it is a mutable
    # object), not whatever the body may have re-bound the local name to (`y = np.copy(y)`)
    for pname in c.params:
        if pname in pre.env:
            st.env[pname] = pre.env[pname]
    if o.kind in ("normal", "return"):
        val = o.value if o.kind == "return" else NONE
        st.env["result"] = val if val is not None else NONE
        # (1) no raises-clause may be applicable
        for k, ent in enumerate(c.raises):
            w = I.contract_truth(_in_pre(ent["when"]), st)
            I.oblige(st, znot(w), "X", f"returns-only-if-not[{_ename(ent)}]", node)
        # (2) postconditions
        ens = c.exit_ensures if c.is_cm else c.ensures
        for i, e in enumerate(ens):
            if not I.clause_due(e):
                continue
            lbl = c.labels.get(i, f"post#{i}")
            I.oblige(st, I.contract_truth(e, st), "F", lbl, node)
        for lbl, e in (c.claims.items() if not c.is_cm else ()):
            I.oblige(st, I.contract_truth(e, st), "F", lbl, node)
        # (3) class invariant re-established
        if selfcls is not None:
            for i, src in enumerate(invs):
                I.oblige(st, I.contract_truth(src, st), "F", f"class-inv#{i}", node)
        check_frame(I, c, pre, st, node)
        return
    # exceptional exit
    exc: Exc = o.value
    st.env["exc"] = exc
    matched = False
    earlier = []
    conds = []
    # an exception a callee MAY let escape (its may_raise) that the caller's own may_raise covers is not measured against
    # the caller's ordered raises-clauses: those say when the caller itself must raise that class
    passthrough = getattr(exc, "from_may_raise", False) and isinstance(exc.cls, str) and \
        any(I.repo.exc_is_subclass(exc.cls, m) for m in c.may_raise)
    for ent in ([] if passthrough else c.raises):
        w = I.contract_truth(_in_pre(ent["when"]), st)
        same = _exc_is(I, exc, ent, st)
        cond = zand(w, *[znot(e) for e in earlier])
        earlier.append(w)
        if isinstance(same, bool) and not same:
            continue
        matched = True
        conds.append((ent, zand(same, cond)))
    if matched:
        # some raises-entry of this class must be the applicable one (entries are ordered)
        I.oblige(st, zor(*[cnd for _, cnd in conds]), "X", f"raise-allowed[{_ename(conds[0][0])}]", node)
        for ent, cnd in conds:
            for i, e in enumerate(ent.get("ensures", [])):
                g = I.contract_truth(e, st)
                I.oblige(st, g if len(conds) == 1 else zimplies(cnd, g), "X",
                         f"raise-payload[{_ename(ent)}#{i}]", node)
    if not matched:
        if isinstance(exc.cls, str) and any(I.repo.exc_is_subclass(exc.cls, m) for m in c.may_raise):
            if c.is_cm:
                for i, e in enumerate(c.exit_ensures):
                    I.oblige(st, I.contract_truth(e, st), "X", f"exit-post-on-exception#{i}", node)
            for i, e in enumerate(c.exc_ensures):
                I.oblige(st, I.contract_truth(e, st), "X", f"exception-safety#{i}", node)
            if selfcls is not None and c.exc_ensures:
                for i, src in enumerate(invs):
                    I.oblige(st, I.contract_truth(src, st), "X", f"class-inv-on-exception#{i}", node)
            return
        I.oblige(st, False, "X", f"no-unexpected-exception[{exc.cls}]", node)


def _in_pre(src):
    return f"old({src})"


def _ename(ent):
    return ent["exc"] if isinstance(ent["exc"], str) else "?"


def _exc_is(I, exc, ent, st):
    e = ent["exc"]
    if e in I.repo.classes or e in ("ValueError", "TypeError", "KeyError", "RuntimeError", "AssertionError",
                                    "Exception", "NotImplementedError", "BodyException", "IndexError"):
        if isinstance(exc.cls, str):
            return exc.cls == e
        return False
    v = I.eval_old(parse_expr(e), st)
    if isinstance(v, VClass):
        return I.equal(VClass(exc.cls), v, st)
    return False


def _covered_sets(I: Interp, c, pre: State):
    """Evaluate the modifies-clause in the PRE state -> covered (oid, field) pairs / object ids / cell ids / ghosts."""
    fields, objs, cells, ghosts = set(), set(), set(), set()
    s = pre.fork()
    saved = I.frame
    I.in_contract += 1
    try:
        for m in list(c.modifies) + (list(c.exit_modifies) if c.is_cm else []):
            m = m.strip()
            contents = m.endswith("[*]")
            star = m.endswith(".*")
            src = m[:-3] if contents else (m[:-2] if star else m)
            node = parse_expr(src)
            if isinstance(node, ast.Attribute) and isinstance(node.value, ast.Name) and node.value.id == "ghost":
                ghosts.add(node.attr)
                continue
            if star:
                v = I.eval(node, s)
                v = v.val if isinstance(v, Opt) else v
                if isinstance(v, Obj):
                    objs.add(v.oid)
                continue
            if contents or isinstance(node, ast.Name):
                v = I.eval(node, s)
                v = v.val if isinstance(v, Opt) else v
                if isinstance(v, Ref):
                    cells.add(v.rid)
                elif isinstance(v, Obj):
                    objs.add(v.oid)
                if contents:
                    continue
            if isinstance(node, ast.Attribute):
                b = I.eval(node.value, s)
                b = b.val if isinstance(b, Opt) else b
                if isinstance(b, Obj):
                    fields.add((b.oid, I.mangle(node.attr, I.frame.cls if I.frame else None)))
                    fields.add((b.oid, node.attr))
    finally:
        I.in_contract -= 1
        I.frame = saved
    return fields, objs, cells, ghosts


def check_frame(I: Interp, c, pre: State, st: State, node):
    """`modifies` is checked, not assumed: every pre-existing location outside it must be unchanged at exit."""
    fields, objs, cells, ghosts = _covered_sets(I, c, pre)
    is_init = c.key.endswith(".__init__")
    seen = set()

    def walk(v0, path, depth):
        if isinstance(v0, Opt):
            v0 = v0.val
        if isinstance(v0, Obj):
            if v0.oid in seen or depth > 3:
                return
            seen.add(v0.oid)
            f0 = pre.heap.get(v0.oid, {})
            f1 = st.heap.get(v0.oid, {})
            for f, old in f0.items():
                new = f1.get(f)
                sub = f"{path}.{_unmangle(f)}"
                if new is None or not _same(old, new):
                    if v0.oid in objs or (v0.oid, f) in fields:
                        continue
                    I.oblige(st, _val_equal(I, st, pre, old, new), "M", f"frame[{sub}]", node)
                else:
                    walk(old, sub, depth + 1)
        elif isinstance(v0, Ref):
            if v0.rid in seen:
                return
            seen.add(v0.rid)
            if pre.heap.get(v0.rid) is not st.heap.get(v0.rid):
                if v0.rid in cells:
                    return
                I.oblige(st, _cell_equal(I, st, pre.heap[v0.rid], st.heap[v0.rid]), "M", f"frame[{path}[*]]", node)

    for name, v0 in pre.env.items():
        if name.startswith("$"):
            continue
        if is_init and name == "self":
            continue
        walk(v0, name, 0)
    # stores into fields of FOREIGN (opaque) objects: each one outside the modifies clause must leave the field as it was
    log0, log1 = pre.heap.get("$opq", {}), st.heap.get("$opq", {})
    if log1 is not log0:
        covered = _covered_opaque(I, c, pre)
        for attr, entries in log1.items():
            for term, val in entries[len(log0.get(attr, [])):]:
                if isinstance(term, str):
                    I.oblige(st, False, "M", f"frame[<foreign objects>.{attr}]", node)   # written in a loop: any object
                    continue
                if any(a in (attr, "*") and t.eq(term) for t, a in covered):
                    continue
                cls = st.heap.get("$opq_cls", {}).get(term.get_id())
                try:
                    oldv = I.opaque_attr(Opaque(term, cls), attr, pre)
                    goal = I.equal(oldv, val, st)
                except Unsupported:
                    goal = False
                I.oblige(st, goal, "M", f"frame[<foreign object>.{attr}]", node)
    # ghost variables are specification state: no frame obligation for them


def _covered_opaque(I: Interp, c, pre: State):
    """(object term | None for `.*`-less wildcard, field) pairs of foreign objects named by the modifies clause."""
    out = []
    s = pre.fork()
    I.in_contract += 1
    try:
        for m in c.modifies:
            m = m.strip()
            if m.endswith("[*]"):
                continue
            star = m.endswith(".*")
            node = parse_expr(m[:-2] if star else m)
            try:
                if star:
                    v = I.eval(node, s)
                    v = v.val if isinstance(v, Opt) else v
                    if isinstance(v, Opaque):
                        out.append((v.term, "*"))
                elif isinstance(node, ast.Attribute):
                    b = I.eval(node.value, s)
                    b = b.val if isinstance(b, Opt) else b
                    if isinstance(b, Opaque):
                        out.append((b.term, node.attr))
            except Unsupported:
                continue
    finally:
        I.in_contract -= 1
    return out      # (term, field) with field '*' = every field of that object


def _unmangle(f):
    if f.startswith("_") and "__" in f[1:]:
        i = f.index("__", 1)
        return f[i:]
    return f


def _val_equal(I, st, pre, old, new):
    if new is None:
        return False
    if isinstance(old, Ref) and isinstance(new, Ref):
        if old.what == "arr" and new.what == "arr":
            return _cell_equal(I, st, pre.heap[old.rid], st.heap[new.rid])
        return False
    try:
        return I.equal(old, new, st)
    except Unsupported:
        return False


def _cell_equal(I, st, a, b):
    if not (isinstance(a, Arr) and isinstance(b, Arr)) or a.ndim != b.ndim:
        return False
    idx = [z3.Int(fresh_name("fr")) for _ in range(a.ndim)]
    rng = zand(*[zand(i >= 0, i < to_z3(n)) for i, n in zip(idx, a.shape)])
    shape_eq = zand(*[to_z3(x) == to_z3(y) for x, y in zip(a.shape, b.shape)])
    try:
        eq = I.equal(a.elem(*idx), b.elem(*idx), st)
    except Unsupported:
        return False
    return zand(shape_eq, z3.ForAll(idx, z3.Implies(to_z3(rng), to_z3(eq))))


def verify_lemma(name, reg, repo, timeout_s=20):
    """A lemma over contracts only: typed variables, assumptions, goal - all contract expressions."""
    lm = reg["lemmas"][name]
    res = FunctionResult(name)
    res.props = lm.props
    t0 = time.time()
    sink = Sink(name)
    I = Interp(repo, reg, sink)
    try:
        st = State()
        I.frame = Frame("<lemma>", None, None, None, None)
        for v, t in lm.vars.items():
            st.env[v] = fresh(t, v, st, I)
        for a in lm.assumes:
            st.assume(I.contract_truth(a, st))
        pre = st.fork()
        I.frame.pre = pre
        sink.oblige(st, I.contract_truth(lm.goal, st), "L", "lemma", None, None)
    except Unsupported as e:
        res.status, res.reason = "undecided", f"unsupported: {e}"
        return res
    res.outcomes = res.feasible_outcomes = 1
    parallel_discharge(sink.obs, timeout_s, pre)
    for ob in sink.obs:
        res.groups[ob.name] = {"verdict": ob.verdict if ob.verdict != "dead" else "vacuous", "backend": [ob.backend],
                               "time": ob.time, "kind": "L", "lines": [], "instances": 1, "witness": ob.witness,
                               "detail": ob.detail}
    res.time = time.time() - t0
    return res
