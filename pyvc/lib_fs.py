"""Ghost model of the checkpoint folder ("disk") and assumed contracts of the persistence libraries.

The disk is specification-only state `ghost.disk`: a finite map  file name -> content.  Content kinds
    ("json",   CDict)            json.dump / json.load          (arrays come back as nested lists)
    ("pickle", value)            pickle.dump / pickle.load      (the object comes back observably equal: identity here)
    ("csv",    CDict)            DataFrame.to_csv / pd.read_csv (columns by name; key families f"prefix{d}")
    ("h5",     {dataset: Arr})   h5py File / Dataset            (create_dataset, resize, slice assignment, read)
    ("empty",)                   a file just truncated by open("w")
Every model below is an ASSUMPTION about a dependency (codec round trips included) and is listed in the evidence.

The content a file had BEFORE the verified function started is unknown: it is generated lazily, typed by the schema
declared in the sidecar (api.disk_schema), and shared by all states of one verification run, so that `old(...)` and the
current state talk about the same previous content.  This is how "whatever the saving folder held before" is
quantified over.
"""
from __future__ import annotations

import ast

import z3

from . import lib
from .lib import used
from .values import (NONE, Arr, CDict, ObjS, Opaque, Opt, Ref, Unsupported, VStr, VTuple, fresh_name, is_num, is_z3,
                     to_z3)

SCHEMA: dict = {}   # file -> {key or "prefix{}" -> type string}   (filled from api.REG["disk_schema"])


class Disk:
    """Persistent (functional) map leaf -> content, with a shared lazily-populated initial content."""

    def __init__(self, files=None, init=None, tag=None):
        self.files = dict(files or {})
        self.init = init if init is not None else {}
        self.tag = tag or fresh_name("disk")

    def put(self, leaf, content):
        f = dict(self.files)
        f[leaf] = content
        return Disk(f, self.init, self.tag)

    def exists(self, leaf):
        if leaf in self.files:
            return True
        k = ("exists", leaf)
        if k not in self.init:
            self.init[k] = z3.Bool(f"{self.tag}.exists[{leaf}]")
        return self.init[k]

    def content(self, leaf, kind, I, st):
        if leaf in self.files:
            c = self.files[leaf]
            if c[0] != kind:
                raise Unsupported(f"file {leaf} holds {c[0]} content, read as {kind}")
            return c
        k = ("content", leaf, kind)
        if k not in self.init:
            nf = len(st.facts)
            c = _initial_content(self, leaf, kind, I, st)
            # the typing facts of the initial content (non-negative shapes, ...) belong to the content, not to the
            # state that happened to look first: every state that reads it gets them
            self.init[k] = c
            self.init[("facts", leaf, kind)] = list(st.facts[nf:])
            return c
        facts = self.init.get(("facts", leaf, kind), [])
        if facts:
            have = {g.get_id() for g in st.facts if is_z3(g)}
            for f in facts:
                if not (is_z3(f) and f.get_id() in have):
                    st.fact(f)
        return self.init[k]


def _typed_fresh(I, st, t, name):
    from .engine import fresh
    v = fresh(t, name, st, I)
    if isinstance(v, Ref) and v.what == "arr":
        return st.heap[v.rid]
    return v


def _initial_content(disk, leaf, kind, I, st):
    sch = SCHEMA.get(leaf)
    if sch is None:
        raise Unsupported(f"no disk schema declared for file {leaf}")
    if kind in ("json", "csv"):
        items, fam = {}, {}
        for key, t in sch.items():
            if key.endswith("{}"):
                prefix = key[:-2]
                nm = f"{disk.tag}.{leaf}.{prefix}"
                has = z3.Function(nm + "#has", z3.IntSort(), z3.BoolSort())
                if not t.startswith("arr1["):
                    raise Unsupported("disk schema: key family of non arr1 type")
                real = t[5:-1] == "real"
                lf = z3.Function(nm + "#len", z3.IntSort(), z3.IntSort())
                ef = z3.Function(nm + "#el", z3.IntSort(), z3.IntSort(), z3.RealSort() if real else z3.IntSort())
                q = z3.Int(fresh_name("q"))
                st.fact(z3.ForAll([q], lf(q) >= 0))

                def get(e, t=t, lf=lf, ef=ef):
                    # one symbolic array family: shape and elements are functions of the family index
                    ez = to_z3(e)
                    return Arr((lf(ez),), lambda i: ef(ez, to_z3(i)), kind="ndarray", etype=t[5:-1])
                fam[prefix] = ((lambda e, has=has: has(to_z3(e))), get)
            else:
                items[key] = _typed_fresh(I, st, t, f"{disk.tag}.{leaf}.{key}")
        return (kind, CDict(items, fam))
    if kind == "pickle":
        t = sch.get("", "opaque")
        return ("pickle", _typed_fresh(I, st, t, f"{disk.tag}.{leaf}"))
    if kind == "h5":
        return ("h5", {ds: _typed_fresh(I, st, t, f"{disk.tag}.{leaf}.{ds}") for ds, t in sch.items()})
    raise Unsupported(f"initial content of kind {kind}")


def get_disk(I, st) -> Disk:
    if "disk" not in st.ghost:
        fr = I.frame
        if fr is not None and fr.pre is not None and "disk" in fr.pre.ghost:
            # a state that has not touched the disk yet still sees the content the function started with
            st.ghost["disk"] = fr.pre.ghost["disk"]
        else:
            d = Disk()
            st.ghost["disk"] = d
            if fr is not None and fr.pre is not None:
                fr.pre.ghost["disk"] = d
    return st.ghost["disk"]


def set_disk(st, d):
    st.ghost["disk"] = d


# ------------------------------------------------------------------------------------------------ pathlib

def _leaf_of(v):
    if isinstance(v, Opaque) and v.cls == "Path":
        return getattr(v, "_leaf", None)
    if isinstance(v, VStr) and v.text is not None:
        return v.text
    return None


def mk_path(root, leaf):
    o = Opaque(root, "Path")
    o._leaf = leaf   # type: ignore[attr-defined]
    return o


def path_ctor(I, st, args, kw, node):
    used("pathlib.Path: a folder handle; `p / name` names the file `name` in it; resolve() keeps the folder")
    v = args[0]
    if isinstance(v, Opt):
        I.safety(st, z3.Not(to_z3(v.is_none)), "path-not-None", node)
        v = v.val
    if isinstance(v, Opaque) and v.cls == "Path":
        return v
    if isinstance(v, Opaque):
        return mk_path(v.term, None)
    if isinstance(v, VStr):
        root = z3.Function("path_of_str", z3.IntSort(), ObjS)(to_z3(v.sid))
        return mk_path(root, None)
    raise Unsupported("Path() of " + type(v).__name__)


def path_div(I, st, a: Opaque, b):
    if isinstance(b, VStr) and b.text is not None and getattr(a, "_leaf", None) is None:
        return mk_path(a.term, b.text)
    raise Unsupported("path / <non-constant or nested name>")


def p_exists(I, st, recv, args, kw, node):
    leaf = getattr(recv, "_leaf", None)
    if leaf is None:
        return z3.Bool(fresh_name("folder_exists"))
    return get_disk(I, st).exists(leaf)


def p_mkdir(I, st, recv, args, kw, node):
    return NONE


def p_resolve(I, st, recv, args, kw, node):
    return recv


def _mode_of(args, kw, pos=0):
    m = kw.get("mode", args[pos] if len(args) > pos else None)
    if m is None or m is NONE:
        return "r"
    if isinstance(m, VStr) and m.text is not None:
        return m.text
    raise Unsupported("symbolic file mode")


def p_open(I, st, recv, args, kw, node):
    used("Path.open(mode): 'w'/'wb' truncates the file at once; the handle names the file")
    leaf = getattr(recv, "_leaf", None)
    if leaf is None:
        raise Unsupported("open() of a folder")
    mode = _mode_of(args, kw)
    f = Opaque(z3.Const(fresh_name("file"), ObjS), "File")
    f._leaf, f._mode = leaf, mode   # type: ignore[attr-defined]
    if mode.startswith("w"):
        set_disk(st, get_disk(I, st).put(leaf, ("empty",)))
    elif mode.startswith("r") and not I.in_contract:
        I.safety(st, get_disk(I, st).exists(leaf), "file-exists", node)
    return f


# ------------------------------------------------------------------------------------------------ json / pickle

def _snapshot(I, st, v):
    """Deep, immutable copy of a value as it is serialised."""
    if isinstance(v, Ref) and v.what == "arr":
        return st.heap[v.rid]
    if isinstance(v, Ref) and v.what == "cdict":
        d = st.heap[v.rid]
        return CDict({k: _snapshot(I, st, x) for k, x in d.items.items()}, d.fam)
    return v


def json_dump(I, st, args, kw, node):
    used("json.dump(obj, f, cls=NumpyArrayEncoder) / json.load(f): the dict comes back with equal values (ints exact, "
         "floats through repr, arrays as nested lists)")
    obj, f = args[0], args[1]
    if not (isinstance(f, Opaque) and f.cls == "File" and f._mode.startswith("w")):
        raise Unsupported("json.dump to a handle not opened for writing")
    if not (isinstance(obj, Ref) and obj.what == "cdict"):
        raise Unsupported("json.dump of a non-literal dict")
    set_disk(st, get_disk(I, st).put(f._leaf, ("json", _snapshot(I, st, obj))))
    return NONE


def _listify(v):
    if isinstance(v, Arr) and v.kind == "ndarray":
        return Arr(v.shape, v.elem, kind="list", etype=v.etype)
    return v


def json_load(I, st, args, kw, node):
    f = args[0]
    if not (isinstance(f, Opaque) and f.cls == "File" and f._mode.startswith("r")):
        raise Unsupported("json.load from a handle not opened for reading")
    _, cd = get_disk(I, st).content(f._leaf, "json", I, st)
    out = CDict({k: _listify(v) for k, v in cd.items.items()}, cd.fam)
    return st.alloc(out, "cdict")


def pickle_dump(I, st, args, kw, node):
    used("pickle.dump(obj, f) / pickle.load(f): the object comes back with the same observable state (identity in the model)")
    obj, f = args[0], args[1]
    if not (isinstance(f, Opaque) and f.cls == "File" and f._mode == "wb"):
        raise Unsupported("pickle.dump to a handle not opened 'wb'")
    set_disk(st, get_disk(I, st).put(f._leaf, ("pickle", obj)))
    return NONE


def pickle_load(I, st, args, kw, node):
    f = args[0]
    if not (isinstance(f, Opaque) and f.cls == "File" and f._mode == "rb"):
        raise Unsupported("pickle.load from a handle not opened 'rb'")
    return get_disk(I, st).content(f._leaf, "pickle", I, st)[1]


# ------------------------------------------------------------------------------------------------ pandas

def df_from_dict(I, st, args, kw, node):
    used("pd.DataFrame.from_dict(d).to_csv(path) / pd.read_csv(path, float_precision='round_trip'): columns come back "
         "by name with equal values (ints exact, floats exact with the round-trip parser)")
    d = args[0]
    if not (isinstance(d, Ref) and d.what == "cdict"):
        raise Unsupported("DataFrame.from_dict of a non-literal dict")
    o = Opaque(z3.Const(fresh_name("df"), ObjS), "DataFrame")
    o._cols = _snapshot(I, st, d)   # type: ignore[attr-defined]
    return o


def df_to_csv(I, st, recv, args, kw, node):
    p = args[0] if args else kw.get("path_or_buf")
    leaf = _leaf_of(p)
    if leaf is None:
        raise Unsupported("to_csv to an unnamed file")
    if kw and set(kw) - {"path_or_buf"} or len(args) > 1:
        # (float_format= / na_rep= / columns= / header= ... change the text that read_csv gets back)
        raise Unsupported(f"DataFrame.to_csv with options outside the modelled call to_csv(path): {sorted(kw)}")
    set_disk(st, get_disk(I, st).put(leaf, ("csv", recv._cols)))
    return NONE


def pd_read_csv(I, st, args, kw, node):
    leaf = _leaf_of(args[0])
    if leaf is None:
        raise Unsupported("read_csv of an unnamed file")
    fp = kw.get("float_precision")
    if not (isinstance(fp, VStr) and fp.text == "round_trip"):
        raise Unsupported("pd.read_csv without float_precision='round_trip' does not return the stored floats exactly")
    other = sorted(set(kw) - {"float_precision"})
    if other or len(args) != 1:
        # (na_filter=False brings NaN back as text, dtype= / converters= / usecols= change what is returned ...)
        raise Unsupported(f"pd.read_csv with options outside the modelled call read_csv(path, float_precision='round_trip'): {other}")
    if not I.in_contract:
        I.safety(st, get_disk(I, st).exists(leaf), "file-exists", node)
    o = Opaque(z3.Const(fresh_name("df"), ObjS), "DataFrame")
    o._cols = get_disk(I, st).content(leaf, "csv", I, st)[1]   # type: ignore[attr-defined]
    return o


def df_getitem(I, st, base, sl, node):
    k = I.eval(sl, st)
    cd = base._cols
    if isinstance(k, VStr) and k.text is not None:
        if k.text not in cd.items:
            I.safety(st, False, "column-present", node)
            raise Unsupported("missing column")
        return cd.items[k.text]
    if isinstance(k, VStr) and k.fparts is not None and k.fparts[0] in cd.fam:
        has, get = cd.fam[k.fparts[0]]
        I.safety(st, has(to_z3(k.fparts[1])), "column-present", node)
        return get(to_z3(k.fparts[1]))
    raise Unsupported("DataFrame column with a symbolic name")


# ------------------------------------------------------------------------------------------------ h5py

def h5_file(I, st, args, kw, node):
    used("h5py.File(path, mode) / create_dataset / Dataset.shape, resize, slice assignment, read: a named n-d array "
         "per dataset; mode 'w' starts from an empty file; resize keeps the overlapping block, new cells unspecified")
    leaf = _leaf_of(args[0])
    if leaf is None:
        raise Unsupported("h5py.File of an unnamed file")
    mode = _mode_of(args, kw, 1)
    f = Opaque(z3.Const(fresh_name("h5file"), ObjS), "H5File")
    f._leaf, f._mode = leaf, mode   # type: ignore[attr-defined]
    if mode == "w":
        set_disk(st, get_disk(I, st).put(leaf, ("h5", {})))
    elif mode in ("a", "r", "r+"):
        if not I.in_contract:
            I.safety(st, get_disk(I, st).exists(leaf) if mode != "a" else True, "h5-file-exists", node)
    else:
        raise Unsupported(f"h5py mode {mode}")
    return f


def _h5_sets(I, st, leaf):
    return dict(get_disk(I, st).content(leaf, "h5", I, st)[1])


def h5_getitem(I, st, base, sl, node):
    k = I.eval(sl, st)
    if not (isinstance(k, VStr) and k.text is not None):
        raise Unsupported("h5 dataset with a symbolic name")
    sets = _h5_sets(I, st, base._leaf)
    if k.text not in sets:
        I.safety(st, False, "h5-dataset-present", node)
        raise Unsupported("missing dataset")
    d = Opaque(z3.Const(fresh_name("h5ds"), ObjS), "H5Dataset")
    d._leaf, d._name, d._mode = base._leaf, k.text, base._mode   # type: ignore[attr-defined]
    return d


def h5_create_dataset(I, st, recv, args, kw, node):
    name = kw.get("name", args[0] if args else None)
    data = kw.get("data")
    if not (isinstance(name, VStr) and name.text is not None) or data is None:
        raise Unsupported("create_dataset without constant name / data")
    if recv._mode not in ("w", "a", "r+"):
        raise Unsupported("create_dataset on a read-only file")
    a = I.arr_of(data, st)
    sets = _h5_sets(I, st, recv._leaf)
    sets[name.text] = Arr(a.shape, a.elem, kind="ndarray", etype=a.etype)
    set_disk(st, get_disk(I, st).put(recv._leaf, ("h5", sets)))
    d = Opaque(z3.Const(fresh_name("h5ds"), ObjS), "H5Dataset")
    d._leaf, d._name, d._mode = recv._leaf, name.text, recv._mode   # type: ignore[attr-defined]
    return d


def _ds_arr(I, st, d) -> Arr:
    return _h5_sets(I, st, d._leaf)[d._name]


def ds_shape(I, st, base):
    return VTuple(list(_ds_arr(I, st, base).shape))


def ds_resize(I, st, recv, args, kw, node):
    new = args[0]
    if not isinstance(new, VTuple):
        raise Unsupported("Dataset.resize(size, axis)")
    if recv._mode not in ("w", "a", "r+"):
        raise Unsupported("resize on a read-only file")
    old = _ds_arr(I, st, recv)
    if len(new.items) != old.ndim:
        I.safety(st, False, "resize-keeps-rank", node)
        raise Unsupported("resize changes the rank")
    filler = z3.Function(fresh_name("h5fill"), *([z3.IntSort()] * old.ndim), z3.RealSort())

    def elem(*idx):
        inside = z3.And(*[to_z3(i) < to_z3(n) for i, n in zip(idx, old.shape)])
        return lib._ite_val(inside, old.elem(*idx), filler(*[to_z3(i) for i in idx]))
    sets = _h5_sets(I, st, recv._leaf)
    sets[recv._name] = Arr(tuple(new.items), elem, kind="ndarray", etype=old.etype)
    set_disk(st, get_disk(I, st).put(recv._leaf, ("h5", sets)))
    return NONE


def ds_getitem(I, st, base, sl, node):
    a = _ds_arr(I, st, base)
    out = lib.arr_getitem(I, st, a, sl, node)
    if isinstance(out, Arr):
        return st.alloc(Arr(out.shape, out.elem, kind="ndarray", etype=out.etype), "arr")   # a read copies
    return out


def ds_setitem(I, st, base, sl, val, node):
    """data[lo:hi] = block  (first-axis slice assignment)"""
    if base._mode not in ("w", "a", "r+"):
        raise Unsupported("write to a read-only file")
    if not isinstance(sl, ast.Slice) or sl.step is not None:
        raise Unsupported("h5 dataset assignment other than data[lo:hi] = block")
    old = _ds_arr(I, st, base)
    lo, ln = lib._slice_bounds(I, st, sl, old.shape[0])
    V = I.arr_of(val, st)
    if V.ndim != old.ndim:
        I.safety(st, False, "shapes-compatible", node)
        raise Unsupported("rank mismatch in dataset assignment")
    lib._dims_equal(I, st, ln, V.shape[0], node)
    for x, y in zip(old.shape[1:], V.shape[1:]):
        lib._dims_equal(I, st, x, y, node)
    loz, lnz = to_z3(lo), to_z3(ln)

    def elem(*idx):
        i = to_z3(idx[0])
        return lib._ite_val(z3.And(i >= loz, i < loz + lnz), V.elem(i - loz, *idx[1:]), old.elem(*idx))
    sets = _h5_sets(I, st, base._leaf)
    sets[base._name] = Arr(old.shape, elem, kind="ndarray", etype=old.etype)
    set_disk(st, get_disk(I, st).put(base._leaf, ("h5", sets)))


# ------------------------------------------------------------------------------------------------ generator state

_BGSTATE = z3.Function("bit_generator_state", z3.IntSort(), ObjS)      # generator state -> state mapping object
_BGSTATE_INV = z3.Function("bit_generator_state_inv", ObjS, z3.IntSort())


def bit_generator_of(I, st, rng):
    used("Generator.bit_generator.state: a value that determines, and is determined by, the generator state "
         "(reading it and assigning it back restores the generator)")
    o = Opaque(z3.Const(fresh_name("bitgen"), ObjS), "BitGenerator")
    o._rng = rng   # type: ignore[attr-defined]
    return o


def bg_state_get(I, st, base):
    s = to_z3(st.heap[base._rng.oid]["state"])
    t = _BGSTATE(s)
    st.fact(_BGSTATE_INV(t) == s)
    return Opaque(t, None)


def bg_state_set(I, st, base, val):
    if not isinstance(val, Opaque):
        raise Unsupported("bit_generator.state := non-state value")
    s = _BGSTATE_INV(val.term)
    st.fact(_BGSTATE(s) == val.term)     # the assigned value is a generator state (h5/json codec hands it back)
    st.heap[base._rng.oid]["state"] = s


# ------------------------------------------------------------------------------------------------ contract vocabulary

def _name_arg(v):
    if isinstance(v, VStr) and v.text is not None:
        return v.text
    raise Unsupported("disk_*: the file name must be a string constant")


def c_disk_exists(I, st, a, k, n):
    return get_disk(I, st).exists(_name_arg(a[0]))


def c_disk_json(I, st, a, k, n):
    _, cd = get_disk(I, st).content(_name_arg(a[0]), "json", I, st)
    key = _name_arg(a[1])
    if key not in cd.items:
        raise Unsupported(f"disk_json: key {key} not in the file (and not in its schema)")
    return cd.items[key]


def c_disk_json_has(I, st, a, k, n):
    _, cd = get_disk(I, st).content(_name_arg(a[0]), "json", I, st)
    return _name_arg(a[1]) in cd.items


def c_disk_pickle(I, st, a, k, n):
    return get_disk(I, st).content(_name_arg(a[0]), "pickle", I, st)[1]


def c_disk_csv(I, st, a, k, n):
    _, cd = get_disk(I, st).content(_name_arg(a[0]), "csv", I, st)
    key = a[1]
    if isinstance(key, VStr) and key.text is not None:
        if key.text not in cd.items:
            raise Unsupported(f"disk_csv: column {key.text} not in the file")
        return cd.items[key.text]
    if isinstance(key, VStr) and key.fparts is not None and key.fparts[0] in cd.fam:
        return cd.fam[key.fparts[0]][1](to_z3(key.fparts[1]))
    raise Unsupported("disk_csv: column name")


def c_disk_csv_has(I, st, a, k, n):
    _, cd = get_disk(I, st).content(_name_arg(a[0]), "csv", I, st)
    key = a[1]
    if isinstance(key, VStr) and key.text is not None:
        return key.text in cd.items
    if isinstance(key, VStr) and key.fparts is not None:
        fam = cd.fam.get(key.fparts[0])
        return fam[0](to_z3(key.fparts[1])) if fam else False
    raise Unsupported("disk_csv_has: column name")


def c_disk_h5(I, st, a, k, n):
    sets = _h5_sets(I, st, _name_arg(a[0]))
    ds = _name_arg(a[1])
    if ds not in sets:
        raise Unsupported(f"disk_h5: dataset {ds} not in the file")
    return sets[ds]


def c_disk_kind(I, st, a, k, n):
    """disk_kind(name): the kind of content last written in this execution ('json' | 'pickle' | 'csv' | 'h5' | 'empty'),
    or 'unwritten'."""
    d = get_disk(I, st)
    leaf = _name_arg(a[0])
    return VStr.const(d.files[leaf][0] if leaf in d.files else "unwritten")


# ------------------------------------------------------------------------------------------------ registration

lib.LIB.update({
    "Path": path_ctor, "pathlib.Path": path_ctor,
    "json.dump": json_dump, "json.load": json_load, "pickle.dump": pickle_dump, "pickle.load": pickle_load,
    "pd.DataFrame.from_dict": df_from_dict, "pd.read_csv": pd_read_csv, "h5py.File": h5_file,
})
lib.OPAQUE_METHODS.update({
    "Path": {"exists": p_exists, "mkdir": p_mkdir, "resolve": p_resolve, "open": p_open},
    "DataFrame": {"to_csv": df_to_csv},
    "H5File": {"create_dataset": h5_create_dataset},
    "H5Dataset": {"resize": ds_resize},
})
lib.OPAQUE_GETITEM.update({"DataFrame": df_getitem, "H5File": h5_getitem, "H5Dataset": ds_getitem})
lib.OPAQUE_SETITEM.update({"H5Dataset": ds_setitem})
lib.OPAQUE_ATTRS.update({"H5Dataset": {"shape": ds_shape}, "BitGenerator": {"state": bg_state_get}})
lib.OPAQUE_SETATTR = dict(getattr(lib, "OPAQUE_SETATTR", {}), **{"BitGenerator": {"state": bg_state_set}})
lib.BUILTIN_FUNCS.update({
    "disk_exists": c_disk_exists, "disk_json": c_disk_json, "disk_json_has": c_disk_json_has,
    "disk_pickle": c_disk_pickle, "disk_csv": c_disk_csv, "disk_csv_has": c_disk_csv_has, "disk_h5": c_disk_h5,
    "disk_kind": c_disk_kind,
})
lib.VALUE_METHODS.setdefault("to_numpy", lib.m_copy)


# ================================================================================================ sqlite3
# Ghost model of ONE database file: a COMMITTED state (what a new connection - e.g. after a crash or a failed save -
# sees) and the PENDING state of the open transaction.  Python's sqlite3 in its default (legacy) transaction mode:
#   * INSERT / UPDATE / DELETE / REPLACE implicitly open a transaction; commit() publishes it, rollback() and close()
#     discard it;
#   * executescript() first COMMITS the pending transaction, then runs the script in autocommit mode;
#   * PRAGMA user_version=<n> outside a transaction takes effect at once; CREATE TABLE IF NOT EXISTS keeps the rows.
# Statements are recognised from the text of the module constant (a small SQL recogniser: PRAGMA user_version[=n],
# CREATE TABLE IF NOT EXISTS t(...), DELETE FROM t, INSERT INTO t (cols) VALUES (?,...), SELECT cols FROM t).
# Every statement may fail: each call forks an exceptional outcome (OperationalError) - this is the fault model of
# "an error occurs at any point while a checkpoint is being written".

import re as _re


class TState:
    def __init__(self, version, exists, nrows, first):
        self.version, self.exists, self.nrows, self.first = version, exists, nrows, first

    def copy(self, **kw):
        d = dict(version=self.version, exists=self.exists, nrows=self.nrows, first=self.first)
        d.update(kw)
        return TState(**d)


class DB:
    def __init__(self, committed, pending=None):
        self.committed, self.pending = committed, pending

    def visible(self):
        return self.pending if self.pending is not None else self.committed


SQL_LEAF_SCHEMA: dict = {}


def _initial_db(disk, leaf, I, st):
    sch = SCHEMA.get(leaf)
    if sch is None:
        raise Unsupported(f"no disk schema declared for database {leaf}")
    tag = f"{disk.tag}.{leaf}"
    n = z3.Int(tag + ".nrows")
    st.fact(n >= 0)
    first = {col: _typed_fresh(I, st, t, f"{tag}.{col}") for col, t in sch.items()}
    return ("sqlite", DB(TState(z3.Int(tag + ".user_version"), z3.Bool(tag + ".table_exists"), n, first)))


def _db(I, st, leaf) -> DB:
    d = get_disk(I, st)
    if leaf in d.files:
        return d.files[leaf][1]
    k = ("content", leaf, "sqlite")
    if k not in d.init:
        nf = len(st.facts)
        d.init[k] = _initial_db(d, leaf, I, st)
        d.init[("facts", leaf, "sqlite")] = list(st.facts[nf:])
    else:
        have = {g.get_id() for g in st.facts if is_z3(g)}
        for f in d.init.get(("facts", leaf, "sqlite"), []):
            if not (is_z3(f) and f.get_id() in have):
                st.fact(f)
    return d.init[k][1]


def _set_db(I, st, leaf, db):
    set_disk(st, get_disk(I, st).put(leaf, ("sqlite", db)))


def sqlite_connect(I, st, args, kw, node):
    used("sqlite3 (legacy transaction mode): DML opens a transaction, commit publishes, rollback / close discard, "
         "executescript commits first and runs in autocommit, PRAGMA user_version=n is immediate; registered ndarray "
         "adapters / converters and TEXT / INTEGER / BLOB columns hand back what was stored; every statement may fail")
    leaf = _leaf_of(args[0])
    if leaf is None:
        raise Unsupported("sqlite3.connect of an unnamed file")
    c = Opaque(z3.Const(fresh_name("conn"), ObjS), "SqlConnection")
    c._leaf = leaf   # type: ignore[attr-defined]
    _db(I, st, leaf)
    return c


def conn_cursor(I, st, recv, args, kw, node):
    cur = Opaque(z3.Const(fresh_name("cursor"), ObjS), "SqlCursor")
    cur._leaf, cur._row = recv._leaf, None   # type: ignore[attr-defined]
    return cur


def _sql_text(v):
    if isinstance(v, VStr) and v.text is not None:
        return " ".join(_re.sub(r"--[^\n]*", " ", v.text).split())
    raise Unsupported("SQL statement that is not a string constant")


def _fail(st):
    s2 = st.fork()
    return (s2, None, lib.Exc("OperationalError", ()))


def _begin(db: DB) -> TState:
    return db.pending if db.pending is not None else db.committed.copy()


def cur_execute(I, st, recv, args, kw, node, script=False):
    sql = _sql_text(args[0])
    params = args[1] if len(args) > 1 else None
    leaf = recv._leaf
    outs = [_fail(st)]          # the statement fails: nothing changed by it
    db = _db(I, st, leaf)
    up = sql.upper()
    res = Opaque(z3.Const(fresh_name("cursor"), ObjS), "SqlCursor")
    res._leaf, res._row = leaf, None   # type: ignore[attr-defined]
    if script:
        # executescript: COMMIT first, then autocommit
        base = db.visible()
        db = DB(base, None)
        if _db(I, st, leaf).pending is not None:
            # ... and it may fail after that implicit commit
            s_mid = st.fork()
            _set_db(I, s_mid, leaf, db)
            outs.append((s_mid, None, lib.Exc("OperationalError", ())))
        stmts = [x.strip() for x in sql.split(";") if x.strip()]
    else:
        stmts = [sql.rstrip(";").strip()]
    for stmt in stmts:
        u = stmt.upper()
        m = _re.fullmatch(r"PRAGMA USER_VERSION\s*=\s*(\d+)", u)
        if m:
            if db.pending is not None:
                db = DB(db.committed, db.pending.copy(version=int(m.group(1))))
            else:
                db = DB(db.committed.copy(version=int(m.group(1))), None)
            continue
        if u == "PRAGMA USER_VERSION":
            res._row = VTuple([db.visible().version])   # type: ignore[attr-defined]
            continue
        m = _re.fullmatch(r"CREATE TABLE IF NOT EXISTS (\w+)\s*\((.*)\)", stmt, _re.S | _re.I)
        if m:
            cols = [c.split()[0] for c in m.group(2).split(",") if c.split()]
            SQL_LEAF_SCHEMA.setdefault(leaf, cols)
            v = db.visible()
            nv = v.copy(exists=True, nrows=lib._ite_val(to_z3(v.exists), v.nrows, 0) if is_z3(v.exists) else
                        (v.nrows if v.exists else 0))
            # DDL through execute() in legacy mode does not open a transaction either: it is committed at once
            db = DB(nv, None) if db.pending is None else DB(db.committed, nv)
            continue
        m = _re.fullmatch(r"DELETE FROM (\w+)", stmt, _re.I)
        if m:
            v = _begin(db)
            if not I.in_contract:
                I.safety(st, v.exists, "sql-table-exists", node)
            if script:
                db = DB(v.copy(nrows=0), None)
            else:
                db = DB(db.committed, v.copy(nrows=0))
            continue
        m = _re.fullmatch(r"INSERT INTO (\w+)\s*\((.*?)\)\s*VALUES\s*\((.*)\)", stmt, _re.S | _re.I)
        if m:
            cols = [c.strip() for c in m.group(2).split(",")]
            nq = m.group(3).count("?")
            if not isinstance(params, VTuple) or len(params.items) != len(cols) or nq != len(cols):
                I.safety(st, False, "sql-parameter-count", node)
                raise Unsupported("INSERT parameter count")
            v = _begin(db)
            if not I.in_contract:
                I.safety(st, v.exists, "sql-table-exists", node)
            new = {c: _snapshot(I, st, p) for c, p in zip(cols, params.items)}
            known = SCHEMA.get(leaf, {})
            for c in cols:
                if c not in known:
                    I.safety(st, False, "sql-column-exists", node)
            empty = to_z3(v.nrows) == 0
            first = {}
            for c in set(v.first) | set(new):
                if c in new and c in v.first:
                    first[c] = _row_ite(empty, new[c], v.first[c])
                else:
                    first[c] = new.get(c, v.first.get(c))
            nv = v.copy(nrows=to_z3(v.nrows) + 1, first=first)
            db = DB(nv, None) if script else DB(db.committed, nv)
            continue
        m = _re.fullmatch(r"SELECT (.*?) FROM (\w+)", stmt, _re.S | _re.I)
        if m:
            cols = [c.strip() for c in m.group(1).split(",")]
            v = db.visible()
            if not I.in_contract:
                I.safety(st, v.exists, "sql-table-exists", node)
            for c in cols:
                if c not in v.first:
                    I.safety(st, False, "sql-column-exists", node)
                    raise Unsupported(f"unknown column {c}")
            res._row = VTuple([v.first[c] for c in cols])   # type: ignore[attr-defined]
            res._nrows = v.nrows   # type: ignore[attr-defined]
            continue
        raise Unsupported(f"SQL statement outside the recognised subset: {stmt[:60]}")
    _set_db(I, st, leaf, db)
    outs.append((st, res, None))
    return outs


def _row_ite(c, a, b):
    if isinstance(a, Arr) and isinstance(b, Arr):
        if isinstance(c, bool):
            return a if c else b
        return lib._ite_arr(c, a, b) if a.ndim == b.ndim else a
    try:
        return lib._ite_val(c, a, b)
    except Exception:  # noqa: BLE001
        return a


def cur_fetchone(I, st, recv, args, kw, node):
    row = getattr(recv, "_row", None)
    if row is None:
        raise Unsupported("fetchone() on a cursor without a result set")
    n = getattr(recv, "_nrows", None)
    if n is None:
        return row
    return Opt(to_z3(n) == 0, row)


def conn_commit(I, st, recv, args, kw, node):
    outs = [_fail(st)]
    db = _db(I, st, recv._leaf)
    if db.pending is not None:
        _set_db(I, st, recv._leaf, DB(db.pending, None))
    outs.append((st, NONE, None))
    return outs


def conn_rollback(I, st, recv, args, kw, node):
    db = _db(I, st, recv._leaf)
    if db.pending is not None:
        _set_db(I, st, recv._leaf, DB(db.committed, None))
    return NONE


def conn_close(I, st, recv, args, kw, node):
    db = _db(I, st, recv._leaf)
    if db.pending is not None:
        _set_db(I, st, recv._leaf, DB(db.committed, None))
    return NONE


# ---- byte-string codecs: loads(dumps(x)) is x ---------------------------------------------------------------------
_PICKLED = z3.Function("pickled", ObjS, ObjS)
_UNPICKLED = z3.Function("unpickled", ObjS, ObjS)
_JSONED = z3.Function("json_text", ObjS, ObjS)
_UNJSONED = z3.Function("json_value", ObjS, ObjS)


def _codec(enc, dec, name):
    def dumps(I, st, args, kw, node):
        used(f"{name}.dumps / {name}.loads: loads(dumps(x)) hands x back (identity of the observable state)")
        v = args[0]
        if isinstance(v, Opaque):
            t = enc(v.term)
            st.fact(dec(t) == v.term)
            o = Opaque(t, "bytes")
            o._of = v   # type: ignore[attr-defined]
            return o
        o = Opaque(z3.Const(fresh_name(name + "_bytes"), ObjS), "bytes")
        o._of = _snapshot(I, st, v)   # type: ignore[attr-defined]
        return o

    def loads(I, st, args, kw, node):
        v = args[0]
        if isinstance(v, Opaque) and getattr(v, "_of", None) is not None and not isinstance(v._of, Opaque):
            return v._of
        if isinstance(v, Opaque):
            return Opaque(dec(v.term), getattr(getattr(v, "_of", None), "cls", None) or getattr(v, "_decoded_cls", None))
        raise Unsupported(f"{name}.loads of a non-bytes value")
    return dumps, loads


_pd, _pl = _codec(_PICKLED, _UNPICKLED, "pickle")
_jd, _jl = _codec(_JSONED, _UNJSONED, "json")


def m_view(I, st, recv, args, kw, node):
    used("ndarray.view(subclass): the same array")
    return recv


# ---- contract vocabulary ----------------------------------------------------------------------------------------
_SQLF = "checkpoint.sqlite"


def c_sql(I, st, a, k, n):
    """disk_sql(column): the value of `column` in the first row of the COMMITTED table"""
    col = _name_arg(a[0])
    first = _db(I, st, _SQLF).committed.first
    if col not in first:
        raise Unsupported(f"disk_sql: unknown column {col}")
    return first[col]


lib.LIB.update({"sqlite3.connect": sqlite_connect, "pickle.dumps": _pd, "pickle.loads": _pl, "json.dumps": _jd,
                "json.loads": _jl})
lib.CONSTS["sqlite3.PARSE_DECLTYPES"] = 1
lib.OPAQUE_METHODS.update({
    "SqlConnection": {"cursor": conn_cursor, "commit": conn_commit, "rollback": conn_rollback, "close": conn_close},
    "SqlCursor": {"execute": cur_execute,
                  "executescript": lambda I, st, r, a, k, n: cur_execute(I, st, r, a, k, n, script=True),
                  "fetchone": cur_fetchone},
})
lib.VALUE_METHODS.setdefault("view", m_view)
lib.BUILTIN_FUNCS.update({
    "disk_sql": c_sql,
    "disk_sql_nrows": lambda I, st, a, k, n: _db(I, st, _SQLF).committed.nrows,
    "disk_sql_version": lambda I, st, a, k, n: _db(I, st, _SQLF).committed.version,
    "disk_sql_table": lambda I, st, a, k, n: _db(I, st, _SQLF).committed.exists,
    "disk_sql_pending": lambda I, st, a, k, n: _db(I, st, _SQLF).pending is not None,
})
