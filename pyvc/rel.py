"""Symbol-based relevance filtering of premises (sound for proving: fewer premises; sound for path pruning: a
satisfiable subset over-approximates feasibility)."""
import z3

_sym_cache: dict = {}


def symbols(e):
    k = e.get_id()
    if k in _sym_cache:
        return _sym_cache[k][1]
    out, todo, seen = set(), [e], set()
    while todo:
        x = todo.pop()
        i = x.get_id()
        if i in seen:
            continue
        seen.add(i)
        if z3.is_quantifier(x):
            todo.append(x.body())
            continue
        if z3.is_app(x) and x.decl().kind() == z3.Z3_OP_UNINTERPRETED:
            out.add(x.decl().name())
        todo.extend(x.children())
    _sym_cache[k] = (e, out)     # the expression is kept alive: z3 may reuse the id of a freed AST
    return out


def relevant(assumptions, goal, rounds):
    cur = set(symbols(goal))
    keep = [False] * len(assumptions)
    syms = [symbols(a) for a in assumptions]
    for _ in range(rounds):
        new = set()
        for i, sy in enumerate(syms):
            if not keep[i] and (sy & cur or not sy):
                keep[i] = True
                new |= sy
        if not new - cur:
            break
        cur |= new
    return [a for a, k in zip(assumptions, keep) if k]




# Library characterisations of FRESH symbols (e.g. the permutation np.argsort returns): conservative extensions - for
# every interpretation of the other symbols there is an interpretation of the fresh ones that satisfies them (that is
# the library's contract).  fact id -> (fact, frozenset of the fresh symbol names it characterises)
EXT: dict = {}


def ext_fact(st, f, fresh_syms):
    st.fact(f)
    EXT[f.get_id()] = (f, frozenset(fresh_syms))
