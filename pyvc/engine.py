"""pyvc symbolic executor: real Python AST -> verification conditions (part 1: expressions)."""
from __future__ import annotations

import ast

import z3

from .values import (
    NONE, Arr, BoundMethod, CDict, Closure, DictV, Exc, FuncV, Iter, ModuleV, Obj, ObjS, Opaque, Opt, Poison,
    Ref, State, Unsupported, VClass, VStr, VTuple, fresh_name, intern_str, is_boolish, is_num, is_z3, num_pair,
    to_real, to_z3, zand, zimplies, zite, znot, zor,
)

KNOWN_MODULES = {"queue", "np", "numpy", "time", "warnings", "textwrap", "threading", "itertools", "math", "json", "pickle",
                 "pd", "h5py", "sps", "sm", "op", "xgb", "kernels", "multiprocessing", "contextlib", "sqlite3",
                 "gzip", "io", "gym", "Path", "Parallel", "delayed", "betabinom"}
BUILTIN_EXC = {"ValueError", "TypeError", "KeyError", "IndexError", "AttributeError", "RuntimeError",
               "NotImplementedError", "AssertionError", "ZeroDivisionError", "Exception", "BaseException",
               "RuntimeWarning", "LinAlgError", "StopIteration", "OperationalError", "DatabaseError", "Error"}


class GhostNS:
    pass


GHOST = GhostNS()


class Outcome:
    def __init__(self, kind, state, value=None):
        self.kind = kind  # normal | return | raise | break | continue
        self.state = state
        self.value = value


def _expr(src: str) -> ast.expr:
    return ast.parse(src.strip(), mode="eval").body


_expr_cache: dict[str, ast.expr] = {}


def parse_expr(src: str) -> ast.expr:
    if src not in _expr_cache:
        _expr_cache[src] = _expr(src)
    return _expr_cache[src]


# ------------------------------------------------------------------------------------------------
# type strings -> fresh symbolic values
# ------------------------------------------------------------------------------------------------

def _zsort(t):
    return {"int": z3.IntSort(), "nat": z3.IntSort(), "pos": z3.IntSort(), "real": z3.RealSort(),
            "bool": z3.BoolSort(), "str": z3.IntSort(), "class": z3.IntSort()}.get(t, ObjS)


def fresh(t: str, name: str, st: State, eng=None):
    """Create a fresh symbolic value of the type described by t."""
    t = t.strip()
    nm = fresh_name(name)
    if t == "int":
        return z3.Int(nm)
    if t == "nat":
        v = z3.Int(nm)
        st.fact(v >= 0)
        return v
    if t == "pos":
        v = z3.Int(nm)
        st.fact(v >= 1)
        return v
    if t == "real":
        return z3.Real(nm)
    if t == "bool":
        return z3.Bool(nm)
    if t == "str":
        return VStr(z3.Int(nm))
    if t == "class":
        return VClass(z3.Int(nm))
    if t == "none":
        return NONE
    if t in ("any", "opaque"):
        return Opaque(z3.Const(nm, ObjS), None)
    if t.startswith("opaque:"):
        return Opaque(z3.Const(nm, ObjS), t.split(":", 1)[1])
    if t.startswith("obj:"):
        return st.new_obj(t.split(":", 1)[1])
    if t.startswith("opt[") and t.endswith("]"):
        return Opt(z3.Bool(nm + "?none"), fresh(t[4:-1], name, st, eng))
    if t.startswith("seq[") or t.startswith("list["):
        inner = t[t.index("[") + 1:-1]
        n = z3.Int(nm + "#len")
        st.fact(n >= 0)
        arr = Arr((n,), _fresh_elem(inner, nm, 1, st), kind="list", etype=inner)
        if t.startswith("list["):
            return st.alloc(arr, "arr")
        return arr
    if t.startswith("arr1[") or t.startswith("arr2[") or t.startswith("arr3[") or t.startswith("arr4["):
        nd = int(t[3])
        inner = t[5:-1]
        shape = []
        for d in range(nd):
            n = z3.Int(f"{nm}#s{d}")
            st.fact(n >= 0)
            shape.append(n)
        arr = Arr(tuple(shape), _fresh_elem(inner, nm, nd, st), kind="ndarray", etype=inner)
        return st.alloc(arr, "arr")
    if t.startswith("dict["):
        inner = t[5:-1]
        has = z3.Function(nm + "#has", z3.IntSort(), z3.BoolSort())
        get = z3.Function(nm + "#get", z3.IntSort(), _zsort(inner))
        size = z3.Int(nm + "#size")
        st.fact(size >= 0)
        return st.alloc(DictV(lambda k: has(_sid(k)), lambda k: _wrap(get(_sid(k)), inner), inner, size), "dict")
    if t == "emptydict":
        from .values import CDict
        return st.alloc(CDict({}), "cdict")
    if t == "disk":
        from .lib_fs import Disk
        return Disk()
    if t == "rng":
        o = st.new_obj("rng")
        st.heap[o.oid]["state"] = z3.Int(nm + "#rngstate")
        return o
    if t.startswith("tuple[") and t.endswith("]"):
        parts = _split_top(t[6:-1])
        return VTuple([fresh(p, f"{name}_{i}", st, eng) for i, p in enumerate(parts)])
    raise Unsupported(f"unknown type string {t!r}")


def _split_top(s):
    out, depth, cur = [], 0, ""
    for ch in s:
        if ch == "[":
            depth += 1
        elif ch == "]":
            depth -= 1
        if ch == "," and depth == 0:
            out.append(cur.strip())
            cur = ""
        else:
            cur += ch
    if cur.strip():
        out.append(cur.strip())
    return out


def _sid(k):
    if isinstance(k, VStr):
        k = k.sid
    if isinstance(k, VClass):        # classes as dictionary keys: the id of their name
        from .values import intern_str
        k = intern_str(k.name) if isinstance(k.name, str) else k.name
    return to_z3(k)


def _wrap(term, t):
    if t == "str":
        return VStr(term)
    if t == "class":
        return VClass(term)
    if t in ("int", "real", "bool", "nat", "pos"):
        return term
    if t.startswith("opaque:"):
        return Opaque(term, t.split(":", 1)[1])
    return Opaque(term, None)


def _fresh_elem(inner, nm, nd, st):
    """Element closure for a fresh array of element type `inner` and nd index dimensions."""
    inner = inner.strip()
    if inner.startswith("seq["):
        sub = inner[4:-1]
        lenf = z3.Function(nm + "#ilen", *([z3.IntSort()] * nd), z3.IntSort())
        ef = z3.Function(nm + "#iel", *([z3.IntSort()] * (nd + 1)), _zsort(sub))

        def elem(*idx):
            zi = [to_z3(i) for i in idx]
            ln = lenf(*zi)
            st.fact(ln >= 0)
            return Arr((ln,), lambda j: _wrap(ef(*zi, to_z3(j)), sub), kind="list", etype=sub)

        return elem
    if inner.startswith("opt[") and inner.endswith("]"):
        sub = inner[4:-1]
        nonef = z3.Function(nm + "#inone", *([z3.IntSort()] * nd), z3.BoolSort())
        inner_elem = _fresh_elem(sub, nm + "#some", nd, st)

        def elem(*idx):
            return Opt(nonef(*[to_z3(i) for i in idx]), inner_elem(*idx))

        return elem
    if inner[:3] == "arr" and inner[3:4].isdigit() and inner[4:5] == "[":
        # elements that are k-d arrays (a list of matrices): shapes and entries are functions of the outer index
        k = int(inner[3])
        sub = inner[5:-1]
        shf = [z3.Function(f"{nm}#is{d}", *([z3.IntSort()] * nd), z3.IntSort()) for d in range(k)]
        ef = z3.Function(nm + "#iel", *([z3.IntSort()] * (nd + k)), _zsort(sub))

        def elem(*idx):
            zi = [to_z3(i) for i in idx]
            shape = []
            for f_ in shf:
                n_ = f_(*zi)
                st.fact(n_ >= 0)
                shape.append(n_)
            return Arr(tuple(shape), lambda *j: _wrap(ef(*zi, *[to_z3(x) for x in j]), sub), kind="ndarray", etype=sub)

        return elem
    f = z3.Function(nm + "#el", *([z3.IntSort()] * nd), _zsort("int" if inner == "nat" else inner))
    if inner == "nat":
        def elem(*idx):
            v = f(*[to_z3(i) for i in idx])
            st.fact(v >= 0)
            return v
        return elem
    return lambda *idx: _wrap(f(*[to_z3(i) for i in idx]), inner)


def fresh_like(v, name, st: State):
    """Fresh symbolic value of the same kind as v (used to havoc)."""
    nm = fresh_name(name)
    if isinstance(v, bool):
        return z3.Bool(nm)
    if isinstance(v, int):
        return z3.Int(nm)
    if isinstance(v, float):
        return z3.Real(nm)
    if is_z3(v):
        if z3.is_bool(v):
            return z3.Bool(nm)
        if z3.is_int(v):
            return z3.Int(nm)
        if z3.is_real(v):
            return z3.Real(nm)
        return z3.Const(nm, v.sort())
    if isinstance(v, VStr):
        return VStr(z3.Int(nm))
    if isinstance(v, VClass):
        return VClass(z3.Int(nm))
    if v is NONE:
        return NONE
    if isinstance(v, Opt):
        return Opt(z3.Bool(nm + "?none"), fresh_like(v.val, name, st))
    if isinstance(v, Opaque):
        return Opaque(z3.Const(nm, ObjS), v.cls)
    if isinstance(v, Arr):
        return fresh_arr_like(v, nm, st, keep_shape=False)
    if isinstance(v, Ref):
        cell = st.heap[v.rid]
        if isinstance(cell, Arr):
            return st.alloc(fresh_arr_like(cell, nm, st, keep_shape=False), "arr")
        if isinstance(cell, DictV):
            has = z3.Function(nm + "#has", z3.IntSort(), z3.BoolSort())
            get = z3.Function(nm + "#get", z3.IntSort(), _zsort(cell.vtype))
            size = z3.Int(nm + "#size")
            st.fact(size >= 0)
            return st.alloc(DictV(lambda k: has(_sid(k)), lambda k: _wrap(get(_sid(k)), cell.vtype), cell.vtype, size),
                            "dict")
        raise Unsupported("havoc of concrete dict")
    if isinstance(v, VTuple):
        return VTuple([fresh_like(x, name, st) for x in v.items])
    if isinstance(v, Obj):
        return v  # object identity is kept; its fields are havocked separately
    if isinstance(v, Poison):
        return v
    if type(v).__name__ == "Disk":
        return type(v)()
    if isinstance(v, list) and all(isinstance(x, tuple) and len(x) == 2 for x in v):
        return [("*", nm)]      # the store log of a foreign objects' field (heap["$opq"]): any object may have been hit
    raise Unsupported(f"cannot havoc value of kind {type(v).__name__}")


def fresh_arr_like(a: Arr, nm, st, keep_shape=True):
    if keep_shape:
        shape = a.shape
    else:
        shape = []
        for d in range(a.ndim):
            n = z3.Int(f"{nm}#s{d}")
            st.fact(n >= 0)
            shape.append(n)
    et = a.etype if isinstance(a.etype, str) else "real"
    return Arr(tuple(shape), _fresh_elem(et, nm, a.ndim, st), kind=a.kind, etype=et)


# ------------------------------------------------------------------------------------------------


class Frame:
    """Static context of the function being executed."""

    def __init__(self, module, cls, fn, contract, pre=None):
        self.module = module
        self.cls = cls
        self.fn = fn
        self.contract = contract
        self.pre = pre  # State snapshot for old()
        self.loop_ids = {}
        n = 0
        for node in ast.walk(fn) if fn is not None else []:
            pass
        self.comp_ids = {}
        nc = 0
        if fn is not None:
            for node in _preorder(fn):
                if isinstance(node, (ast.For, ast.While)):
                    n += 1
                    self.loop_ids[id(node)] = n
                elif isinstance(node, (ast.ListComp, ast.GeneratorExp)):
                    nc += 1
                    self.comp_ids[id(node)] = f"comp{nc}"


def _preorder(node):
    yield node
    for ch in ast.iter_child_nodes(node):
        if isinstance(ch, (ast.FunctionDef, ast.Lambda, ast.ClassDef)) and ch is not node:
            continue
        yield from _preorder(ch)
