"""Index of the real source under $PYVC_REPO (default /repo): parsed fresh on every run."""
from __future__ import annotations

import ast
import os
from pathlib import Path


def repo_root() -> Path:
    return Path(os.environ.get("PYVC_REPO", "/repo"))


class ClassInfo:
    def __init__(self, module, node):
        self.module = module
        self.node = node
        self.name = node.name
        self.bases = []
        for b in node.bases:
            if isinstance(b, ast.Name):
                self.bases.append(b.id)
            elif isinstance(b, ast.Attribute):
                self.bases.append(b.attr)
            elif isinstance(b, ast.Subscript):  # Generic[...] / CalibrationEnv[int]
                v = b.value
                self.bases.append(v.id if isinstance(v, ast.Name) else getattr(v, "attr", "?"))
        self.methods = {}
        self.properties = {}
        self.setters = {}
        for st in node.body:
            if isinstance(st, ast.FunctionDef):
                decos = [ast.unparse(d) for d in st.decorator_list]
                if "property" in decos:
                    self.properties[st.name] = st
                elif any(d.endswith(".setter") for d in decos):
                    self.setters[st.name] = st
                else:
                    self.methods[st.name] = st
                    st._decos = decos  # type: ignore[attr-defined]


class Repo:
    def __init__(self, root: Path | None = None):
        self.root = Path(root) if root else repo_root()
        self.modules: dict[str, ast.Module] = {}
        self.sources: dict[str, str] = {}
        self.classes: dict[str, ClassInfo] = {}
        self.functions: dict[str, tuple[str, ast.FunctionDef]] = {}
        self.module_consts: dict[str, dict[str, ast.expr]] = {}
        self.mod_functions: dict[str, dict[str, ast.FunctionDef]] = {}
        self.imports: dict[str, dict[str, tuple[str, str]]] = {}   # module -> alias -> (defining module, name)
        for p in sorted((self.root / "black_it").rglob("*.py")):
            rel = str(p.relative_to(self.root))
            src = p.read_text()
            try:
                mod = ast.parse(src)
            except SyntaxError:
                continue
            self.modules[rel] = mod
            self.sources[rel] = src
            consts = {}
            for st in mod.body:
                if isinstance(st, ast.ClassDef):
                    self.classes[st.name] = ClassInfo(rel, st)
                elif isinstance(st, ast.FunctionDef):
                    self.functions[st.name] = (rel, st)
                    self.mod_functions.setdefault(rel, {})[st.name] = st
                elif isinstance(st, ast.ImportFrom) and st.module and st.module.startswith("black_it") and st.level == 0:
                    target = st.module.replace(".", "/") + ".py"
                    for al in st.names:
                        self.imports.setdefault(rel, {})[al.asname or al.name] = (target, al.name)
                elif isinstance(st, ast.Assign) and len(st.targets) == 1 and isinstance(st.targets[0], ast.Name):
                    consts[st.targets[0].id] = st.value
                elif isinstance(st, ast.AnnAssign) and isinstance(st.target, ast.Name) and st.value is not None:
                    consts[st.target.id] = st.value
            self.module_consts[rel] = consts

    # ---------------------------------------------------------------- lookup
    def mro(self, cls: str) -> list[str]:
        out = []

        def walk(c):
            if c in out or c not in self.classes:
                return
            out.append(c)
            for b in self.classes[c].bases:
                walk(b)

        walk(cls)
        return out

    def is_subclass(self, cls: str, base: str) -> bool:
        if cls == base:
            return True
        if cls in self.classes:
            return base in self.mro(cls)
        return base in _BUILTIN_EXC_MRO.get(cls, [cls])

    def exc_is_subclass(self, cls: str, base: str) -> bool:
        """Subclass test that also follows repo exception classes into builtin bases."""
        if cls == base:
            return True
        seen = set()
        todo = [cls]
        while todo:
            c = todo.pop()
            if c in seen:
                continue
            seen.add(c)
            if c == base:
                return True
            if c in self.classes:
                todo.extend(self.classes[c].bases)
            else:
                todo.extend(_BUILTIN_EXC_MRO.get(c, []))
        return False

    def find_method(self, cls: str, name: str):
        """-> (defining class, FunctionDef) following the MRO, or None."""
        for c in self.mro(cls):
            ci = self.classes[c]
            if name in ci.methods:
                return c, ci.methods[name]
        return None

    def find_property(self, cls: str, name: str):
        for c in self.mro(cls):
            ci = self.classes[c]
            if name in ci.properties:
                return c, ci.properties[name]
        return None

    def find_setter(self, cls: str, name: str):
        for c in self.mro(cls):
            ci = self.classes[c]
            if name in ci.setters:
                return c, ci.setters[name]
        return None

    def get_function(self, key: str):
        """key = 'path/to/file.py::Class.method' or 'path/to/file.py::func' -> (module, cls|None, FunctionDef) or None."""
        path, _, qual = key.partition("::")
        mod = self.modules.get(path)
        if mod is None:
            return None
        parts = qual.split(".")
        if len(parts) == 1:
            for st in mod.body:
                if isinstance(st, ast.FunctionDef) and st.name == parts[0]:
                    return path, None, st
            return None
        cname, mname = parts
        for st in mod.body:
            if isinstance(st, ast.ClassDef) and st.name == cname:
                ci = self.classes.get(cname)
                for table in (ci.methods, ci.properties, ci.setters):
                    if mname in table:
                        return path, cname, table[mname]
        return None

    def key_of(self, cls: str | None, fn: ast.FunctionDef, module: str) -> str:
        return f"{module}::{cls + '.' if cls else ''}{fn.name}"

    def method_key(self, cls: str, name: str) -> str | None:
        r = self.find_method(cls, name)
        if r is None:
            return None
        dcls, fn = r
        return f"{self.classes[dcls].module}::{dcls}.{name}"


_BUILTIN_EXC_MRO = {
    "OperationalError": ["DatabaseError"],
    "DatabaseError": ["Error"],
    "Error": ["Exception"],
    "Exception": ["BaseException"],
    "ValueError": ["Exception"],
    "TypeError": ["Exception"],
    "KeyError": ["LookupError"],
    "IndexError": ["LookupError"],
    "LookupError": ["Exception"],
    "AttributeError": ["Exception"],
    "RuntimeError": ["Exception"],
    "NotImplementedError": ["RuntimeError"],
    "AssertionError": ["Exception"],
    "ZeroDivisionError": ["ArithmeticError"],
    "ArithmeticError": ["Exception"],
    "StopIteration": ["Exception"],
    "LinAlgError": ["ValueError"],
    "Exception": ["BaseException"],
    "KeyboardInterrupt": ["BaseException"],
    "BaseException": [],
}
