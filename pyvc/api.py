"""Sidecar contract API.  Contracts live in /verif/contracts/*.py, never in /repo.

Every expression is a string in Python expression syntax; it is evaluated
  (a) symbolically by pyvc.engine (-> z3 term) for the proof, and
  (b) by CPython's eval() under /venv/bin/python by runtime/rt.py (replay, bounded stand-in, cross-check).
Extra vocabulary: result, old(e), forall(range(a,b), lambda j: P), exists(range(a,b), lambda j: P),
implies(a,b), ite(c,a,b), exc (the raised exception in a raises-clause), ghost.<name>, and per-contract `defs`.
"""
from __future__ import annotations

class F(str):
    """A contract clause that belongs to a FACET: a named group of (heavy) clauses that is verified in a pass of its
    own.  The base pass verifies the untagged clauses; pass `f` ASSUMES the untagged clauses of the function (proved by
    the base pass) together with the clauses of facet f, and generates obligations for the clauses of facet f only.
    Callee clauses tagged with another facet are not assumed in this pass.  Every pass is a sound verification of a
    weaker contract; the union of the passes covers every clause - each solver query stays small."""

    def __new__(cls, facet, text):
        o = super().__new__(cls, text)
        o.facet = facet
        return o


def facet_of(clause):
    return getattr(clause, "facet", None)


REG = {"contracts": {}, "classes": {}, "invariants": {}, "lemmas": {}, "specs": {}, "ghosts": {}, "stmts": {},
       "disk_schema": {}, "ghost_functions": {}}


class Contract:
    def __init__(self, key, **kw):
        self.key = key
        self.params = kw.pop("params", {})  # name -> type string
        self.returns = kw.pop("returns", "none")
        self.requires = list(kw.pop("requires", ()))
        self.ensures = list(kw.pop("ensures", ()))
        # ordered list of dicts {exc: class-name or expr, when: cond (pre-state), ensures: [..]}
        self.raises = list(kw.pop("raises", ()))
        # names of exception classes that may escape in addition (from callees), state unconstrained
        self.may_raise = list(kw.pop("may_raise", ()))
        self.modifies = list(kw.pop("modifies", ()))
        self.defs = dict(kw.pop("defs", {}))  # name -> ([params], expr)
        self.props = list(kw.pop("props", ()))
        self.abstract = kw.pop("abstract", False)
        self.trusted = kw.pop("trusted", False)
        self.self_type = kw.pop("self_type", None)  # class name for `self` (defaults to defining class)
        self.arith = kw.pop("arith", "real")
        self.notes = kw.pop("notes", "")
        self.labels = kw.pop("labels", {})  # ensures-index -> label
        # property -> regex over obligation-group names: a property that is NOT in `props` owns only those obligations of
        # this function (the rest is another property's business and is verified under it)
        self.prop_groups = dict(kw.pop("prop_groups", {}))
        self.ghost = dict(kw.pop("ghost", {}))  # ghost vars introduced for this function: name -> (type, init expr)
        self.replay = kw.pop("replay", None)  # name of runtime replay/scope driver
        self.inline = kw.pop("inline", False)
        # generator-based context managers: `ensures` hold after __enter__ (at the yield);
        # exit_ensures hold after __exit__ on EVERY exit of the with-body (normal or exceptional)
        self.is_cm = kw.pop("is_cm", False)
        self.exit_ensures = list(kw.pop("exit_ensures", ()))
        self.exit_modifies = list(kw.pop("exit_modifies", ()))
        # conditions that hold whenever an exception listed in may_raise escapes (exception safety)
        self.exc_ensures = list(kw.pop("exc_ensures", ()))
        # definitional updates of ghost (specification-only) state: assumed at call sites, not checked on the body
        self.ghost_ensures = list(kw.pop("ghost_ensures", ()))
        # preconditions over ghost state that are CHECKED at call sites (unlike ghost-mentioning `requires`, which
        # reset the ghost trace)
        self.ghost_requires = list(kw.pop("ghost_requires", ()))
        # claims: {label: clause} - obligations on the body exactly like `ensures`, but NEVER assumed at call sites
        # (for clauses of the property that are known not to hold: callers must not build on them)
        self.claims = dict(kw.pop("claims", {}))
        # behavioural subtyping: every override of this (base-class) method that has no contract of its own is
        # verified against THIS contract (frame included), so a subclass cannot do more than the base promises
        self.check_overrides = kw.pop("check_overrides", False)
        # exceptions may only come out of callees: a `raise` statement of the function's own body must be unreachable
        # (unless one of its `raises` entries describes it)
        self.no_own_raise = kw.pop("no_own_raise", False)
        # the whole function is verified in ONE pass, that of this facet (all obligation kinds; callee clauses of the
        # facet are assumed): for functions that are entirely about one facet, e.g. the checkpoint round-trip theorem
        self.only_facet = kw.pop("only_facet", None)
        if kw:
            raise TypeError(f"unknown contract keys {list(kw)} for {key}")


def contract(key, **kw):
    c = Contract(key, **kw)
    REG["contracts"][key] = c
    return c


class ClassSpec:
    def __init__(self, name, fields=None, invariant=(), ghost=None, ghost_link=()):
        self.name = name
        self.fields = dict(fields or {})
        self.invariant = list(invariant)
        self.ghost = dict(ghost or {})
        # definitions of ghost variables in terms of the object's state (e.g. ghost.n == len(self.xs)): assumed at the
        # entry of every method, never an obligation (ghost state is specification-only and defined BY this link)
        self.ghost_link = list(ghost_link)


def klass(name, **kw):
    """Declare (or extend: fields are merged, invariants de-duplicated) the specification of a class."""
    c = ClassSpec(name, **kw)
    old = REG["classes"].get(name)
    if old is not None:
        old.fields.update(c.fields)
        for i in c.invariant:
            if i not in old.invariant:
                old.invariant.append(i)
        for i in c.ghost_link:
            if i not in old.ghost_link:
                old.ghost_link.append(i)
        return old
    REG["classes"][name] = c
    return c


class LoopInv:
    def __init__(self, key, loop, inv, over=None, var="k", props=(), locals=None):
        self.locals = dict(locals or {})   # local name -> element type of a list that is EMPTY at loop entry
        self.key = key
        self.loop = loop  # 1-based ordinal of the loop in the function (pre-order)
        self.inv = list(inv)
        self.over = over  # expected source text of the iterable / condition (staleness guard)
        self.var = var  # name of the ghost iteration counter usable inside inv
        self.props = list(props)


def loop_invariant(key, loop, inv, **kw):
    li = LoopInv(key, loop, inv, **kw)
    REG["invariants"][(key, loop)] = li
    return li


class Lemma:
    def __init__(self, name, vars, assumes, goal, props=(), uses=()):
        self.name = name
        self.vars = dict(vars)
        self.assumes = list(assumes)
        self.goal = goal
        self.props = list(props)
        self.uses = list(uses)


def lemma(name, **kw):
    lm = Lemma(name, **kw)
    REG["lemmas"][name] = lm
    return lm


def spec(name, params, body):
    """Pure spec function usable in every contract: name(params) := body (expression string)."""
    REG["specs"][name] = (list(params), body)


def ghost_var(name, type_):
    """Declare a global ghost variable (materialised lazily, fresh, in any verification that touches it)."""
    REG["ghosts"][name] = type_


class StmtContract:
    def __init__(self, key, match, ensures, label, props=(), facet=None, lemma=False):
        self.key, self.match, self.ensures, self.label, self.props = key, match, list(ensures), label, list(props)
        self.facet = facet
        # lemma=True: an intermediate assertion - proved where it stands (obligation), then available as a premise on the
        # paths that continue from there (sound: it holds on every path that reaches the statement)
        self.lemma = lemma


def stmt_contract(key, match, ensures, label, **kw):
    """Obligation attached to ONE statement of a function, located by its source text (whitespace-insensitive).
    In `ensures`, before(e) is e evaluated just before the statement.  If the text is no longer found the
    obligation is reported as not generated (UNDECIDED), never as proved."""
    sc = StmtContract(key, match, ensures, label, **kw)
    REG["stmts"].setdefault(key, []).append(sc)
    return sc


def disk_schema(file, keys):
    """Schema of the PREVIOUS content of a checkpoint file (what a checkpoint written by this code holds):
    key -> type string; "prefix{}" declares a key family f"prefix{d}"; "" the type of a pickled object."""
    REG["disk_schema"].setdefault(file, {}).update(keys)


def ghost_function(module, source):
    """A specification-only composition of real functions (Python source of ONE def), verified like a function of
    `module` against the CONTRACTS of what it calls: used to state theorems such as load(save(x)) == x.  It never
    runs and is not part of the repository."""
    import ast as _ast
    fn = _ast.parse(source).body[0]
    REG["ghost_functions"][f"{module}::{fn.name}"] = fn
    return f"{module}::{fn.name}"
