"""./check <Cxx> [--tier quick|thorough] [--replay file]   (runs under python3-vt)

Exit codes: 0 property held on everything decided; 1 violation (VIOLATION line printed); 3 checker problem.
"""
from __future__ import annotations

import hashlib
import importlib
import json
import multiprocessing as mp
import os
import subprocess
import sys
import time
import traceback
from pathlib import Path

VERIF = Path(__file__).resolve().parent.parent
sys.path.insert(0, str(VERIF))

from pyvc import report  # noqa: E402
from pyvc.repo import Repo  # noqa: E402
from pyvc.verify import load_sidecars, verify_function  # noqa: E402

_G = {}


def _worker(args):
    key, timeout = args
    facet = None
    if "@" in key:
        key, facet = key.split("@", 1)
    try:
        reg, repo = _G["reg"], _G["repo"]
        if key in reg["lemmas"]:
            from pyvc.verify import verify_lemma
            r = verify_lemma(key, reg, repo, timeout_s=timeout)
        else:
            r = verify_function(key, repo, reg, timeout_s=timeout, facet=facet)
        return {"key": key if facet is None else f"{key}@{facet}", "facet": facet, "status": r.status, "reason": r.reason, "groups": r.groups, "outcomes": r.outcomes,
                "feasible": r.feasible_outcomes, "lib_used": r.lib_used, "time": r.time, "props": r.props}
    except Exception as e:  # noqa: BLE001
        return {"key": key, "status": "crash", "reason": f"{type(e).__name__}: {e}\n{traceback.format_exc()[-1500:]}",
                "groups": {}, "outcomes": 0, "feasible": 0, "lib_used": [], "time": 0.0, "props": []}


def derive_override_contracts(reg, repo, prop):
    """Behavioural subtyping: overrides (without an own contract) of methods whose base contract asks for it."""
    import copy
    out = []
    for key, c in list(reg["contracts"].items()):
        if not getattr(c, "check_overrides", False) or prop not in c.props:
            continue
        path, _, qual = key.partition("::")
        base, _, meth = qual.partition(".")
        for cname, ci in sorted(repo.classes.items()):
            if cname == base or not repo.is_subclass(cname, base) or meth not in ci.methods:
                continue
            k2 = f"{ci.module}::{cname}.{meth}"
            if k2 in reg["contracts"]:
                continue
            c2 = copy.copy(c)
            c2.key, c2.abstract, c2.trusted, c2.check_overrides = k2, False, False, False
            c2.notes = f"derived: override checked against the contract of {key}"
            reg["contracts"][k2] = c2
            out.append(k2)
    return out


def run_functions(keys, timeout, jobs=16):
    if not keys:
        return []
    ctx = mp.get_context("fork")
    # (one fresh child per function: the numbering of fresh names - and with it the solver's behaviour - must not depend
    #  on which functions the same worker happened to verify before)
    with ctx.Pool(min(jobs, len(keys)), maxtasksperchild=1) as pool:
        return pool.map(_worker, [(k, timeout) for k in keys], chunksize=1)


def main(argv):
    if len(argv) < 2:
        print("usage: check <Cxx> [--tier quick|thorough] [--replay file]")
        return 3
    prop = argv[1]
    tier = os.environ.get("VERIF_TIER", "quick")
    replay = None
    i = 2
    while i < len(argv):
        if argv[i] == "--tier":
            tier = argv[i + 1]
            i += 2
        elif argv[i] == "--replay":
            replay = argv[i + 1]
            i += 2
        else:
            i += 1
    seed = int(os.environ.get("VERIF_SEED", "0") or 0)
    t0 = time.time()
    os.makedirs(VERIF / "work", exist_ok=True)
    os.environ.setdefault("PYVC_TMP", str(VERIF / "work"))
    if replay:
        return report.do_replay(prop, replay)
    try:
        reg = load_sidecars()
        repo = Repo()
    except Exception as e:  # noqa: BLE001
        print(f"CHECKER-ERROR: cannot load contracts / repository: {e}")
        traceback.print_exc()
        return 3
    _G["reg"], _G["repo"] = reg, repo
    timeout = 30 if tier == "quick" else 120
    keys = [k for k, c in reg["contracts"].items()
            if (prop in c.props or prop in c.prop_groups) and not c.abstract and not c.trusted]
    keys += [k for k, lm in reg["lemmas"].items() if prop in lm.props]
    keys += derive_override_contracts(reg, repo, prop)
    # heavy clause groups (facets) are verified in passes of their own: key@facet
    from pyvc.verify import facets_of
    keys += [f"{k}@{f}" for k in list(keys) if k in reg["contracts"] for f in facets_of(k, reg)]
    results = run_functions(keys, timeout)
    # functions of which this property owns only some obligations (Contract.prop_groups)
    import re as _re
    for r in results:
        c = reg["contracts"].get(r["key"].split("@")[0])
        if c is not None and prop not in c.props and prop in c.prop_groups:
            r["groups"] = {g: v for g, v in r["groups"].items() if _re.search(c.prop_groups[prop], g)}
    # property-level analyses (frames / flows / effect traces / lemmas): plug-ins returning the same group format
    extra = []
    try:
        mod = importlib.import_module(f"analyses.{prop.lower()}")
    except ModuleNotFoundError:
        mod = None
    if mod is not None:
        try:
            extra = mod.run(repo, reg, prop, tier)
        except Exception as e:  # noqa: BLE001
            print(f"CHECKER-ERROR: analysis for {prop} crashed: {e}")
            traceback.print_exc()
            return 3
    return report.finish(prop, tier, seed, reg, repo, results, extra, t0)


if __name__ == "__main__":
    sys.exit(main(sys.argv))
