"""Assumed contracts of builtins / NumPy / Generator as executable symbolic models (the trusted base).

Every entry here is an ASSUMPTION about a dependency; report.py lists the ones a run actually used.
"""
from __future__ import annotations

import ast
import math

import z3

from .values import (
    NONE, Arr, BoundMethod, CDict, DictV, Exc, Iter, ModuleV, Obj, ObjS, Opaque, Opt, Ref, State, Unsupported,
    VClass, VStr, VTuple, fresh_name, is_boolish, is_num, is_z3, num_pair, to_real, to_z3, zand, zimplies, zite,
    znot, zor,
)

def _ext(st, f, fns):
    """A library fact that characterises FRESH function symbols (see rel.EXT)."""
    from .rel import ext_fact
    ext_fact(st, f, [x.name() if hasattr(x, "name") else str(x) for x in fns])


USED: set[str] = set()  # names of library models exercised in this process (for the trusted-base report)


def used(name):
    USED.add(name)


DSL_FUNCS = {"forall", "exists", "implies", "ite", "old", "entry", "before"}
CONSTS = {"np.pi": math.pi, "math.pi": math.pi, "np.newaxis": NONE, "queue.Empty": VClass("Empty")}
CM_CLASSES = {"File", "H5File", "contextmanager_lib", "suppress"}

# uninterpreted real functions (sound abstraction: nothing is known about them beyond functionality)
HINT = z3.Function("hint", z3.IntSort(), z3.BoolSort())  # hint(x) is True; it only seeds quantifier instantiation
_UPOW = z3.Function("upow", z3.RealSort(), z3.RealSort(), z3.RealSort())
_UROUND = z3.Function("uround", z3.RealSort(), z3.IntSort(), z3.RealSort())


def upow(a, b, st=None):
    used("pow / np.power: uninterpreted function of (base, exponent), positive for a positive base")
    t = _UPOW(to_real(a), to_real(b))
    if st is not None:
        st.fact(z3.Implies(to_real(a) > 0, t > 0))
    return t


_FSTR = z3.Function("fstr", z3.IntSort(), z3.IntSort(), z3.IntSort())
_FSTR_ARG = z3.Function("fstr_arg", z3.IntSort(), z3.IntSort())
_FSTR_PRE = z3.Function("fstr_prefix", z3.IntSort(), z3.IntSort())


def fstr(st, prefix, d):
    """f"prefix{d}" with an integer d: injective in (prefix, d) and different from every interned constant."""
    import re as _re
    from .values import _interned, intern_str
    used("f-string keys f\"prefix{int}\": injective in the integer, distinct from every string constant of the program")
    for k in _interned:
        if k.startswith(prefix) and _re.fullmatch(r"-?\d+", k[len(prefix):] or "x"):
            raise Unsupported(f"f-string key family {prefix!r} collides with the constant {k!r}")
    pid = intern_str("$fprefix$" + prefix)
    # an explicit injective code (no uninterpreted function, no axiom the solver would have to build a model for):
    # negative, so different from every interned constant (>= 1000); (prefix id, d) is recoverable from it
    dz = to_z3(d)
    enc = z3.If(dz >= 0, 2 * dz, -2 * dz - 1)
    t = -(1 + pid + 10000000 * enc)
    return VStr(t, None, fparts=(prefix, d))


# ------------------------------------------------------------------------------------------------ arrays

def _arr(I, st, v) -> Arr | None:
    if isinstance(v, Opt):
        v = v.val
    if isinstance(v, (Arr, Ref, VTuple)) and not (isinstance(v, Ref) and v.what != "arr"):
        return I.arr_of(v, st)
    return None


def _dims_equal(I, st, x, y, node=None):
    cx, cy = I.concrete_int(x), I.concrete_int(y)
    if cx is not None and cy is not None:
        if cx != cy:
            I.safety(st, False, "shapes-compatible", node)
        return
    I.safety(st, to_z3(x) == to_z3(y), "shapes-compatible", node)


def broadcast(I, st, a: Arr | None, b: Arr | None, node=None):
    """-> (shape, index-map for a, index-map for b)."""
    if a is None:
        return b.shape, None, (lambda idx: idx)
    if b is None:
        return a.shape, (lambda idx: idx), None
    nd = max(a.ndim, b.ndim)
    sa = (1,) * (nd - a.ndim) + tuple(a.shape)
    sb = (1,) * (nd - b.ndim) + tuple(b.shape)
    shape, ba, bb = [], [], []
    for x, y in zip(sa, sb):
        cx, cy = I.concrete_int(x), I.concrete_int(y)
        if cx == 1 and cy != 1:
            shape.append(y); ba.append(True); bb.append(False)
        elif cy == 1 and cx != 1:
            shape.append(x); ba.append(False); bb.append(True)
        else:
            _dims_equal(I, st, x, y, node)
            shape.append(x); ba.append(False); bb.append(False)

    def mk(flags, nd_own):
        def f(idx):
            out = [0 if fl else i for fl, i in zip(flags, idx)]
            return out[nd - nd_own:]
        return f
    return tuple(shape), mk(ba, a.ndim), mk(bb, b.ndim)


def elementwise2(I, st, f, a, b, node=None):
    A, B = _arr(I, st, a), _arr(I, st, b)
    if A is None and B is None:
        return f(a, b)
    shape, ma, mb = broadcast(I, st, A, B, node)

    def elem(*idx):
        x = A.elem(*ma(list(idx))) if A is not None else a
        y = B.elem(*mb(list(idx))) if B is not None else b
        return f(x, y)
    return st.alloc(Arr(shape, elem, kind="ndarray", etype=_probe_etype(I, st, elem, len(shape))), "arr")


def _probe_etype(I, st, elem, nd):
    """Element type of a lifted expression: evaluate it once at fresh indices (obligations suppressed)."""
    I.in_contract += 1
    nf, npc = len(st.facts), len(st.pc)
    try:
        v = elem(*[z3.Int(fresh_name("probe")) for _ in range(nd)])
    except Unsupported:
        return "real"
    finally:
        I.in_contract -= 1
        del st.facts[nf:]
        del st.pc[npc:]
    if is_boolish(v):
        return "bool"
    if isinstance(v, int) or (is_z3(v) and z3.is_int(v)):
        return "int"
    return "real"


def elementwise(I, st, f, a):
    A = _arr(I, st, a)
    if A is None:
        return f(a)
    el = lambda *idx: f(A.elem(*idx))  # noqa: E731
    return st.alloc(Arr(A.shape, el, kind="ndarray", etype=_probe_etype(I, st, el, A.ndim)), "arr")


def _norm_index(I, st, i, n, node, what="index-in-range"):
    """Python index normalisation with the bounds obligation."""
    ci = I.concrete_int(i)
    if ci is not None and ci < 0:
        I.safety(st, to_z3(n) + ci >= 0, what, node)
        return to_z3(n) + ci if is_z3(n) else n + ci
    if isinstance(i, Opt):
        I.safety(st, znot(i.is_none), "index-not-None", node)
        i = i.val
    if not is_num(i):
        raise Unsupported(f"index of kind {type(i).__name__}")
    iz, nz = to_z3(i), to_z3(n)
    if ci is not None:
        I.safety(st, nz > ci, what, node)
        return ci
    # a symbolic index may be negative in Python; the verified subset requires 0 <= i < n
    I.safety(st, z3.And(iz >= 0, iz < nz), what, node)
    return i


def arr_index(I, st, a: Arr, idx, base=None, node=None, check=False):
    """Integer indexing along leading axes. Returns scalar/element or a sub-array (a VIEW when base is a Ref)."""
    idx = list(idx)
    if check:
        idx = [_norm_index(I, st, i, a.shape[k], node) for k, i in enumerate(idx)]
    if len(idx) == a.ndim:
        return a.elem(*idx)
    if len(idx) > a.ndim:
        raise Unsupported("too many indices")
    sub = Arr(a.shape[len(idx):], lambda *rest: a.elem(*idx, *rest), kind=a.kind, etype=a.etype)
    if isinstance(base, Ref) and a.kind == "ndarray":
        sub._view_of = (base.rid, tuple(idx))  # type: ignore[attr-defined]
    return sub


def _slice_bounds(I, st, sl: ast.Slice, n):
    if sl.step is not None and I.concrete_int(I.eval(sl.step, st)) != 1:
        raise Unsupported("slice step")
    lo = I.eval(sl.lower, st) if sl.lower is not None else 0
    hi = I.eval(sl.upper, st) if sl.upper is not None else n
    if isinstance(hi, Opt) or isinstance(lo, Opt):
        raise Unsupported("optional slice bound")

    def clamp(v):
        cv, cn = I.concrete_int(v), I.concrete_int(n)
        if cv is not None and cn is not None:
            return max(0, min(cn, cv if cv >= 0 else cn + cv))
        if cv is not None and cv < 0:
            x = to_z3(n) + cv
            return z3.If(x < 0, z3.IntVal(0), x)
        vz, nz = to_z3(v), to_z3(n)
        # non-negative symbolic bound assumed (negative symbolic slice bounds are outside the subset)
        return z3.If(vz > nz, nz, z3.If(vz < 0, z3.IntVal(0), vz))
    lo_c, hi_c = clamp(lo), clamp(hi)
    if isinstance(lo_c, int) and isinstance(hi_c, int):
        return lo_c, max(0, hi_c - lo_c)
    ln = to_z3(hi_c) - to_z3(lo_c)
    return lo_c, z3.If(ln < 0, z3.IntVal(0), ln)


def arr_getitem(I, st, base, sl, node=None):
    a = I.arr_of(base, st)
    parts = list(sl.elts) if isinstance(sl, ast.Tuple) else [sl]
    if len(parts) > a.ndim:
        if any(isinstance(p, ast.Constant) and p.value is None for p in parts):
            raise Unsupported("np.newaxis indexing")
        raise Unsupported("too many indices")
    # general per-axis plan
    plan = []  # ('int', i) | ('slice', lo, len) | ('fancy', Arr) | ('mask', Arr)
    for ax, p in enumerate(parts):
        n = a.shape[ax]
        if isinstance(p, ast.Slice):
            if p.lower is None and p.upper is None and p.step is None:
                plan.append(("slice", 0, n))
            else:
                lo, ln = _slice_bounds(I, st, p, n)
                plan.append(("slice", lo, ln))
        else:
            v = I.eval(p, st)
            if v is NONE:
                raise Unsupported("np.newaxis indexing")
            va = _arr(I, st, v)
            if va is not None:
                if len(parts) != 1:
                    raise Unsupported("fancy index combined with other indices")
                return fancy_get(I, st, a, va, node)
            plan.append(("int", _norm_index(I, st, v, n, node)))
    for ax in range(len(parts), a.ndim):
        plan.append(("slice", 0, a.shape[ax]))
    if all(k == "int" for k, *_ in plan):
        return a.elem(*[p[1] for p in plan])
    shape = tuple(p[2] for p in plan if p[0] == "slice")

    def elem(*idx):
        it = iter(idx)
        full = []
        for p in plan:
            if p[0] == "int":
                full.append(p[1])
            else:
                j = next(it)
                full.append(j if (isinstance(p[1], int) and p[1] == 0) else _add(p[1], j))
        return a.elem(*full)
    out = Arr(shape, elem, kind=a.kind, etype=a.etype)
    if a.kind == "ndarray" and isinstance(base, Ref):
        path = [p[1] if p[0] == "int" else -1 for p in plan]
        while path and not (isinstance(path[-1], int) and path[-1] != -1) and not is_z3(path[-1]):
            path.pop()      # trailing full slices: a[i] and a[i, :] are the same view (same identity as arr_index)
        out._view_of = (base.rid, tuple(path))  # type: ignore[attr-defined]
        return out  # basic slicing: a view (immutable value here; writes through views are outside the subset)
    if a.kind in ("list", "tuple"):
        return st.alloc(out, "arr") if a.kind == "list" else out
    return out


def _add(a, b):
    if isinstance(a, int) and isinstance(b, int):
        return a + b
    return to_z3(a) + to_z3(b)


def fancy_get(I, st, a: Arr, ix: Arr, node=None):
    """a[ix] with ix an integer array (gather, fresh copy) or a boolean mask (unknown length selection)."""
    used("numpy fancy indexing a[idx] (gather; fresh copy)")
    if ix.etype == "bool":
        from . import lib2
        return lib2.mask_select(I, st, a, ix, node)
    n = a.shape[0]
    if not I.in_contract and not I.dry:
        js = [z3.Int(fresh_name("fj")) for _ in range(ix.ndim)]
        v = to_z3(ix.elem(*js))
        rng = zand(*[zand(j >= 0, j < to_z3(m_)) for j, m_ in zip(js, ix.shape)])
        # skolemised: js are fresh constants, so the element's library facts are instantiated at them
        I.oblige(st, zimplies(rng, z3.And(v >= 0, v < to_z3(n))), "S", "fancy-index-in-range", node)
    shape = tuple(ix.shape) + tuple(a.shape[1:])

    def elem(*idx):
        k = ix.elem(*idx[:ix.ndim])
        return a.elem(k, *idx[ix.ndim:])
    return st.alloc(Arr(shape, elem, kind="ndarray", etype=a.etype), "arr")


def arr_setitem(I, st, base: Ref, sl, val, node=None):
    a: Arr = st.heap[base.rid]
    parts = list(sl.elts) if isinstance(sl, ast.Tuple) else [sl]
    V = _arr(I, st, val)
    if len(parts) == 1 and not isinstance(parts[0], ast.Slice):
        key = I.eval(parts[0], st)
        K = _arr(I, st, key)
        if K is not None:
            return fancy_set(I, st, base, a, K, val, V, node)
    plan = []
    for ax, p in enumerate(parts):
        n = a.shape[ax]
        if isinstance(p, ast.Slice):
            if p.lower is None and p.upper is None:
                plan.append(("all",))
            else:
                lo, ln = _slice_bounds(I, st, p, n)
                plan.append(("range", lo, ln))
        else:
            v = I.eval(p, st)
            plan.append(("int", _norm_index(I, st, v, n, node)))
    for ax in range(len(parts), a.ndim):
        plan.append(("all",))
    old = a.elem
    free_axes = [k for k, p in enumerate(plan) if p[0] != "int"]

    def elem(*idx):
        cond = True
        sub = []
        for k, p in enumerate(plan):
            if p[0] == "int":
                cond = zand(cond, to_z3(idx[k]) == to_z3(p[1]) if (is_z3(idx[k]) or is_z3(p[1])) else idx[k] == p[1])
            elif p[0] == "range":
                lo, ln = p[1], p[2]
                cond = zand(cond, to_z3(idx[k]) >= to_z3(lo), to_z3(idx[k]) < to_z3(lo) + to_z3(ln))
                sub.append(to_z3(idx[k]) - to_z3(lo))
            else:
                sub.append(idx[k])
        if V is not None:
            # right-align the value's axes with the free axes (NumPy assignment broadcasting)
            nv = V.elem(*sub[len(sub) - V.ndim:]) if V.ndim <= len(sub) else None
            if nv is None:
                raise Unsupported("assignment value has too many axes")
        else:
            nv = val
        nv = _store_cast(a, nv)
        o = old(*idx)
        if isinstance(cond, bool):
            return nv if cond else o
        return _ite_val(cond, nv, o)
    if V is not None and not I.in_contract:
        # shape compatibility of the assigned block
        fshape = [a.shape[k] if plan[k][0] == "all" else plan[k][2] for k in free_axes]
        for x, y in zip(fshape[len(fshape) - V.ndim:], V.shape):
            if I.concrete_int(y) != 1:
                _dims_equal(I, st, x, y, node)
    st.heap[base.rid] = Arr(a.shape, elem, kind=a.kind, etype=a.etype)


def _store_cast(a: Arr, v):
    """NumPy casts on assignment: a real stored into an INTEGER ndarray is truncated toward zero (lists keep the value)."""
    if a.kind == "ndarray" and a.etype in ("int", "nat") and is_num(v):
        z = to_z3(v)
        if z3.is_real(z):
            used("ndarray[int] element store: the value is truncated toward zero (dtype cast)")
            fl = z3.ToInt(z)
            return z3.If(z >= 0, fl, z3.If(z3.ToReal(fl) == z, fl, fl + 1))
    return v


def _ite_arr(c, a: Arr, b: Arr):
    shape = tuple(zite(c, x, y) for x, y in zip(a.shape, b.shape))
    return Arr(shape, lambda *idx: _ite_val(c, a.elem(*idx), b.elem(*idx)), kind=a.kind, etype=a.etype)


def _ite_val(c, a, b):
    if isinstance(a, Arr) and isinstance(b, Arr) and a.ndim == b.ndim:
        return _ite_arr(c, a, b)
    if (is_num(a) or is_boolish(a)) and (is_num(b) or is_boolish(b)):
        return zite(c, a, b)
    if isinstance(a, VStr) and isinstance(b, VStr):
        return VStr(zite(c, a.sid, b.sid))
    if isinstance(a, Opaque) and isinstance(b, Opaque):
        return Opaque(z3.If(c, a.term, b.term), a.cls)
    raise Unsupported("conditional over non-scalar elements")


def fancy_set(I, st, base, a: Arr, K: Arr, val, V, node=None):
    old = a.elem
    if K.etype == "bool":
        used("numpy boolean-mask assignment a[mask] = v")
        if V is not None:
            raise Unsupported("mask assignment of an array value")

        def elem(*idx):
            return _ite_val(K.elem(*idx[:K.ndim]), val, old(*idx))
        st.heap[base.rid] = Arr(a.shape, elem, kind=a.kind, etype=a.etype)
        return
    used("numpy fancy-index assignment a[idx] = b (row idx[k] := b[k]; last writer wins)")
    if K.ndim != 1:
        raise Unsupported("n-d fancy index store")
    m = to_z3(K.shape[0])
    n = to_z3(a.shape[0])
    if not I.in_contract and not I.dry:
        j = z3.Int(fresh_name("fs"))
        kv = to_z3(K.elem(j))
        I.oblige(st, z3.Implies(z3.And(j >= 0, j < m), z3.And(kv >= 0, kv < n)), "S", "fancy-index-in-range", node)
        if V is not None:
            _dims_equal(I, st, V.shape[0], K.shape[0], node)
    pos = z3.Function(fresh_name("pos"), z3.IntSort(), z3.IntSort())
    r, j = z3.Int(fresh_name("r")), z3.Int(fresh_name("j"))
    st.fact(z3.ForAll([r], z3.And(pos(r) >= -1, pos(r) < m)))
    st.fact(z3.ForAll([r], z3.Implies(pos(r) >= 0, to_z3(K.elem(pos(r))) == r)))
    st.fact(z3.ForAll([r, j], z3.Implies(z3.And(j >= 0, j < m, to_z3(K.elem(j)) == r), pos(r) >= j)))

    def elem(*idx):
        p = pos(to_z3(idx[0]))
        nv = V.elem(p, *idx[1:]) if V is not None else val
        return _ite_val(p >= 0, nv, old(*idx))
    st.heap[base.rid] = Arr(a.shape, elem, kind=a.kind, etype=a.etype)
    st.env["$lastpos"] = pos  # exposed to contracts as spec hook (see C12)


def list_repeat(I, st, a, n):
    A = I.arr_of(a, st)
    ln = A.shape[0]
    cl = I.concrete_int(ln)
    if cl != 1:
        raise Unsupported("list repetition of a non-singleton list")
    item = A.elem(0)
    nz = n if isinstance(n, int) else z3.If(to_z3(n) < 0, z3.IntVal(0), to_z3(n))
    if isinstance(nz, int):
        nz = max(0, nz)
    return st.alloc(Arr((nz,), lambda i: item, kind="list", etype=A.etype), "arr")


def list_concat(I, st, a, b):
    A, B = I.arr_of(a, st), I.arr_of(b, st)

    def _opaque_side(X, Y):
        # freshly built objects joined with a sequence of foreign ones: seen through the same (opaque) interface
        if isinstance(X.etype, str) and X.etype.startswith("opaque") and I.concrete_int(Y.shape[0]) is not None:
            items = [Y.elem(i) for i in range(I.concrete_int(Y.shape[0]))]
            if any(isinstance(x, Obj) for x in items):
                items = [as_opaque(I, st, x) if isinstance(x, Obj) else x for x in items]
                return Arr(Y.shape, lambda i, items=items: I._pick(items, i), kind=Y.kind, etype=X.etype)
        return Y
    B = _opaque_side(A, B)
    A = _opaque_side(B, A)
    la, lb = A.shape[0], B.shape[0]
    ca, cb = I.concrete_int(la), I.concrete_int(lb)
    if ca is not None and cb is not None:
        items = [A.elem(i) for i in range(ca)] + [B.elem(i) for i in range(cb)]
        return st.alloc(Arr((ca + cb,), lambda i: I._pick(items, i), kind="list", etype=A.etype), "arr")

    def elem(i):
        return _ite_val(to_z3(i) < to_z3(la), A.elem(i), B.elem(to_z3(i) - to_z3(la)))
    return st.alloc(Arr((to_z3(la) + to_z3(lb),), elem, kind="list", etype=A.etype), "arr")


def transpose(I, st, v):
    a = I.arr_of(v, st)
    if a.ndim == 1:
        return v
    if a.ndim == 2:
        return Arr((a.shape[1], a.shape[0]), lambda i, j: a.elem(j, i), kind=a.kind, etype=a.etype)
    raise Unsupported("transpose of >2-d array")


def comprehension_as_loop(I, st, node, cid, inv):
    """A comprehension whose element has effects (draws from a generator, calls a contract with a frame) is a LOOP:
    with a sidecar invariant registered for it (loop id "comp<k>") it is executed as
        _comp<k> = [];  for <target> in <iter>: _comp<k>.append(<elt>)
    cut by that invariant, like any other loop."""
    fr = I.frame
    g = node.generators[0]
    acc = "_" + cid
    st.env[acc] = st.alloc(Arr((0,), lambda i: I._pick([], i), kind="list", etype="any"), "arr")
    call = ast.Expr(value=ast.Call(func=ast.Attribute(value=ast.Name(id=acc, ctx=ast.Load()), attr="append", ctx=ast.Load()),
                                   args=[node.elt], keywords=[]))
    loop = ast.For(target=g.target, iter=g.iter, body=[call], orelse=[])
    ast.copy_location(loop, node)
    ast.fix_missing_locations(loop)
    fr.loop_ids[id(loop)] = cid
    fr._comp_loops = getattr(fr, "_comp_loops", [])
    fr._comp_loops.append(loop)      # keep the node alive: loop ids are keyed by id()
    outs = I.x_For(loop, st)
    normal = [o for o in outs if o.kind == "normal"]
    if len(normal) != 1 or len(outs) != 1:
        raise Unsupported("a comprehension executed as a loop must have exactly one (normal) exit")
    s2 = normal[0].state
    if s2 is not st:
        st.env, st.heap, st.pc, st.ghost, st.facts, st.trace = s2.env, s2.heap, s2.pc, s2.ghost, s2.facts, s2.trace
    return st.env[acc]


def comprehension(I, st, node):
    if len(node.generators) != 1 or node.generators[0].ifs:
        raise Unsupported("comprehension with filters / several generators")
    fr = I.frame
    if fr is not None and fr.fn is not None and not I.in_contract:
        cid = getattr(fr, "comp_ids", {}).get(id(node))
        if cid is not None:
            key = I.repo.key_of(fr.cls, fr.fn, fr.module)
            inv = I.reg["invariants"].get((key, cid))
            if inv is not None:
                return comprehension_as_loop(I, st, node, cid, inv)
    g = node.generators[0]
    it = I.make_iter(I.eval(g.iter, st), st)
    n = I.concrete_int(it.length)
    if n is not None and n <= 32:
        items = []
        saved = dict(st.env)
        for i in range(n):
            I.assign(g.target, it.item(i), st)
            items.append(I.eval(node.elt, st))
        st.env = saved
        return st.alloc(Arr((n,), lambda i: I._pick(items, i), kind="list", etype="any"), "arr")
    # symbolic length: element closure (element expression must be call-free or use pure models only)
    env0 = dict(st.env)
    if not I.in_contract and not I.dry:
        # the implicit-exception obligations of the element expression: once, for an arbitrary in-range position
        k = z3.Int(fresh_name("ck"))
        s2 = st.fork()
        s2.assume(zand(k >= 0, k < to_z3(it.length)))
        I.assign(g.target, it.item(k), s2)
        I.eval(node.elt, s2)

    def elem(i):
        saved = st.env
        st.env = dict(env0)
        I.in_contract += 1     # obligations were generated above; later evaluations only build the value
        try:
            I.assign(g.target, it.item(i), st)
            return I.eval(node.elt, st)
        finally:
            I.in_contract -= 1
            st.env = saved
    return st.alloc(Arr((it.length,), elem, kind="list", etype="any"), "arr")


def dict_comprehension(I, st, node):
    """{key(x): val(x) for x in seq}: a dictionary with symbolic key set; for a key that occurs several times the LAST
    item wins (Python semantics): last(k) is the greatest position whose key is k."""
    if len(node.generators) != 1 or node.generators[0].ifs:
        raise Unsupported("dict comprehension with filters / several generators")
    used("dict comprehension over a sequence of unknown length: has(k) iff some item has key k; d[k] is the value of the "
         "LAST item with key k")
    g = node.generators[0]
    it = I.make_iter(I.eval(g.iter, st), st)
    n = to_z3(it.length)
    env0 = dict(st.env)
    from .engine import _sid

    def at(j, what):
        saved = st.env
        st.env = dict(env0)
        I.in_contract += 1
        try:
            I.assign(g.target, it.item(j), st)
            return I.eval(what, st)
        finally:
            I.in_contract -= 1
            st.env = saved
    last = z3.Function(fresh_name("dc_last"), z3.IntSort(), z3.IntSort())
    j, k = z3.Int(fresh_name("j")), z3.Int(fresh_name("k"))
    keyj = _sid(at(j, node.key))

    def has(key):
        kz = _sid(key)
        jj = z3.Int(fresh_name("j"))
        return z3.Exists([jj], z3.And(jj >= 0, jj < n, _sid(at(jj, node.key)) == kz))
    st.fact(z3.ForAll([j], z3.Implies(z3.And(j >= 0, j < n), z3.And(last(keyj) >= j, last(keyj) < n)), patterns=[last(keyj)]))
    jl = last(k)
    st.fact(z3.ForAll([k], z3.Implies(z3.And(jl >= 0, jl < n), _sid(at(jl, node.key)) == k), patterns=[last(k)]))
    sample = at(z3.Int(fresh_name("probe")), node.value)
    vt = "int" if (isinstance(sample, int) or (is_z3(sample) and z3.is_int(sample))) else \
        ("real" if is_num(sample) else "any")

    def get(key):
        return at(last(_sid(key)), node.value)
    return st.alloc(DictV(has, get, vt, None), "dict")


def as_opaque(I, st, o):
    """An object built in the function under verification, seen as an element of a sequence of foreign objects."""
    from .values import intern_str
    term = _obj_term(st, o)
    st.fact(_TYPE_NAME(term) == intern_str(o.cls))
    for c in (I.repo.mro(o.cls) or [o.cls]):
        st.fact(_ISINST(term, z3.IntVal(intern_str(c))))
        spec = I.reg["classes"].get(c)
        for f, t in (spec.fields.items() if spec else ()):
            if t in ("int", "nat", "pos", "real", "bool") and f in st.heap[o.oid]:
                fn = z3.Function(f"fld_{f}", ObjS, z3.RealSort() if t == "real" else (z3.BoolSort() if t == "bool" else z3.IntSort()))
                st.fact(fn(term) == to_z3(st.heap[o.oid][f]))
    return Opaque(term, o.cls)


def isinstance_(I, st, v, tnode):
    names = [ast.unparse(e).split(".")[-1] for e in (tnode.elts if isinstance(tnode, ast.Tuple) else [tnode])]
    if isinstance(v, Opt):
        return zand(znot(v.is_none), isinstance_(I, st, v.val, tnode))
    if v is NONE:
        return False
    if isinstance(v, VStr):
        return "str" in names
    if isinstance(v, bool) or (is_z3(v) and z3.is_bool(v)):
        return "bool" in names or "int" in names
    if isinstance(v, int) or (is_z3(v) and z3.is_int(v)):
        return "int" in names
    if isinstance(v, float) or (is_z3(v) and z3.is_real(v)):
        return "float" in names or "float64" in names
    if isinstance(v, (Arr, Ref)) and not (isinstance(v, Ref) and v.what != "arr"):
        a = I.arr_of(v, st)
        return ("ndarray" in names) if a.kind == "ndarray" else (a.kind in names)
    if isinstance(v, Obj):
        return any(I.repo.is_subclass(v.cls, n) for n in names)
    if isinstance(v, Opaque):
        if v.cls and any(I.repo.is_subclass(v.cls, n) for n in names):
            return True
        from .values import intern_str
        return zor(*[_ISINST(v.term, z3.IntVal(intern_str(n))) for n in names])
    raise Unsupported("isinstance on " + type(v).__name__)


_TYPE_NAME = z3.Function("type_name", ObjS, z3.IntSort())
_ISINST = z3.Function("isinstance", ObjS, z3.IntSort(), z3.BoolSort())


def type_of(I, st, v):
    if isinstance(v, Obj):
        return VClass(v.cls)
    if isinstance(v, Opaque):
        used("type(x).__name__ of an abstract object is a function of the object")
        return VClass(_TYPE_NAME(v.term))
    raise Unsupported("type() of " + type(v).__name__)


# ------------------------------------------------------------------------------------------------ builtins

def b_getattr(I, st, args, kw, node):
    """getattr(o, "name"[, default]) with a constant name: the attribute when the object's class declares it, else the
    default"""
    if len(args) < 2 or not (isinstance(args[1], VStr) and args[1].text is not None):
        raise Unsupported("getattr with a non-constant name")
    o, name = args[0], args[1].text
    try:
        return I.getattr(o, name, st, node)
    except Unsupported:
        if len(args) >= 3:
            return args[2]
        raise


def b_len(I, st, args, kw, node):
    (v,) = args
    if isinstance(v, Opt):
        I.safety(st, znot(v.is_none), "len-of-not-None", node)
        v = v.val
    if isinstance(v, VTuple):
        return len(v.items)
    if isinstance(v, Ref) and v.what == "cdict":
        return len(st.heap[v.rid].items)
    if isinstance(v, Ref) and v.what == "dict":
        d = st.heap[v.rid]
        if d.size is None:
            raise Unsupported("len of symbolic dict")
        return d.size
    a = _arr(I, st, v)
    if a is None:
        raise Unsupported("len of " + type(v).__name__)
    return a.shape[0]


def b_range(I, st, args, kw, node):
    if len(args) == 1:
        lo, hi = 0, args[0]
    elif len(args) == 2:
        lo, hi = args
    else:
        raise Unsupported("range with step")
    cl, ch = I.concrete_int(lo), I.concrete_int(hi)
    if cl is not None and ch is not None:
        return Iter(max(0, ch - cl), lambda i: _add(cl, i))
    d = to_z3(hi) - to_z3(lo)
    return Iter(z3.If(d < 0, z3.IntVal(0), d), lambda i: _add(lo, i))


def b_enumerate(I, st, args, kw, node):
    it = I.make_iter(args[0], st)
    return Iter(it.length, lambda i: VTuple([i, it.item(i)]))


def b_zip(I, st, args, kw, node):
    its = [I.make_iter(a, st) for a in args]
    n = its[0].length
    for o in its[1:]:
        cn, co = I.concrete_int(n), I.concrete_int(o.length)
        if cn is not None and co is not None:
            n = min(cn, co)
        else:
            n = z3.If(to_z3(n) <= to_z3(o.length), to_z3(n), to_z3(o.length))
    return Iter(n, lambda i: VTuple([t.item(i) for t in its]))


def _fold_minmax(I, st, vals, is_max):
    out = vals[0]
    for v in vals[1:]:
        x, y = num_pair(out, v)
        out = z3.If(x >= y, x, y) if is_max else z3.If(x <= y, x, y)
    return out


def b_max(I, st, args, kw, node, is_max=True):
    if len(args) >= 2:
        # an optional operand: None does not compare (TypeError) - obligation, then the value
        un = []
        for a_ in args:
            if isinstance(a_, Opt):
                I.safety(st, znot(a_.is_none), "operand-not-None", node)
                a_ = a_.val
            un.append(a_)
        args = un
        if all(isinstance(a, (int, float)) for a in args):
            return max(args) if is_max else min(args)
        return _fold_minmax(I, st, list(args), is_max)
    (v,) = args
    if isinstance(v, DictValues):
        d = v.d
        used("max(dict.values()): an existing value that bounds every value")
        r = z3.Int(fresh_name("maxv"))
        k = z3.Int(fresh_name("k"))
        if not I.in_contract:
            I.safety(st, z3.Exists([k], d.has(k)), "max-of-nonempty", node)
        st.fact(z3.ForAll([k], z3.Implies(d.has(k), (to_z3(d.get(k)) <= r) if is_max else (to_z3(d.get(k)) >= r))))
        st.fact(z3.Exists([k], z3.And(d.has(k), to_z3(d.get(k)) == r)))
        return r
    a = _arr(I, st, v)
    if a is None:
        raise Unsupported("max of " + type(v).__name__)
    n = I.concrete_int(a.shape[0])
    if n is not None and 1 <= n <= 16 and a.ndim == 1:
        return _fold_minmax(I, st, [a.elem(i) for i in range(n)], is_max)
    return reduce_extreme(I, st, a, is_max, node)


def reduce_extreme(I, st, a: Arr, is_max, node, what="min/max"):
    used("np.min / np.max / min / max: an element that bounds all elements")
    if a.ndim != 1:
        raise Unsupported("min/max of n-d array")
    n = to_z3(a.shape[0])
    I.safety(st, n >= 1, "extreme-of-nonempty", node)
    sample = a.elem(z3.IntVal(0))
    r = z3.Real(fresh_name("ext")) if (is_z3(sample) and z3.is_real(sample)) or isinstance(sample, float) else \
        z3.Int(fresh_name("ext"))
    j = z3.Int(fresh_name("j"))
    w = z3.Int(fresh_name("w"))
    ej = to_z3(a.elem(j))
    rr, ejj = num_pair(r, ej)
    st.fact(z3.ForAll([j], z3.Implies(z3.And(j >= 0, j < n), ejj <= rr if is_max else ejj >= rr)))
    st.fact(z3.And(w >= 0, w < n))
    ew, r2 = num_pair(to_z3(a.elem(w)), r)
    st.fact(ew == r2)
    return r


def b_abs(I, st, args, kw, node):
    (v,) = args
    if isinstance(v, (int, float)):
        return abs(v)
    if is_z3(v):
        return z3.If(v >= 0, v, -v)
    return elementwise(I, st, lambda x: z3.If(to_z3(x) >= 0, to_z3(x), -to_z3(x)), v)


def b_int(I, st, args, kw, node):
    (v,) = args
    if isinstance(v, bool):
        return int(v)
    if isinstance(v, (int, float)):
        return int(v)
    if is_z3(v):
        if z3.is_int(v):
            return v
        if z3.is_bool(v):
            return z3.If(v, z3.IntVal(1), z3.IntVal(0))
        # truncation toward zero
        fl = z3.ToInt(v)
        return z3.If(v >= 0, fl, z3.If(z3.ToReal(fl) == v, fl, fl + 1))
    raise Unsupported("int() of " + type(v).__name__)


def b_float(I, st, args, kw, node):
    (v,) = args
    if isinstance(v, (int, float)):
        return float(v)
    if is_z3(v):
        return to_real(v)
    raise Unsupported("float() of " + type(v).__name__)


def b_bool(I, st, args, kw, node):
    return I.truth(args[0], st)


def b_list(I, st, args, kw, node):
    if not args:
        return st.alloc(Arr((0,), lambda i: 0, kind="list", etype="any"), "arr")
    v = args[0]
    if isinstance(v, Iter):
        return st.alloc(Arr((v.length,), v.item, kind="list", etype="any"), "arr")
    a = I.arr_of(v, st)
    return st.alloc(Arr(a.shape[:1], (lambda i: arr_index(I, st, a, [i])), kind="list", etype=a.etype), "arr")


def b_tuple(I, st, args, kw, node):
    v = args[0]
    if isinstance(v, VTuple):
        return v
    if isinstance(v, Iter):
        return Arr((v.length,), v.item, kind="tuple", etype="any")
    a = I.arr_of(v, st)
    n = I.concrete_int(a.shape[0])
    if n is not None and n <= 16:
        return VTuple([arr_index(I, st, a, [i]) for i in range(n)])
    return Arr(a.shape[:1], (lambda i: arr_index(I, st, a, [i])), kind="tuple", etype=a.etype)


def b_pow(I, st, args, kw, node):
    a, b = args[:2]
    if isinstance(a, (int, float)) and isinstance(b, (int, float)):
        return pow(a, b)
    return upow(a, b, st)


def b_str(I, st, args, kw, node):
    return VStr(z3.Int(fresh_name("str")))


_PYROUND = z3.Function("pyround", z3.RealSort(), z3.IntSort(), z3.RealSort())


def b_round(I, st, args, kw, node):
    used("round(x, p): uninterpreted function of (x, p) - NOT np.round (the built-in rounds the exact decimal value of the "
         "double, NumPy scales and rounds half to even: round(0.05, 1) = 0.1, np.round(0.05, 1) = 0.0)")
    x = args[0]
    p = args[1] if len(args) > 1 else 0
    return _PYROUND(to_real(x), to_z3(p))


def b_sum(I, st, args, kw, node):
    raise Unsupported("sum()")


_RNG_SEED = z3.Function("rng_seed", z3.IntSort(), z3.IntSort())


def b_default_rng(I, st, args, kw, node):
    used("default_rng(seed): the generator state is a function of an integer seed (fresh entropy for None)")
    seed = args[0] if args else NONE
    o = st.new_obj("rng")
    if seed is NONE:
        st.heap[o.oid]["state"] = z3.Int(fresh_name("entropy"))
    elif isinstance(seed, Opt):
        st.heap[o.oid]["state"] = z3.If(seed.is_none, z3.Int(fresh_name("entropy")), _RNG_SEED(to_z3(seed.val)))
    else:
        st.heap[o.oid]["state"] = _RNG_SEED(to_z3(seed))
    return o


_PRIME = z3.Function("nth_prime", z3.IntSort(), z3.IntSort())


def _prime(st, c):
    used("spec function prime(c): the c-th prime (0-based), only known to be > 1")
    t = _PRIME(to_z3(c))
    st.fact(t > 1)
    st.fact(_PRIME(z3.IntVal(0)) == 2)      # the first prime
    return t


_ARRID = z3.Function("array_identity", z3.IntSort(), z3.IntSort(), z3.IntSort(), z3.IntSort(), z3.IntSort())


_STABLE_IDS = iter(range(1000, 10 ** 12))


def stable_id(obj):
    """Identity of an (immutable) array value as a small integer that is the same on every run (python's id() varies
    from run to run - solver behaviour must not - and can be REUSED after the object is freed)."""
    sid = getattr(obj, "_stable_id", None)
    if sid is None:
        sid = next(_STABLE_IDS)
        obj._stable_id = sid
    return sid


def arrid(I, st, v):
    """Value identity of an array argument: (content object, index path) - two arguments with the same identity
    term denote the same array value.  Used to state 'computed from exactly that slice' for abstract callees."""
    if isinstance(v, Opt):
        v = v.val
    if isinstance(v, Ref) and v.what == "arr":
        return _ARRID(z3.IntVal(stable_id(st.heap[v.rid])), z3.IntVal(-2), z3.IntVal(-2), z3.IntVal(-2))
    if isinstance(v, Arr):
        vo = getattr(v, "_view_of", None)
        if vo is not None and vo[0] in st.heap:
            idx = [to_z3(x) for x in list(vo[1])[:3]]
            while len(idx) < 3:
                idx.append(z3.IntVal(-2))
            content = st.heap[vo[0]]
            al = getattr(content, "_row_alias", None)
            if al is not None:
                # row r of np.repeat(a, k, axis=0) IS (the value of) row r // k of a
                return _ARRID(z3.IntVal(al[0]), al[1](idx[0]), *idx[1:])
            return _ARRID(z3.IntVal(stable_id(content)), *idx)
        return _ARRID(z3.IntVal(stable_id(v)), z3.IntVal(-2), z3.IntVal(-2), z3.IntVal(-2))
    raise Unsupported("array identity of " + type(v).__name__)


_L1D = z3.Function("loss_1d", ObjS, z3.IntSort(), z3.IntSort(), z3.RealSort())
_fsum_cache: dict = {}


def spec_l1d(I, st, a, k, n):
    used("spec function l1d(self, sim, real): the abstract single-coordinate loss as a pure function of the loss "
         "object and the identity of the two array arguments")
    selfv = a[0]
    term = selfv.term if isinstance(selfv, Opaque) else _obj_term(st, selfv)
    return _L1D(term, arrid(I, st, a[1]), arrid(I, st, a[2]))


_CLOSS = z3.Function("loss_value", ObjS, z3.IntSort(), z3.IntSort(), z3.RealSort())


def spec_closs(I, st, a, k, n):
    used("spec function closs(loss, sim, real): the value compute_loss returns, named as a function of the loss object and "
         "the identity of its two array arguments (justified by: inputs not written, no state kept between evaluations, "
         "single-coordinate losses and filters pure)")
    selfv = a[0]
    term = selfv.term if isinstance(selfv, Opaque) else _obj_term(st, selfv)
    return _CLOSS(term, arrid(I, st, a[1]), arrid(I, st, a[2]))


def _obj_term(st, o):
    cell = st.heap[o.oid]
    if "$term" not in cell:
        cell["$term"] = z3.Const(fresh_name("objterm"), ObjS)
    return cell["$term"]


def spec_fsum(I, st, node_args, n_val, st_env_key):
    raise Unsupported("fsum must be called through the evaluator")


def _hint(st, x):
    t = HINT(to_z3(x))
    st.fact(t)   # hint(x) is true by definition
    return t


_RI = z3.Function("radical_inverse", z3.IntSort(), z3.IntSort(), z3.RealSort())


def spec_ri(I, st, a, k, n):
    """ri(n, b): radical inverse of n in base b.  ri(n,b) = 0 for n <= 0, else (n mod b)/b + ri(n div b, b)/b.
    Every application gets its one-level unfolding as a fact (fuel 1)."""
    used("spec function ri (radical inverse): recursive definition, unfolded once per application")
    nn, bb = to_z3(a[0]), to_z3(a[1])
    t = _RI(nn, bb)
    st.fact(z3.Implies(nn <= 0, t == 0))
    st.fact(z3.Implies(z3.And(nn > 0, bb > 1), t == z3.ToReal(nn % bb) / z3.ToReal(bb) + _RI(nn / bb, bb) / z3.ToReal(bb)))
    st.fact(z3.Implies(bb > 1, z3.And(t >= 0, t < 1)))
    return t


def _z(x):
    """to_z3 for spec-function arguments (optional values are unwrapped: specs guard them with `is not None`)."""
    return to_z3(x.val if isinstance(x, Opt) else x)


def _uf(f, n):
    return lambda I, st, a, k, node: f(*[to_z3(x) for x in a[:n]])


BUILTIN_FUNCS = {
    "__rng_seed": lambda I, st, a, k, n: _RNG_SEED(_z(a[0])),
    "__rng_next": lambda I, st, a, k, n: _RNG_NEXT(_z(a[0]), _z(a[1])),
    "__rng_int": lambda I, st, a, k, n: _RNG_INT(*[_z(x) for x in a]),
    "__rng_real": lambda I, st, a, k, n: _RNG_REAL(_z(a[0]), _z(a[1])),
    "default_rng": b_default_rng,
    "ri": spec_ri,
    "arange_len": lambda I, st, a, k, n: arange_len(st, a[0], a[1], a[2]),
    "l1d": spec_l1d, "closs": spec_closs,
    "upow": lambda I, st, a, k, n: upow(a[0], a[1], st),
    "frac": lambda I, st, a, k, n: to_real(a[0]) - z3.ToReal(z3.ToInt(to_real(a[0]))),
    "prime": lambda I, st, a, k, n: _prime(st, a[0]),
    "hint": lambda I, st, a, k, n: _hint(st, a[0]),
    "np_round": lambda I, st, a, k, n: _UROUND(to_real(a[0]), _z(a[1])),
    "getattr": b_getattr,
    "len": b_len, "range": b_range, "enumerate": b_enumerate, "zip": b_zip,
    "max": b_max, "min": lambda I, st, a, k, n: b_max(I, st, a, k, n, is_max=False),
    "abs": b_abs, "int": b_int, "float": b_float, "bool": b_bool, "list": b_list, "tuple": b_tuple, "pow": b_pow,
    "str": b_str, "round": b_round, "sum": b_sum,
}


class DictValues:
    def __init__(self, d):
        self.d = d


# ------------------------------------------------------------------------------------------------ numpy

def np_argmax(I, st, args, kw, node, is_max=True):
    used("np.argmax / np.argmin: FIRST index of an extremum")
    a = I.arr_of(args[0], st)
    if a.ndim != 1:
        raise Unsupported("argmax of n-d")
    n = to_z3(a.shape[0])
    I.safety(st, n >= 1, "argmax-of-nonempty", node)
    r = z3.Int(fresh_name("argext"))
    j = z3.Int(fresh_name("j"))
    st.fact(z3.And(r >= 0, r < n))
    ej, er = num_pair(to_z3(a.elem(j)), to_z3(a.elem(r)))
    st.fact(z3.ForAll([j], z3.Implies(z3.And(j >= 0, j < n), ej <= er if is_max else ej >= er)))
    st.fact(z3.ForAll([j], z3.Implies(z3.And(j >= 0, j < r), ej < er if is_max else ej > er)))
    return r


_ARANGE_LEN = z3.Function("arange_len", z3.RealSort(), z3.RealSort(), z3.RealSort(), z3.IntSort())


def arange_len(st, a, b, p):
    """Length of np.arange(a, b, p) in REAL arithmetic: the number of k >= 0 with a + k*p < b (p > 0)."""
    a, b, p = to_real(a), to_real(b), to_real(p)
    n = _ARANGE_LEN(a, b, p)
    st.fact(n >= 0)
    st.fact(z3.Implies(z3.And(p > 0, b <= a), n == 0))
    st.fact(z3.Implies(z3.And(p > 0, b > a), z3.And(n >= 1, a + z3.ToReal(n - 1) * p < b, a + z3.ToReal(n) * p >= b)))
    st.fact(z3.Implies(z3.And(p < 0, b >= a), n == 0))
    return n


def np_arange_real(I, st, args, kw, node):
    used("np.arange(start, stop, step) over reals: element k is start + k*step, length = number of k with start + "
         "k*step < stop (mathematical; NumPy's float length computation ceil((stop-start)/step) is NOT modelled)")
    a, b, p = args[0], args[1], (args[2] if len(args) > 2 else kw["step"])
    I.safety(st, to_real(p) != 0, "arange-step-nonzero", node)
    n = arange_len(st, a, b, p)
    return st.alloc(Arr((n,), lambda k: to_real(a) + to_real(k) * to_real(p), kind="ndarray", etype="real"), "arr")


def np_arange(I, st, args, kw, node):
    used("np.arange(n) / np.arange(a, b): consecutive integers")
    if len(args) == 1:
        lo, hi = 0, args[0]
    elif len(args) == 2:
        lo, hi = args
    else:
        return np_arange_real(I, st, args, kw, node)
    x, y = num_pair(lo, hi)
    if z3.is_real(x):
        raise Unsupported("np.arange over reals")
    d = y - x
    return st.alloc(Arr((z3.If(d < 0, z3.IntVal(0), d),), lambda i: _add(lo, i), kind="ndarray", etype="int"), "arr")


def np_zeros(I, st, args, kw, node, fill=0.0):
    used("np.zeros / np.ones / np.full: fresh constant array")
    shape = kw.get("shape", args[0] if args else None)
    dt = kw.get("dtype")
    if isinstance(shape, VTuple):
        sh = tuple(shape.items)
    elif is_num(shape):
        sh = (shape,)
    else:
        raise Unsupported("np.zeros shape")
    et = "real"
    v = fill
    if dt is not None:
        name = _dtype_name(dt)
        if name in ("int", "int32", "int64"):
            et, v = "int", int(fill)
        elif name in ("bool", "bool_"):
            et, v = "bool", bool(fill)
    return st.alloc(Arr(sh, lambda *idx: v, kind="ndarray", etype=et), "arr")


def _dtype_name(dt):
    if isinstance(dt, FuncVLike):
        return dt.name
    if isinstance(dt, ModuleV):
        return dt.path.split(".")[-1]
    from .values import FuncV
    if isinstance(dt, FuncV):
        return dt.qual[1]
    if isinstance(dt, VStr) and dt.text:
        return dt.text
    return "?"


class FuncVLike:
    name = "?"


def np_where1(I, st, args, kw, node):
    raise Unsupported("np.where")


def np_copy(I, st, args, kw, node):
    used("np.copy / np.array(x): fresh array with equal contents")
    a = I.arr_of(args[0], st)
    if a.ndim == 1:
        first = a.elem(0) if I.concrete_int(a.shape[0]) != 0 else None
        fa = _arr(I, st, first) if first is not None and not is_num(first) and not is_boolish(first) else None
        if fa is not None and fa.ndim in (1, 2):
            # a sequence of equally shaped arrays becomes an array of one more dimension; a RAGGED sequence makes
            # NumPy raise ValueError (inhomogeneous shape): both outcomes are produced when the count is symbolic
            used("np.array(list of k-d arrays): equally shaped items give a (k+1)-d array (block i is item i); ragged "
                 "items raise ValueError")
            nd = fa.ndim
            outs = []
            if I.concrete_int(a.shape[0]) is None and not I.in_contract:
                q = z3.Int(fresh_name("rag"))
                same = zand(*[to_z3(I.arr_of(a.elem(q), st).shape[d]) == to_z3(fa.shape[d]) for d in range(nd)])
                uniform = z3.ForAll([q], z3.Implies(z3.And(q >= 0, q < to_z3(a.shape[0])), to_z3(same)))
                s_bad = st.fork()
                s_bad.assume(z3.Not(uniform))
                outs.append((s_bad, None, Exc("ValueError", ())))
                st.assume(uniform)
            if nd == 1:
                val = st.alloc(Arr((a.shape[0], fa.shape[0]), lambda r, c: I.arr_of(a.elem(r), st).elem(c),
                                   kind="ndarray", etype=fa.etype), "arr")
            else:
                val = st.alloc(Arr((a.shape[0], fa.shape[0], fa.shape[1]),
                                   lambda k, r, c: I.arr_of(a.elem(k), st).elem(r, c), kind="ndarray", etype=fa.etype), "arr")
            if outs:
                return outs + [(st, val, None)]
            return val
    return st.alloc(Arr(a.shape, a.elem, kind="ndarray", etype=a.etype), "arr")


def np_searchsorted(I, st, args, kw, node):
    used("np.searchsorted(a, v, side): insertion index characterisation on a sorted array")
    a = I.arr_of(args[0], st)
    v = args[1]
    side = kw.get("side", args[2] if len(args) > 2 else VStr.const("left"))
    if not (isinstance(side, VStr) and side.text in ("left", "right")):
        raise Unsupported("searchsorted side")
    left = side.text == "left"
    n = to_z3(a.shape[0])
    V = _arr(I, st, v)
    f = z3.Function(fresh_name("ss"), *([z3.IntSort()] * (V.ndim if V is not None else 0)), z3.IntSort()) \
        if V is not None else None

    def facts(r, x):
        j = z3.Int(fresh_name("j"))
        aj, xx = num_pair(to_z3(a.elem(j)), x)
        st.fact(z3.And(r >= 0, r <= n))
        st.fact(z3.ForAll([j], z3.Implies(z3.And(j >= 0, j < r), aj < xx if left else aj <= xx)))
        st.fact(z3.ForAll([j], z3.Implies(z3.And(j >= r, j < n), aj >= xx if left else aj > xx)))
    if V is None:
        r = z3.Int(fresh_name("ss"))
        facts(r, v)
        return r

    def elem(*idx):
        r = f(*[to_z3(i) for i in idx])
        facts(r, V.elem(*idx))
        return r
    return st.alloc(Arr(V.shape, elem, kind="ndarray", etype="int"), "arr")


def np_minmax2(is_max):
    def h(I, st, args, kw, node):
        used("np.maximum / np.minimum: elementwise")

        def f(x, y):
            x, y = num_pair(x, y)
            return z3.If(x >= y, x, y) if is_max else z3.If(x <= y, x, y)
        return elementwise2(I, st, f, args[0], args[1], node)
    return h


def np_fabs(I, st, args, kw, node):
    used("np.fabs / np.abs / np.absolute: elementwise absolute value")
    return b_abs(I, st, args, kw, node)


def np_min(is_max):
    def h(I, st, args, kw, node):
        v = args[0]
        if kw.get("axis") is not None or len(args) > 1:
            raise Unsupported("np.min with axis")
        a = I.arr_of(v, st)
        return reduce_extreme(I, st, a, is_max, node)
    return h


def np_round(I, st, args, kw, node):
    used("np.round(x, p): uninterpreted function of (x, p) with round(0, p) == 0 unknown")
    x = args[0]
    p = args[1] if len(args) > 1 else kw.get("decimals", 0)
    if _arr(I, st, x) is not None:
        return elementwise(I, st, lambda e: _UROUND(to_real(e), to_z3(p)), x)
    return _UROUND(to_real(x), to_z3(p))


_ARGSORT_CACHE: dict = {}     # id(array value) -> (array value kept alive, p, q, facts)


def np_argsort(I, st, args, kw, node):
    used("np.argsort: a permutation p with x[p[i]] <= x[p[i+1]] - a FUNCTION of the array value (the same value sorted "
         "twice gives the same permutation)")
    if kw or len(args) != 1:
        raise Unsupported(f"np.argsort with options {sorted(kw)}")
    a = I.arr_of(args[0], st)
    if a.ndim != 1:
        raise Unsupported("argsort n-d")
    n = to_z3(a.shape[0])
    ent = _ARGSORT_CACHE.get(id(a))
    if ent is None or ent[0] is not a:
        p = z3.Function(fresh_name("perm"), z3.IntSort(), z3.IntSort())
        q = z3.Function(fresh_name("perminv"), z3.IntSort(), z3.IntSort())
        i, j = z3.Int(fresh_name("i")), z3.Int(fresh_name("j"))
        x, y = num_pair(to_z3(a.elem(p(i))), to_z3(a.elem(p(j))))
        facts = [z3.ForAll([i], z3.Implies(z3.And(i >= 0, i < n), z3.And(p(i) >= 0, p(i) < n, q(p(i)) == i))),
                 z3.ForAll([i], z3.Implies(z3.And(i >= 0, i < n), z3.And(q(i) >= 0, q(i) < n, p(q(i)) == i))),
                 z3.ForAll([i, j], z3.Implies(z3.And(i >= 0, i <= j, j < n), x <= y)),
                 # surjectivity in existential form (helps instantiation): every position is hit
                 z3.ForAll([j], z3.Implies(z3.And(j >= 0, j < n), z3.Exists([i], z3.And(i >= 0, i < n, p(i) == j))),
                           patterns=[HINT(j)])]
        ent = _ARGSORT_CACHE[id(a)] = (a, p, q, facts)
    _a, p, q, facts = ent
    have = {g.get_id() for g in st.facts if is_z3(g)}
    for f in facts:
        if f.get_id() not in have:
            _ext(st, f, [p, q])
    return st.alloc(Arr((a.shape[0],), lambda t: p(to_z3(t)), kind="ndarray", etype="int"), "arr")


def np_stack(axis0_only=True, name="np.vstack"):
    def h(I, st, args, kw, node):
        used("np.vstack / np.hstack(1-d) / np.concatenate(axis=0): fresh array, first operand is a prefix")
        seq = args[0]
        parts = seq.items if isinstance(seq, VTuple) else None
        if parts is None:
            a = I.arr_of(seq, st)
            n = I.concrete_int(a.shape[0])
            if n is None:
                return _stack_symbolic(I, st, a, node)
            parts = [a.elem(i) for i in range(n)]
        arrs = [I.arr_of(p, st) for p in parts]
        nd = arrs[0].ndim
        for b in arrs[1:]:
            if b.ndim != nd:
                raise Unsupported("stack of arrays of different rank")
            for x, y in zip(arrs[0].shape[1:], b.shape[1:]):
                _dims_equal(I, st, x, y, node)
        total = arrs[0].shape[0]
        for b in arrs[1:]:
            total = _add(total, b.shape[0])

        def elem(*idx):
            i = to_z3(idx[0])
            off = z3.IntVal(0)
            out = None
            cases = []
            for b in arrs:
                cases.append((off, b))
                off = off + to_z3(b.shape[0])
            out = cases[-1][1].elem(i - cases[-1][0], *idx[1:])
            for off_k, b in reversed(cases[:-1]):
                out = _ite_val(i < off_k + to_z3(b.shape[0]), b.elem(i - off_k, *idx[1:]), out)
            return out
        et = arrs[0].etype
        shape = (total,) + tuple(arrs[0].shape[1:])
        named = _name_elements(I, st, shape, elem, et)
        return st.alloc(Arr(shape, named or elem, kind="ndarray", etype=et), "arr")
    return h


def _name_elements(I, st, shape, elem, et):
    """Give a piecewise-defined numeric array a NAMED element function f with the (total, definitional) axiom
    forall idx: f(idx) == <piecewise expression>: terms stay small applications the solver can match on."""
    if et not in ("real", "int", "nat") or all(I.concrete_int(s) is not None for s in shape):
        return None
    nd = len(shape)
    f = z3.Function(fresh_name("stk"), *([z3.IntSort()] * nd), z3.RealSort() if et == "real" else z3.IntSort())
    idx = [z3.Int(fresh_name("q")) for _ in range(nd)]
    nf = len(st.facts)
    try:
        body = elem(*idx)
    except Unsupported:
        del st.facts[nf:]
        return None
    if not is_num(body):
        del st.facts[nf:]
        return None
    body = to_real(body) if et == "real" else to_z3(body)
    inner = [to_z3(x) for x in st.facts[nf:]]
    del st.facts[nf:]
    from .calls import _mentions
    for x in inner:
        st.fact(z3.ForAll(idx, x) if any(_mentions(x, v) for v in idx) else x)
    app = f(*idx)
    st.fact(z3.ForAll(idx, app == body, patterns=[app]))
    return lambda *ix: f(*[to_z3(i) for i in ix])


def _stack_symbolic(I, st, a: Arr, node):
    """np.vstack of a list of UNKNOWN length whose items are 1-d arrays: row i of the result is item i."""
    used("np.vstack(list of k equally long 1-d arrays): a (k, n) array, row i is item i; k >= 1 required")
    nz = to_z3(a.shape[0])
    first = _arr(I, st, a.elem(z3.IntVal(0)))
    if first is None or first.ndim != 1:
        raise Unsupported("stack of a symbolic number of non-1-d items")
    L = first.shape[0]
    if not I.in_contract and not I.dry:
        I.safety(st, nz >= 1, "stack-of-nonempty-list", node)
        k = z3.Int(fresh_name("sk"))
        lk = _arr(I, st, a.elem(k)).shape[0]
        I.oblige(st, zimplies(zand(k >= 0, k < nz), to_z3(lk) == to_z3(L)), "S", "stacked-rows-equally-long", node)
    return st.alloc(Arr((a.shape[0], L), lambda i, j: _arr(I, st, a.elem(i)).elem(j), kind="ndarray",
                        etype=first.etype), "arr")


def np_repeat(I, st, args, kw, node):
    used("np.repeat(a, k, axis=0): row r of the result is row r // k of a")
    k = args[1] if len(args) > 1 else kw.get("repeats")
    ax = kw.get("axis", args[2] if len(args) > 2 else None)
    if _arr(I, st, args[0]) is None and (ax is None or ax is NONE):
        v0 = args[0]   # np.repeat(scalar, n): n copies
        return st.alloc(Arr((k,), lambda *idx: v0, kind="ndarray", etype=etype_of(v0)), "arr")
    a = I.arr_of(args[0], st)
    if I.concrete_int(ax) != 0:
        raise Unsupported("np.repeat axis != 0")
    kz = to_z3(k)
    I.safety(st, kz >= 1, "repeat-count-positive", node)
    out = Arr((to_z3(a.shape[0]) * kz,) + tuple(a.shape[1:]),
              lambda *idx: a.elem(to_z3(idx[0]) / kz, *idx[1:]), kind="ndarray", etype=a.etype)
    src = args[0]
    if isinstance(src, Ref) and src.what == "arr":
        out._row_alias = (stable_id(st.heap[src.rid]), lambda r: to_z3(r) / kz)   # type: ignore[attr-defined]
    return st.alloc(out, "arr")


def np_divmod(I, st, args, kw, node):
    used("np.divmod(i, b): elementwise floor division and remainder (operands >= 0, divisor > 0 required)")
    a, b = args[0], args[1]
    A, B = _arr(I, st, a), _arr(I, st, b)
    if not I.in_contract and not I.dry:
        # obligation: divisor positive, dividend non-negative (then floor == Euclidean division)
        probe = elementwise2(I, st, lambda x, y: z3.And(to_z3(y) > 0, to_z3(x) >= 0), a, b, node)
        P = I.arr_of(probe, st)
        js = [z3.Int(fresh_name("dm")) for _ in range(P.ndim)]
        rng = zand(*[zand(j >= 0, j < to_z3(m_)) for j, m_ in zip(js, P.shape)])
        I.oblige(st, zimplies(rng, P.elem(*js)), "S", "divmod-operands-in-range", node)
    q = elementwise2(I, st, lambda x, y: to_z3(x) / to_z3(y), a, b, node)
    r = elementwise2(I, st, lambda x, y: to_z3(x) % to_z3(y), a, b, node)
    return VTuple([q, r])


def np_reshape(I, st, args, kw, node):
    """np.reshape(a, (p, e, *rest)) where a has shape (p*e, *rest): the first axis is split, block (i, e) is row i*e_+e.
    Any other size relation raises ValueError in NumPy (both outcomes are produced)."""
    a = I.arr_of(args[0], st)
    shp = args[1] if len(args) > 1 else kw.get("newshape", kw.get("shape"))
    if not isinstance(shp, VTuple) or len(shp.items) != a.ndim + 1 or len(shp.items) < 2:
        raise Unsupported("np.reshape form (only: split the first axis in two)")
    used("np.reshape(a, (p, e, *rest)) of a (p*e, *rest) array: block (i, j) is row i*e + j; any other size relation "
         "raises ValueError")
    p_, e_ = to_z3(shp.items[0]), to_z3(shp.items[1])
    rest = shp.items[2:]
    # (an array with no rows has no elements: whatever its trailing dimensions, it reshapes to any shape of size 0)
    compat = zand(to_z3(a.shape[0]) == p_ * e_, p_ >= 0, e_ >= 0,
                  zor(to_z3(a.shape[0]) == 0, zand(*[to_z3(x) == to_z3(y) for x, y in zip(a.shape[1:], rest)])))
    outs = []
    if not I.in_contract:
        s_bad = st.fork()
        s_bad.assume(znot(compat))
        outs.append((s_bad, None, Exc("ValueError", ())))
        st.assume(compat)
    def elem(i, j, *r):
        iz, jz = to_z3(i), to_z3(j)
        flat = iz * e_ + jz
        # arithmetic lemma instance (true for all integers): the flat index of block (i, j) splits back into (i, j)
        st.fact(z3.Implies(z3.And(jz >= 0, jz < e_), z3.And(flat / e_ == iz, flat % e_ == jz)))
        return a.elem(flat, *r)
    val = st.alloc(Arr(tuple(shp.items), elem, kind="ndarray", etype=a.etype), "arr")
    return outs + [(st, val, None)] if outs else val


def m_reshape(I, st, recv, args, kw, node):
    """a.reshape((1, -1)) / a.reshape((-1, 1)) of a 1-d array (row / column vector); other shapes unsupported."""
    used("ndarray.reshape((1,-1)) / ((-1,1)) of a 1-d array")
    a = I.arr_of(recv, st)
    shp = args[0] if len(args) == 1 else VTuple(list(args))
    if not isinstance(shp, VTuple) or a.ndim != 1 or len(shp.items) != 2:
        raise Unsupported("reshape form")
    x, y = [I.concrete_int(v) for v in shp.items]
    if x == 1 and y == -1:
        return st.alloc(Arr((1, a.shape[0]), lambda r, c: a.elem(c), kind="ndarray", etype=a.etype), "arr")
    if x == -1 and y == 1:
        return st.alloc(Arr((a.shape[0], 1), lambda r, c: a.elem(r), kind="ndarray", etype=a.etype), "arr")
    raise Unsupported("reshape form")


def m_dot(I, st, recv, args, kw, node):
    used("ndarray.dot of an (n,1) by a (1,d) matrix: outer product")
    a, b = I.arr_of(recv, st), I.arr_of(args[0], st)
    if a.ndim == 2 and b.ndim == 2 and I.concrete_int(a.shape[1]) == 1 and I.concrete_int(b.shape[0]) == 1:
        return st.alloc(Arr((a.shape[0], b.shape[1]),
                            lambda r, c: to_real(a.elem(r, 0)) * to_real(b.elem(0, c)), kind="ndarray", etype="real"), "arr")
    raise Unsupported("dot of general matrices")


def np_power(I, st, args, kw, node):
    used("np.power / pow: uninterpreted function of (base, exponent)")
    return elementwise2(I, st, lambda x, y: upow(x, y, st), args[0], args[1], node)


LIB = {
    "np.argmax": np_argmax,
    "np.argmin": lambda I, st, a, k, n: np_argmax(I, st, a, k, n, is_max=False),
    "np.arange": np_arange,
    "np.zeros": np_zeros,
    "np.ones": lambda I, st, a, k, n: np_zeros(I, st, a, k, n, fill=1.0),
    "np.copy": np_copy,
    "np.array": np_copy,
    "np.asarray": np_copy,
    "np.searchsorted": np_searchsorted,
    "np.maximum": np_minmax2(True),
    "np.minimum": np_minmax2(False),
    "np.fabs": np_fabs, "np.abs": np_fabs, "np.absolute": np_fabs,
    "np.min": np_min(False), "np.max": np_min(True),
    "np.round": np_round,
    "np.argsort": np_argsort,
    "np.vstack": np_stack(), "np.hstack": np_stack(), "np.concatenate": np_stack(),
    "np.repeat": np_repeat, "np.reshape": np_reshape,
    "np.divmod": np_divmod,
    "np.power": np_power,
    "time.time": lambda I, st, a, k, n: z3.Real(fresh_name("now")),
    "np.average": lambda I, st, a, k, n: (used("np.average/np.mean: some real (pure)"), z3.Real(fresh_name("avg")))[1],
    "np.mean": lambda I, st, a, k, n: (used("np.average/np.mean: some real (pure)"), z3.Real(fresh_name("avg")))[1],
    "np.int64": lambda I, st, a, k, n: a[0],
    "threading.Thread": lambda I, st, a, k, n: Opaque(z3.Const(fresh_name("thread"), ObjS), "Thread"),
    "contextlib.suppress": lambda I, st, a, k, n: _suppress(a),
    "np.float64": lambda I, st, a, k, n: to_real(a[0]) if is_z3(a[0]) else float(a[0]),
    "warnings.warn": lambda I, st, a, k, n: NONE,
    "textwrap.dedent": lambda I, st, a, k, n: a[0],
    "multiprocessing.cpu_count": lambda I, st, a, k, n: _posint(st, "cpus"),
}


def _suppress(classes):
    o = Opaque(z3.Const(fresh_name("suppress"), ObjS), "suppress")
    o._suppressed = [c.name for c in classes if isinstance(c, VClass)]  # type: ignore[attr-defined]
    return o


def _posint(st, name):
    v = z3.Int(fresh_name(name))
    st.fact(v >= 1)
    return v


# ------------------------------------------------------------------------------------------------ rng

_RNG_NEXT = z3.Function("rng_next", z3.IntSort(), z3.IntSort(), z3.IntSort())  # (state, call-kind) -> state
_RNG_REAL = z3.Function("rng_real", z3.IntSort(), z3.IntSort(), z3.RealSort())  # (state, position) -> [0,1)
_RNG_INT = z3.Function("rng_int", z3.IntSort(), z3.IntSort(), z3.IntSort(), z3.IntSort(), z3.IntSort())


def rng_random(I, st, rng: Obj, args, kw, node):
    used("Generator.random(): value in [0,1), a function of the generator state; state advances")
    s = st.heap[rng.oid]["state"]
    size = kw.get("size", args[0] if args else None)
    st.heap[rng.oid]["state"] = _RNG_NEXT(s, z3.IntVal(1))
    if size is None or size is NONE:
        v = _RNG_REAL(s, z3.IntVal(0))
        st.fact(z3.And(v >= 0, v < 1))
        return v
    raise Unsupported("Generator.random(size=...)")


def rng_integers(I, st, rng: Obj, args, kw, node):
    used("Generator.integers(lo, hi): lo <= value < hi, a function of the generator state; state advances")
    s = st.heap[rng.oid]["state"]
    if len(args) == 1:
        lo, hi = 0, args[0]
    else:
        lo, hi = args[0], args[1]
    size = kw.get("size") if kw.get("size") is not None else (args[2] if len(args) > 2 else None)
    if size is not None:
        if isinstance(size, VTuple) and len(size.items) == 1:
            size = size.items[0]
        if not is_num(size) or (set(kw) - {"size"}):
            raise Unsupported("Generator.integers(size=...) with a non-integer size / further options")
        used("Generator.integers(lo, hi, size=n): n values, each lo <= value < hi; state advances")
        st.heap[rng.oid]["state"] = _RNG_NEXT(s, z3.IntVal(2))
        I.safety(st, zor(to_z3(size) <= 0, to_z3(lo) < to_z3(hi)), "integers-range-nonempty", node)
        I.safety(st, to_z3(size) >= 0, "size-nonnegative", node)
        f = z3.Function(fresh_name("rints"), z3.IntSort(), z3.IntSort())
        t = z3.Int(fresh_name("t"))
        _ext(st, z3.ForAll([t], z3.And(f(t) >= to_z3(lo), f(t) < to_z3(hi))), [f])
        return st.alloc(Arr((size,), lambda i: f(to_z3(i)), kind="ndarray", etype="int"), "arr")
    if set(kw) - {"size"}:
        raise Unsupported(f"Generator.integers with options {sorted(kw)}")
    st.heap[rng.oid]["state"] = _RNG_NEXT(s, z3.IntVal(2))
    v = _RNG_INT(s, to_z3(lo), to_z3(hi), z3.IntVal(0))
    I.safety(st, to_z3(lo) < to_z3(hi), "integers-range-nonempty", node)
    st.fact(z3.And(v >= to_z3(lo), v < to_z3(hi)))
    return v


def rng_choice(I, st, rng: Obj, args, kw, node):
    used("Generator.choice(a, size[, replace=False]): every output is an element of a (by index; pairwise different "
         "indices without replacement, which needs size <= len(a)); choice(n, ...) draws from arange(n); state advances")
    s = st.heap[rng.oid]["state"]
    a = _arr(I, st, args[0])
    if a is None and is_num(args[0]) and not (is_z3(args[0]) and z3.is_real(args[0])):
        pop = to_z3(args[0])        # choice(n, ...): the population is arange(n)
        a = Arr((pop,), lambda i: to_z3(i), kind="ndarray", etype="int")
    size = args[1] if len(args) > 1 else kw.get("size")
    if set(kw) - {"size", "replace"} or len(args) > 2:
        raise Unsupported(f"Generator.choice with options {sorted(kw)}")
    repl = kw.get("replace", True)
    if not isinstance(repl, bool):
        raise Unsupported("Generator.choice with a symbolic replace flag")
    st.heap[rng.oid]["state"] = _RNG_NEXT(s, z3.IntVal(3))
    if a is None or a.ndim != 1:
        raise Unsupported("choice from non-1d")
    n = to_z3(a.shape[0])
    if isinstance(size, VTuple) and len(size.items) == 1:
        size = size.items[0]
    sa = _arr(I, st, size) if not is_num(size) else None
    if sa is not None and sa.ndim == 1 and I.concrete_int(sa.shape[0]) == 1:
        size = sa.elem(0)           # a one-element shape tuple
    if not is_num(size):
        raise Unsupported("choice size")
    if repl:
        I.safety(st, zor(to_z3(size) <= 0, n >= 1), "choice-from-nonempty", node)
    else:
        I.safety(st, to_z3(size) <= n, "sample-not-larger-than-population", node)
    I.safety(st, to_z3(size) >= 0, "size-nonnegative", node)
    idxf = z3.Function(fresh_name("choice_idx"), z3.IntSort(), z3.IntSort())
    t, u = z3.Int(fresh_name("t")), z3.Int(fresh_name("u"))
    sz = to_z3(size)
    _ext(st, z3.ForAll([t], z3.Implies(z3.And(t >= 0, t < sz), z3.And(idxf(t) >= 0, idxf(t) < n))), [idxf])
    if not repl:
        _ext(st, z3.ForAll([t, u], z3.Implies(z3.And(t >= 0, t < u, u < sz), idxf(t) != idxf(u))), [idxf])

    def elem(i):
        return a.elem(idxf(to_z3(i)))
    return st.alloc(Arr((size,), elem, kind="ndarray", etype=a.etype), "arr")


OBJ_METHODS = {"rng": {"random": rng_random, "integers": rng_integers, "choice": rng_choice}}


# ---- queue / thread models (sequential view of ONE thread; the other thread's actions are not visible) ----------
def _gint(st, name):
    if name not in st.ghost:
        st.ghost[name] = z3.Int(fresh_name("ghost." + name))
    return st.ghost[name]


def q_put(kind):
    def h(I, st, recv, args, kw, node):
        used("queue.Queue.put / get / get_nowait: unbounded FIFO (per-thread sequential view; ghost counters)")
        st.ghost[f"{kind}_put"] = to_z3(_gint(st, f"{kind}_put")) + 1
        v = args[0]
        st.ghost[f"{kind}_last_put_is_none"] = (v is NONE)
        if kind == "actions" and is_num(v):
            st.ghost["last_action_put"] = v
        return NONE
    return h


def q_get(kind):
    def h(I, st, recv, args, kw, node):
        used("queue.Queue.put / get / get_nowait: unbounded FIFO (per-thread sequential view; ghost counters)")
        st.ghost[f"{kind}_got"] = to_z3(_gint(st, f"{kind}_got")) + 1
        if kind == "actions":
            a = z3.Int(fresh_name("action_msg"))
            st.fact(z3.And(a >= 0, a < to_z3(_gint(st, "n_samplers"))))   # assumed: only validated actions are queued
            st.ghost["last_action_got"] = a
            return a
        isn = z3.Bool(fresh_name("outcome_is_marker"))
        st.ghost["last_outcome_is_marker"] = isn
        return Opt(isn, VTuple([Opaque(z3.Const(fresh_name("best_param"), ObjS), None), z3.Real(fresh_name("best_loss"))]))
    return h


def q_get_nowait(kind):
    def h(I, st, recv, args, kw, node):
        n = to_z3(_gint(st, f"{kind}_pending"))
        s_empty = st.fork()
        s_empty.assume(n <= 0)
        st.assume(n > 0)
        st.ghost[f"{kind}_pending"] = n - 1
        return [(st, z3.Int(fresh_name("dropped")), None), (s_empty, None, Exc("Empty", ()))]
    return h


def thread_start(I, st, recv, args, kw, node):
    used("threading.Thread start / join: ghost count of live threads started by this object")
    st.ghost["live_threads"] = to_z3(_gint(st, "live_threads")) + 1
    return NONE


def thread_join(I, st, recv, args, kw, node):
    st.ghost["live_threads"] = to_z3(_gint(st, "live_threads")) - 1
    return NONE


OPAQUE_METHODS: dict = {
    "QueueActions": {"put": q_put("actions"), "get": q_get("actions"), "get_nowait": q_get_nowait("actions")},
    "QueueOutcomes": {"put": q_put("outcomes"), "get": q_get("outcomes"), "get_nowait": q_get_nowait("outcomes")},
    "Thread": {"start": thread_start, "join": thread_join},
    "Discrete": {"contains": lambda I, st, recv, args, kw, node: z3.Bool(fresh_name("contains"))},
}


# ------------------------------------------------------------------------------------------------ value methods

def m_any(I, st, recv, args, kw, node, is_any=True):
    used(".any() / .all(): existential / universal over the elements")
    a = I.arr_of(recv, st)
    idx = [z3.Int(fresh_name("q")) for _ in range(a.ndim)]
    rng = zand(*[zand(i >= 0, i < to_z3(n)) for i, n in zip(idx, a.shape)])
    body = to_z3(I.truth(a.elem(*idx), st))
    return z3.Exists(idx, z3.And(to_z3(rng), body)) if is_any else z3.ForAll(idx, z3.Implies(to_z3(rng), body))


def m_append(I, st, recv, args, kw, node):
    if not (isinstance(recv, Ref) and recv.what == "arr"):
        raise Unsupported("append on non-list")
    a = st.heap[recv.rid]
    if a.kind != "list":
        raise Unsupported("append on ndarray")
    n = a.shape[0]
    item = args[0]
    cn = I.concrete_int(n)
    old = a.elem
    if isinstance(item, Ref) and item.what == "arr":
        item = st.heap[item.rid]     # snapshot (arrays stored into a list are assumed not to be mutated afterwards)
    if a.etype == "any":
        a = Arr(a.shape, a.elem, kind=a.kind, etype=etype_of(item))
    if cn is not None:
        st.heap[recv.rid] = Arr((cn + 1,), lambda i: (item if I.concrete_int(i) == cn else
                                                      (old(i) if I.concrete_int(i) is not None else
                                                       _ite_val(to_z3(i) == cn, item, old(i)))), kind="list",
                                etype=a.etype)
    else:
        st.heap[recv.rid] = Arr((to_z3(n) + 1,), lambda i: _ite_val(to_z3(i) == to_z3(n), item, old(i)),
                                kind="list", etype=a.etype)
    return NONE


def etype_of(item):
    if isinstance(item, bool) or (is_z3(item) and z3.is_bool(item)):
        return "bool"
    if isinstance(item, int) or (is_z3(item) and z3.is_int(item)):
        return "int"
    if isinstance(item, float) or (is_z3(item) and z3.is_real(item)):
        return "real"
    if isinstance(item, VStr):
        return "str"
    if isinstance(item, Opaque) and item.cls:
        return "opaque:" + item.cls
    if isinstance(item, Arr) and item.kind == "ndarray" and item.etype in ("real", "int"):
        return f"arr{item.ndim}[{item.etype}]"
    return "any"


def m_values(I, st, recv, args, kw, node):
    if isinstance(recv, Ref) and recv.what == "dict":
        return DictValues(st.heap[recv.rid])
    raise Unsupported(".values() on " + type(recv).__name__)


def m_tolist(I, st, recv, args, kw, node):
    a = I.arr_of(recv, st)
    return st.alloc(Arr(a.shape, a.elem, kind="list", etype=a.etype), "arr")


def m_copy(I, st, recv, args, kw, node):
    a = I.arr_of(recv, st)
    return st.alloc(Arr(a.shape, a.elem, kind=a.kind, etype=a.etype), "arr")


def m_dict_get(I, st, recv, args, kw, node):
    """d.get(k[, default])"""
    default = args[1] if len(args) > 1 else NONE
    if isinstance(recv, Ref) and recv.what == "dict":
        d = st.heap[recv.rid]
        k = args[0]
        if default is NONE:
            return Opt(znot(d.has(k)), d.get(k))
        return _ite_val(to_z3(d.has(k)), d.get(k), default)
    if isinstance(recv, Ref) and recv.what == "cdict":
        d = st.heap[recv.rid]
        k = args[0]
        if isinstance(k, VStr) and k.text is not None:
            return d.items.get(k.text, default)
        if isinstance(k, VStr) and not d.fam and all(isinstance(x, str) for x in d.items):
            from .values import intern_str
            out = default
            for key, val in reversed(list(d.items.items())):
                out = _ite_val(to_z3(k.sid) == intern_str(key), val, out)
            return out
    raise Unsupported(".get on " + type(recv).__name__)


VALUE_METHODS = {
    "get": m_dict_get,
    "any": m_any, "all": lambda I, st, r, a, k, n: m_any(I, st, r, a, k, n, is_any=False),
    "append": m_append, "values": m_values, "tolist": m_tolist, "copy": m_copy, "reshape": m_reshape, "dot": m_dot,
}


def cm_enter_value(I, st, cm):
    return cm


def cm_exit(I, st, cm, exceptional):
    return


OPAQUE_CALL: dict = {}      # class of an opaque callable -> model of calling it
OPAQUE_GETITEM: dict = {}
OPAQUE_SETITEM: dict = {}
OPAQUE_ATTRS: dict = {}


def opaque_getitem(I, st, base, sl, node):
    h = OPAQUE_GETITEM.get(base.cls)
    if h is None:
        raise Unsupported("subscript of opaque object")
    return h(I, st, base, sl, node)
