"""Developer CLI: python3-vt -m pyvc.cli <function key substring> [-v]"""
import sys, json
from .verify import load_sidecars, verify_function
from .repo import Repo

def main():
    reg = load_sidecars()
    repo = Repo()
    pat = sys.argv[1] if len(sys.argv) > 1 else ""
    verbose = "-v" in sys.argv
    for key in reg["contracts"]:
        c = reg["contracts"][key]
        if pat not in key or c.abstract or c.trusted:
            continue
        from .verify import facets_of
        for fct in [None] + facets_of(key, reg):
            _one(key, repo, reg, fct, verbose)


def _one(key, repo, reg, fct, verbose):
    if True:
        r = verify_function(key, repo, reg, timeout_s=20, facet=fct)
        key = key if fct is None else f"{key}@{fct}"
        nproved = sum(1 for g in r.groups.values() if g["verdict"] == "proved")
        print(f"{key}: {r.status} {r.reason} groups={len(r.groups)} proved={nproved} outcomes={r.outcomes}/{r.feasible_outcomes} t={r.time:.1f}s")
        for n, g in r.groups.items():
            if g["verdict"] != "proved" or verbose:
                print("   ", g["verdict"], n, f"x{g['instances']}", f"{g['time']:.2f}s", g["detail"][:300] if g["verdict"]!="proved" else "")
                if g["witness"] is not None:
                    print("      witness:", json.dumps(g["witness"], default=str)[:600])

if __name__ == "__main__":
    import os as _os
    if _os.environ.get("PYTHONHASHSEED") != "0":      # same premise order on every run (see ./check)
        _os.environ["PYTHONHASHSEED"] = "0"
        _os.execv(sys.executable, [sys.executable, "-m", "pyvc.cli"] + sys.argv[1:])
    main()
