"""Symbolic values and machine state of pyvc (runs under python3-vt: stdlib + z3).

Encoding summary (repeated in every evidence file, see report.ENCODING_ASSUMPTIONS):
  int   -> z3 Int (mathematical)            bool -> z3 Bool
  float -> z3 Real (mathematical; rounding NOT modelled unless a function is run in fp64 mode)
  str / class names -> interned integers (only equality is meaningful)
  None  -> NONE;   "T | None" -> Opt(is_none, value)
  list / tuple / ndarray -> Arr(shape, elem-closure); mutable ones live in the heap behind a Ref
  objects -> Obj(id, cls) with a field map in the heap; opaque foreign objects -> z3 const of sort ObjS
"""
from __future__ import annotations

import itertools
import os

import z3

ObjS = z3.DeclareSort("Obj")

# (PYVC_NAME_OFFSET shifts the numbering of fresh names: a proof must not depend on it - tools/allchecks.sh can be run with
#  several offsets to find solver-unstable obligations)
_counter = itertools.count(int(os.environ.get("PYVC_NAME_OFFSET", "0") or 0))


def fresh_name(base: str) -> str:
    return f"{base}!{next(_counter)}"


class Unsupported(Exception):
    """Construct outside the verified subset: the obligation is UNDECIDED (never a violation)."""


class VerifierBug(Exception):
    pass


class _NoneT:
    def __repr__(self):
        return "NONE"


NONE = _NoneT()

# ---------------------------------------------------------------- strings / class names

_interned: dict[str, int] = {}


def intern_str(s: str) -> int:
    """Strings are interned to distinct integers >= 1000; symbolic strings range over all ints."""
    if s not in _interned:
        _interned[s] = 1000 + len(_interned)
    return _interned[s]


def str_of_id(i: int) -> str | None:
    for k, v in _interned.items():
        if v == i:
            return k
    return None


class VStr:
    """A string value. `sid` is a python int (concrete) or a z3 Int (symbolic)."""

    def __init__(self, sid, text: str | None = None, fparts=None):
        self.sid = sid
        self.text = text
        self.fparts = fparts   # (prefix, int term) for an f-string of the form f"prefix{int}"

    @staticmethod
    def const(s: str) -> "VStr":
        return VStr(intern_str(s), s)

    def __repr__(self):
        return f"VStr({self.text!r})" if self.text is not None else f"VStr({self.sid})"


class VClass:
    """A class used as a value (exception classes, isinstance targets). name may be symbolic (z3 Int)."""

    def __init__(self, name):
        self.name = name  # python str, or z3 Int for a symbolic class

    def __repr__(self):
        return f"VClass({self.name})"


class Opt:
    """A value that may be None."""

    def __init__(self, is_none, val):
        self.is_none = is_none
        self.val = val


class Arr:
    """Immutable array / list / tuple value.

    shape: tuple of (python int | z3 Int); elem(*idx) -> value (z3 expr or any Value).
    kind in {'list','tuple','ndarray'}; esort describes the element type for havoc.
    """

    def __init__(self, shape, elem, kind="ndarray", etype="real"):
        self.shape = tuple(shape)
        self.elem = elem
        self.kind = kind
        self.etype = etype

    @property
    def ndim(self):
        return len(self.shape)

    def length(self):
        return self.shape[0]


class DictV:
    """Dict with symbolic key set. keys are interned strings (ints). has(k)->Bool, get(k)->value."""

    def __init__(self, has, get, vtype="int", size=None):
        self.has = has
        self.get = get
        self.vtype = vtype
        self.size = size  # symbolic cardinality (only related to `has` through the store operation)


class CDict:
    """Dict with concrete (python str) keys and arbitrary values; insertion order kept."""

    def __init__(self, items=None, fam=None):
        self.items = dict(items or {})
        # key families f"prefix{d}": prefix -> (has(d) -> bool term, get(d) -> value)
        self.fam = dict(fam or {})


class Ref:
    """Reference to a mutable heap cell holding an Arr / DictV / CDict."""

    def __init__(self, rid, what):
        self.rid = rid
        self.what = what  # 'arr' | 'dict' | 'cdict'

    def __repr__(self):
        return f"Ref({self.rid},{self.what})"


class Obj:
    """Reference to a heap object with named fields."""

    def __init__(self, oid, cls):
        self.oid = oid
        self.cls = cls

    def __repr__(self):
        return f"Obj({self.oid},{self.cls})"


class Opaque:
    """Foreign / abstract object: z3 constant of the uninterpreted sort Obj, with a protocol class."""

    def __init__(self, term, cls=None):
        self.term = term
        self.cls = cls

    def __repr__(self):
        return f"Opaque({self.term},{self.cls})"


class Exc:
    """A raised exception value."""

    def __init__(self, cls, args=(), fields=None):
        self.cls = cls  # python str or z3 Int (symbolic class)
        self.args = tuple(args)
        self.fields = dict(fields or {})

    def __repr__(self):
        return f"Exc({self.cls})"


class VTuple:
    """Concrete-length heterogeneous tuple (also used for tuple-unpacking results)."""

    def __init__(self, items):
        self.items = list(items)

    def __repr__(self):
        return f"VTuple({self.items})"


class ViewRef:
    """The row view a[i] handed out by `for row in a` over a heap ndarray whose body writes through `row`: reads and
    writes of row[...] go to the CURRENT content of the array (any other use takes a snapshot of the row)."""

    def __init__(self, base, index):
        self.base = base      # Ref to the ndarray cell
        self.index = index    # int / z3 Int: the row

    def __repr__(self):
        return f"ViewRef({self.base},{self.index})"


class Poison:
    """Value of a local that is (re)defined inside a loop body and undefined at the loop head."""

    def __init__(self, name):
        self.name = name


class Iter:
    """Abstract iterable: length + item(i)."""

    def __init__(self, length, item):
        self.length = length
        self.item = item


class Closure:
    """lambda inside a contract expression."""

    def __init__(self, params, body, env):
        self.params = params
        self.body = body
        self.env = env


class BoundMethod:
    def __init__(self, recv, name):
        self.recv = recv
        self.name = name


class ModuleV:
    def __init__(self, path):
        self.path = path  # dotted, e.g. 'np', 'np.random'

    def __repr__(self):
        return f"ModuleV({self.path})"


class FuncV:
    """A repo function / lib function referenced by dotted name."""

    def __init__(self, qual):
        self.qual = qual


# ---------------------------------------------------------------- helpers on z3 terms


def is_z3(x):
    return isinstance(x, z3.ExprRef)


def is_num(x):
    return isinstance(x, (int, float)) and not isinstance(x, bool) or (is_z3(x) and (z3.is_int(x) or z3.is_real(x)))


def is_boolish(x):
    return isinstance(x, bool) or (is_z3(x) and z3.is_bool(x))


def to_z3(x):
    """python number/bool -> z3 literal; z3 unchanged."""
    if is_z3(x):
        return x
    if isinstance(x, bool):
        return z3.BoolVal(x)
    if isinstance(x, int):
        return z3.IntVal(x)
    if isinstance(x, float):
        if x != x or x in (float("inf"), float("-inf")):
            raise Unsupported("non-finite float constant")
        from fractions import Fraction

        fr = Fraction(x)
        return z3.RealVal(f"{fr.numerator}/{fr.denominator}")
    raise Unsupported(f"cannot convert {type(x).__name__} to z3")


def to_real(x):
    x = to_z3(x)
    if z3.is_int(x):
        return z3.ToReal(x)
    return x


def num_pair(a, b):
    """Coerce two numeric operands to a common sort."""
    a, b = to_z3(a), to_z3(b)
    if z3.is_bool(a):
        a = z3.If(a, z3.IntVal(1), z3.IntVal(0))
    if z3.is_bool(b):
        b = z3.If(b, z3.IntVal(1), z3.IntVal(0))
    if z3.is_real(a) or z3.is_real(b):
        return to_real(a), to_real(b)
    return a, b


def zand(*xs):
    xs = [x for x in xs if not (isinstance(x, bool) and x)]
    if any(isinstance(x, bool) and not x for x in xs):
        return False
    if not xs:
        return True
    if len(xs) == 1:
        return xs[0]
    return z3.And(*[to_z3(x) for x in xs])


def zor(*xs):
    xs = [x for x in xs if not (isinstance(x, bool) and not x)]
    if any(isinstance(x, bool) and x for x in xs):
        return True
    if not xs:
        return False
    if len(xs) == 1:
        return xs[0]
    return z3.Or(*[to_z3(x) for x in xs])


def znot(x):
    if isinstance(x, bool):
        return not x
    return z3.Not(x)


def zimplies(a, b):
    if isinstance(a, bool):
        return b if a else True
    if isinstance(b, bool):
        return True if b else znot(a)
    return z3.Implies(a, b)


def zite(c, a, b):
    if isinstance(c, bool):
        return a if c else b
    if is_boolish(a) and is_boolish(b):
        return z3.If(c, to_z3(a), to_z3(b))
    a, b = num_pair(a, b)
    return z3.If(c, a, b)


# ---------------------------------------------------------------- machine state


class State:
    def __init__(self):
        self.env: dict = {}
        self.heap: dict = {}  # id -> Arr | DictV | CDict | dict(fields)
        self.pc: list = []  # path condition (z3 Bool / python bool)
        self.ghost: dict = {}
        self.facts: list = []  # instantiated library axioms (assumed)
        self.trace: list = []  # effect events along this path (python list of tuples)
        self.notes: list = []

    def fork(self) -> "State":
        s = State()
        s.env = dict(self.env)
        s.heap = {k: (dict(v) if isinstance(v, dict) else v) for k, v in self.heap.items()}
        s.pc = list(self.pc)
        s.ghost = dict(self.ghost)
        s.facts = list(self.facts)
        s.trace = list(self.trace)
        s.notes = list(self.notes)
        return s

    def assume(self, c):
        if isinstance(c, bool):
            if not c:
                self.pc.append(z3.BoolVal(False))
            return
        self.pc.append(c)

    def fact(self, c):
        if isinstance(c, bool):
            if not c:
                self.facts.append(z3.BoolVal(False))
            return
        self.facts.append(c)

    def alloc(self, cell, what) -> Ref:
        rid = next(_counter)
        self.heap[rid] = cell
        return Ref(rid, what)

    def new_obj(self, cls, fields=None) -> Obj:
        oid = next(_counter)
        self.heap[oid] = dict(fields or {})
        return Obj(oid, cls)

    def assumptions(self):
        return [to_z3(c) for c in self.pc] + [to_z3(c) for c in self.facts]
