"""pyvc symbolic executor (part 4): statements, loops cut by invariants, exceptions, with."""
from __future__ import annotations

import ast

import z3

from . import lib
from .calls import FrameCtx, SuperProxy
from .engine import Frame, Outcome, fresh, fresh_arr_like, fresh_like, parse_expr
from .interp import Interp, _check_pure, _is_doc
from .values import (
    NONE, Arr, BoundMethod, CDict, DictV, Exc, Iter, Obj, Opaque, Opt, Poison, Ref, State, Unsupported, VClass, ViewRef,
    VStr, VTuple, fresh_name, is_boolish, is_num, is_z3, to_z3, zand, zite, znot, zor,
)

MAX_UNROLL = 24


def exec_block(self: Interp, stmts, st: State):
    """-> list[Outcome]; states are never shared between outcomes."""
    live = [st]
    done = []
    for s in stmts:
        nxt = []
        for cur in live:
            for o in self.exec_stmt(s, cur):
                if o.kind == "normal":
                    nxt.append(o.state)
                else:
                    done.append(o)
        live = nxt
        if not live:
            break
    return done + [Outcome("normal", s_) for s_ in live]


_ANF_COUNTER = [0]


def _spine_has_call(e):
    """f(..).g(..)  /  f(..)[i]  /  f(..).attr : a call result used as receiver / subscripted / dereferenced"""
    while True:
        if isinstance(e, ast.Call):
            f = e.func
            if isinstance(f, ast.Attribute):
                if isinstance(f.value, ast.Call):
                    return True
                e = f.value
                continue
            return False
        if isinstance(e, (ast.Subscript, ast.Attribute)):
            if isinstance(e.value, ast.Call):
                return True
            e = e.value
            continue
        return False


def _lift_spine(e, pre):
    """Hoist the calls on the receiver spine of e into temporaries (left-to-right order is preserved)."""
    def tmp(call):
        # deterministic per source position: re-executing the statement (loop dry runs) re-uses the same temporary
        name = f"_anf_{getattr(call, 'lineno', 0)}_{getattr(call, 'col_offset', 0)}_{getattr(call, 'end_col_offset', 0)}"
        a = ast.Assign(targets=[ast.Name(id=name, ctx=ast.Store())], value=call, lineno=getattr(e, "lineno", 0))
        ast.copy_location(a, call)
        ast.fix_missing_locations(a)
        pre.append(a)
        return ast.copy_location(ast.Name(id=name, ctx=ast.Load()), call)
    if isinstance(e, ast.Call) and isinstance(e.func, ast.Attribute):
        v = _lift_spine(e.func.value, pre)
        if isinstance(v, ast.Call):
            v = tmp(v)
        return ast.copy_location(ast.Call(func=ast.copy_location(ast.Attribute(value=v, attr=e.func.attr, ctx=ast.Load()),
                                                              e.func), args=e.args, keywords=e.keywords), e)
    if isinstance(e, ast.Subscript):
        v = _lift_spine(e.value, pre)
        if isinstance(v, ast.Call):
            v = tmp(v)
        return ast.copy_location(ast.Subscript(value=v, slice=e.slice, ctx=e.ctx), e)
    if isinstance(e, ast.Attribute):
        v = _lift_spine(e.value, pre)
        if isinstance(v, ast.Call):
            v = tmp(v)
        return ast.copy_location(ast.Attribute(value=v, attr=e.attr, ctx=e.ctx), e)
    return e


def exec_stmt(self: Interp, s, st: State):
    m = getattr(self, "x_" + type(s).__name__, None)
    if m is None:
        raise Unsupported(f"statement {type(s).__name__}")
    if isinstance(s, (ast.Assign, ast.AnnAssign, ast.Expr, ast.Return)) and s.value is not None and \
            _spine_has_call(s.value):
        # a call result used as a receiver: name it first, so that a raising callee forks at statement level
        pre = []
        v2 = _lift_spine(s.value, pre)
        s2 = copy_stmt_with_value(s, v2)
        return self.exec_block(pre + [s2], st)
    scs = []
    fr = self.frame
    if fr is not None and fr.fn is not None and not isinstance(s, (ast.For, ast.While, ast.If, ast.With, ast.Try)):
        key = frame_key(self)
        if key in self.reg["stmts"]:
            text = ast.unparse(s).replace(" ", "").replace("\n", "")
            scs = [sc for sc in self.reg["stmts"][key] if sc.match.replace(" ", "") == text
                   and getattr(sc, "facet", None) == self.facet]
    if not scs:
        return m(s, st)
    before = st.fork()
    outs = m(s, st)
    for o in outs:
        if o.kind not in ("normal", "return"):
            continue
        saved = fr.before if hasattr(fr, "before") else None
        fr.before = before
        try:
            for sc in scs:
                for i, e in enumerate(sc.ensures):
                    g = self.contract_truth(e, o.state)
                    self.oblige(o.state, g, "A", f"{sc.label}#{i}", s)
                    if getattr(sc, "lemma", False):
                        o.state.assume(g)
        finally:
            fr.before = saved
    return outs


def copy_stmt_with_value(s, v):
    import copy as _copy
    s2 = _copy.copy(s)
    s2.value = v
    ast.fix_missing_locations(s2)
    return s2


def _normal(st):
    return [Outcome("normal", st)]


def x_Pass(self, s, st):
    return _normal(st)


def x_Expr(self, s, st):
    v = s.value
    if isinstance(v, ast.Constant):
        return _normal(st)  # docstring
    if isinstance(v, (ast.Yield,)):
        return self.do_yield(s, st)
    if isinstance(v, ast.Call):
        return self.call_stmt(v, st, lambda s2, val: None)
    self.eval(v, st)
    return _normal(st)


def call_stmt(self: Interp, call, st, bind):
    outs = []
    for s2, val, exc in self.call_outcomes(call, st):
        if exc is not None:
            outs.append(Outcome("raise", s2, exc))
        else:
            r = bind(s2, val)
            outs.append(r if isinstance(r, Outcome) else Outcome("normal", s2))
    return outs


def x_Assign(self, s, st):
    if isinstance(s.value, ast.IfExp) and any(isinstance(n, ast.Call) for n in ast.walk(s.value)):
        # x = a if c else b  ==  if c: x = a  else: x = b   (lets a raising call in a branch fork properly)
        def mk(v):
            return ast.copy_location(ast.Assign(targets=s.targets, value=v, lineno=s.lineno), s)
        node = ast.copy_location(ast.If(test=s.value.test, body=[mk(s.value.body)], orelse=[mk(s.value.orelse)]), s)
        return self.x_If(node, st)
    if isinstance(s.value, ast.Call):
        def bind(s2, val):
            for t in s.targets:
                self.assign(t, val, s2)
        return self.call_stmt(s.value, st, bind)
    val = self.eval(s.value, st)
    for t in s.targets:
        self.assign(t, val, st)
    return _normal(st)


def x_AnnAssign(self, s, st):
    if s.value is None:
        return _normal(st)
    if isinstance(s.value, ast.Call):
        return self.call_stmt(s.value, st, lambda s2, val: self.assign(s.target, val, s2))
    self.assign(s.target, self.eval(s.value, st), st)
    return _normal(st)


def x_AugAssign(self, s, st):
    tgt = s.target
    if isinstance(tgt, ast.Subscript) and not isinstance(tgt.slice, (ast.Slice, ast.Tuple)):
        base = self.eval(tgt.value, st)
        if isinstance(base, Ref) and base.what == "arr" and st.heap[base.rid].kind == "ndarray":
            key = self.eval(tgt.slice, st)
            K = lib._arr(self, st, key)
            if K is not None and K.etype == "bool":
                # a[mask] op= v  ->  a[t] := mask[t] ? a[t] op v : a[t]   (in place)
                rhs = self.eval(s.value, st)
                if lib._arr(self, st, rhs) is not None:
                    raise Unsupported("masked augmented assignment with an array operand")
                cell = st.heap[base.rid]
                old = cell.elem
                st.heap[base.rid] = Arr(cell.shape, lambda *idx: lib._ite_val(
                    K.elem(*idx[:K.ndim]), self.scalar_binop(s.op, old(*idx), rhs, st, s), old(*idx)),
                    kind="ndarray", etype=cell.etype)
                return _normal(st)
    load = ast.copy_location(_as_load(tgt), tgt)
    cur = self.eval(load, st)
    rhs = self.eval(s.value, st)
    if isinstance(cur, Ref) and cur.what == "arr":
        cell = st.heap[cur.rid]
        if cell.kind == "ndarray":
            new = self.binop(s.op, cur, rhs, st, s)
            na = self.arr_of(new, st)
            st.heap[cur.rid] = Arr(cell.shape, na.elem, kind="ndarray", etype=cell.etype)  # in place: aliases see it
            return _normal(st)
        if cell.kind == "list" and isinstance(s.op, ast.Add):
            cat = self.arr_of(lib.list_concat(self, st, cur, rhs), st)
            st.heap[cur.rid] = cat
            return _normal(st)
    new = self.binop(s.op, cur, rhs, st, s)
    self.assign(tgt, new, st)
    return _normal(st)


def _as_load(t):
    t2 = ast.parse(ast.unparse(t), mode="eval").body
    return t2


def assign(self: Interp, target, val, st: State):
    if isinstance(target, ast.Name):
        st.env[target.id] = val
        return
    if isinstance(target, (ast.Tuple, ast.List)):
        if isinstance(val, Opt):
            self.safety(st, znot(val.is_none), "unpack-not-None", target)
            val = val.val
        items = None
        if isinstance(val, VTuple):
            items = val.items
        elif isinstance(val, (Arr, Ref)):
            a = self.arr_of(val, st)
            n = self.concrete_int(a.shape[0])
            if n is None:
                # length must match the target count
                n = len(target.elts)
                self.safety(st, to_z3(a.shape[0]) == n, "unpack-length", target)
            items = [lib.arr_index(self, st, a, [i]) for i in range(n)]
        if items is None or len(items) != len(target.elts):
            raise Unsupported("tuple unpacking of unknown arity")
        for t, v in zip(target.elts, items):
            self.assign(t, v, st)
        return
    if isinstance(target, ast.Attribute):
        base = self.eval(target.value, st)
        if isinstance(base, Opt):
            self.safety(st, znot(base.is_none), "receiver-not-None", target)
            base = base.val
        if isinstance(base, Obj):
            attr = self.mangle(target.attr, self.frame.cls if self.frame else None)
            if base.cls in self.repo.classes:
                sr = self.repo.find_setter(base.cls, attr)
                if sr is not None:
                    return self.inline_setter(base, sr, val, st)
                if self.repo.find_property(base.cls, attr) is not None:
                    raise Unsupported(f"assignment to read-only property {attr}")
            if isinstance(val, Ref) and val.what == "arr":
                cell = st.heap[val.rid]
                if cell.kind == "list" and cell.etype == "any" and self.concrete_int(cell.shape[0]) == 0:
                    # an empty list literal stored into a typed field: its (absent) elements get the declared type,
                    # so that specifications may mention field[i] under a guard that is false for the empty list
                    for c_ in self.repo.mro(base.cls) or [base.cls]:
                        spec = self.reg["classes"].get(c_)
                        t = spec.fields.get(attr) if spec else None
                        if t and t.startswith("list["):
                            dummy = fresh("seq[" + t[5:-1] + "]", attr + "#none", st, self)
                            st.heap[val.rid] = Arr((0,), dummy.elem, kind="list", etype=t[5:-1])
                            break
            st.heap[base.oid][attr] = val
            return
        if isinstance(base, Opaque) and target.attr in getattr(lib, "OPAQUE_SETATTR", {}).get(base.cls, {}):
            return lib.OPAQUE_SETATTR[base.cls][target.attr](self, st, base, val)
        if isinstance(base, Opaque):
            # store into a field of a foreign object: recorded as an override of the uninterpreted field function
            ov = dict(st.heap.get("$opq", {}))
            lst = list(ov.get(target.attr, []))
            lst.append((base.term, val))
            ov[target.attr] = lst
            st.heap["$opq"] = ov
            cl = dict(st.heap.get("$opq_cls", {}))
            cl[base.term.get_id()] = base.cls
            st.heap["$opq_cls"] = cl
            return
        if hasattr(base, "__class__") and base.__class__.__name__ == "GhostNS":
            st.ghost[target.attr] = val
            return
        raise Unsupported("attribute store on " + type(base).__name__)
    if isinstance(target, ast.Subscript):
        base = self.eval(target.value, st)
        if isinstance(base, Opt):
            self.safety(st, znot(base.is_none), "subscript-not-None", target)
            base = base.val
        if isinstance(base, Opaque) and base.cls in lib.OPAQUE_SETITEM:
            return lib.OPAQUE_SETITEM[base.cls](self, st, base, target.slice, val, target)
        if isinstance(base, ViewRef):       # a write THROUGH the row view: into the array itself
            name, tup = self.view_slice(base, target.slice, st)
            try:
                return lib.arr_setitem(self, st, base.base, tup, val, target)
            finally:
                st.env.pop(name, None)
        if isinstance(base, Ref) and base.what == "dict":
            k = self.eval(target.slice, st)
            d = st.heap[base.rid]
            from .engine import _sid
            kz = _sid(k)
            oh, og = d.has, d.get
            nsize = None
            if d.size is not None:
                nsize = to_z3(d.size) + zite(oh(k), 0, 1)
            st.heap[base.rid] = DictV(lambda q: zor(_sid(q) == kz, oh(q)),
                                      lambda q: _dget(self, kz, val, og, q), d.vtype, nsize)
            return
        if isinstance(base, Ref) and base.what == "cdict":
            k = self.eval(target.slice, st)
            if isinstance(k, VStr) and k.text is not None:
                d = st.heap[base.rid]
                items = dict(d.items)
                items[k.text] = val
                st.heap[base.rid] = CDict(items, d.fam)
                return
            if isinstance(k, VStr) and k.fparts is not None:
                d = st.heap[base.rid]
                prefix, dz = k.fparts[0], to_z3(k.fparts[1])
                oh, og = d.fam.get(prefix, (lambda e: z3.BoolVal(False), None))
                if isinstance(val, Ref) and val.what == "arr":
                    val = st.heap[val.rid]      # snapshot (columns stored in a dict are not mutated afterwards)

                def get(e, val=val, og=og, dz=dz):
                    if og is None:
                        return val
                    return lib._ite_val(to_z3(e) == dz, val, og(e))
                fam = dict(d.fam)
                fam[prefix] = ((lambda e, oh=oh, dz=dz: z3.Or(to_z3(e) == dz, oh(e))), get)
                st.heap[base.rid] = CDict(d.items, fam)
                return
            # f-string keys etc.: the dict becomes opaque-keyed
            d = st.heap[base.rid]
            items = dict(d.items)
            items[("sym", fresh_name("key"))] = val
            st.heap[base.rid] = CDict(items)
            return
        if isinstance(base, Ref) and base.what == "arr":
            return lib.arr_setitem(self, st, base, target.slice, val, target)
        raise Unsupported("subscript store on " + type(base).__name__)
    raise Unsupported("assignment target " + type(target).__name__)


def _dget(self, kz, val, og, q):
    from .engine import _sid
    qz = _sid(q)
    old = og(q)
    c = qz == kz
    if is_num(val) or is_boolish(val):
        return zite(c, val, old)
    if isinstance(val, VStr):
        return VStr(zite(c, val.sid, old.sid))
    raise Unsupported("dict value kind")


def inline_setter(self: Interp, obj, sr, val, st):
    """Property setters are executed inline from their real body (they only forward to a method)."""
    dcls, fn = sr
    pname = [a.arg for a in fn.args.args][1]
    saved_env, saved_frame = st.env, self.frame
    st.env = {"self": obj, pname: val}
    self.frame = Frame(self.repo.classes[dcls].module, dcls, None, saved_frame.contract if saved_frame else None,
                       saved_frame.pre if saved_frame else None)
    try:
        outs = self.exec_block([b for b in fn.body if not _is_doc(b)], st)
    finally:
        pass
    if len(outs) != 1 or outs[0].kind != "normal":
        self.frame = saved_frame
        raise Unsupported("property setter with several outcomes")
    s2 = outs[0].state
    st.heap, st.pc, st.ghost, st.facts, st.trace = s2.heap, s2.pc, s2.ghost, s2.facts, s2.trace
    st.env, self.frame = saved_env, saved_frame


def x_Return(self, s, st):
    if s.value is None:
        return [Outcome("return", st, NONE)]
    if isinstance(s.value, ast.Call):
        return self.call_stmt(s.value, st, lambda s2, val: Outcome("return", s2, val))
    return [Outcome("return", st, self.eval(s.value, st))]


def x_Raise(self, s, st):
    fr = self.frame
    if fr is not None and fr.contract is not None and getattr(fr.contract, "no_own_raise", False) and \
            not getattr(self, "_inline_stack", []) and s.exc is not None and not self.dry:
        # this function promises to raise nothing of its own: the statement must be unreachable
        self.oblige(st, False, "X", "own-raise-unreachable", s)
    if s.exc is None:
        cur = st.env.get("$current_exc")
        if cur is None:
            raise Unsupported("bare raise outside handler")
        return [Outcome("raise", st, cur)]
    if isinstance(s.exc, ast.Call):
        def bind(s2, val):
            return Outcome("raise", s2, _as_exc(val))
        return self.call_stmt(s.exc, st, bind)
    v = self.eval(s.exc, st)
    return [Outcome("raise", st, _as_exc(v))]


def _as_exc(v):
    if isinstance(v, Exc):
        return v
    if isinstance(v, VClass):
        return Exc(v.name, ())
    raise Unsupported("raise of non-exception value")


def x_Break(self, s, st):
    return [Outcome("break", st)]


def x_Continue(self, s, st):
    return [Outcome("continue", st)]


def x_Assert(self, s, st):
    c = self.truth(self.eval(s.test, st), st)
    outs = []
    s_bad = st.fork()
    s_bad.assume(znot(c))
    if not isinstance(c, bool) or not c:
        if self.feasible(s_bad):
            outs.append(Outcome("raise", s_bad, Exc("AssertionError", ())))
    st.assume(c)
    outs.append(Outcome("normal", st))
    return outs


def x_If(self, s, st):
    c = self.truth(self.eval(s.test, st), st)
    if isinstance(c, bool):
        return self.exec_block(s.body if c else s.orelse, st)
    s_t = st
    s_f = st.fork()
    s_t.assume(c)
    s_f.assume(znot(c))
    outs = []
    ft = self.feasible(s_t, focus=to_z3(c))
    if ft:
        outs += self.exec_block(s.body, s_t)
    # (the state before the test is feasible: if the true branch is not, the false branch is)
    if not ft or self.feasible(s_f, focus=to_z3(znot(c))):
        outs += self.exec_block(s.orelse, s_f)
    return outs


def x_FunctionDef(self, s, st):
    st.env[s.name] = Opaque(z3.Const(fresh_name("localfn_" + s.name), z3.DeclareSort("Obj")), "function")
    return _normal(st)


def x_Import(self, s, st):
    return _normal(st)


x_ImportFrom = x_Import


def x_Global(self, s, st):
    raise Unsupported("global statement")


# ------------------------------------------------------------------------------------------------ loops

def make_iter(self: Interp, v, st, view_target=False) -> Iter:
    if isinstance(v, Iter):
        return v
    if isinstance(v, Opt):
        v = v.val
    if isinstance(v, VTuple):
        items = v.items
        return Iter(len(items), lambda i: self._pick(items, i))
    if isinstance(v, (Arr, Ref)) and not (isinstance(v, Ref) and v.what != "arr"):
        a = self.arr_of(v, st)
        if view_target and isinstance(v, Ref) and a.kind == "ndarray" and a.ndim >= 2:
            return Iter(a.shape[0], lambda i: ViewRef(v, i))
        return Iter(a.shape[0], lambda i: lib.arr_index(self, st, a, [i], base=v))
    raise Unsupported(f"iteration over {type(v).__name__}")


def _same(a, b):
    if a is b:
        return True
    if is_z3(a) and is_z3(b):
        return a.eq(b)
    if isinstance(a, (int, float, bool)) and isinstance(b, (int, float, bool)):
        return type(a) is type(b) and a == b
    if isinstance(a, VStr) and isinstance(b, VStr):
        return _same(a.sid, b.sid)
    if isinstance(a, Ref) and isinstance(b, Ref):
        return a.rid == b.rid
    if isinstance(a, Obj) and isinstance(b, Obj):
        return a.oid == b.oid
    if isinstance(a, Opaque) and isinstance(b, Opaque):
        return a.term.eq(b.term)
    if isinstance(a, VTuple) and isinstance(b, VTuple):
        return len(a.items) == len(b.items) and all(_same(x, y) for x, y in zip(a.items, b.items))
    if isinstance(a, Opt) and isinstance(b, Opt):
        return _same(a.is_none, b.is_none) and _same(a.val, b.val)
    if isinstance(a, VClass) and isinstance(b, VClass):
        return _same(a.name, b.name) if not isinstance(a.name, str) else a.name == b.name
    return False


def diff_states(before: State, after: State):
    """Locations written between two states: ('env',name) / ('cell',rid) / ('field',oid,name) / ('ghost',name)."""
    mods = {}
    for k, v in after.env.items():
        if k.startswith("$"):
            continue
        if k not in before.env:
            mods[("env", k)] = (None, v)
        elif not _same(before.env[k], v):
            mods[("env", k)] = (before.env[k], v)
    for hid, cell in after.heap.items():
        if hid == "$opq_cls":
            continue
        if hid == "$opq":
            # store log of foreign objects' fields: present from the first store on
            b = before.heap.get(hid, {})
            for f, v in cell.items():
                if v is not b.get(f) and v != b.get(f):
                    mods[("field", hid, f)] = (b.get(f, []), v)
            continue
        if hid not in before.heap:
            continue
        b = before.heap[hid]
        if isinstance(cell, dict):
            for f, v in cell.items():
                if f not in b:
                    mods[("field", hid, f)] = (None, v)
                elif not _same(b[f], v):
                    mods[("field", hid, f)] = (b[f], v)
        elif cell is not b:
            mods[("cell", hid)] = (b, cell)
    for g, v in after.ghost.items():
        if g not in before.ghost or not _same(before.ghost[g], v):
            mods[("ghost", g)] = (before.ghost.get(g), v)
    return mods


def apply_havoc(self: Interp, st: State, mods):
    for loc, (pre, post) in mods.items():
        if loc[0] == "env":
            name = loc[1]
            if pre is None:
                st.env[name] = Poison(name)
            else:
                st.env[name] = _havoc_val(pre, post, name, st)
        elif loc[0] == "field":
            _, oid, f = loc
            if pre is None:
                st.heap[oid][f] = _havoc_val(post, post, f, st)
            else:
                st.heap[oid][f] = _havoc_val(pre, post, f, st)
        elif loc[0] == "cell":
            cell = st.heap[loc[1]]
            if isinstance(cell, Arr):
                if cell.etype == "any" and isinstance(post, Arr) and post.etype != "any":
                    cell = Arr(cell.shape, cell.elem, kind=cell.kind, etype=post.etype)
                st.heap[loc[1]] = fresh_arr_like(cell, fresh_name("loopcell"), st, keep_shape=(cell.kind == "ndarray"))
            elif isinstance(cell, DictV):
                nv = fresh_like(Ref(loc[1], "dict"), "loopdict", st)
                st.heap[loc[1]] = st.heap.pop(nv.rid)
            elif isinstance(cell, CDict) and isinstance(post, CDict):
                st.heap[loc[1]] = _havoc_cdict(cell, post, st)
            else:
                raise Unsupported("loop modifies a concrete dict")
        elif loc[0] == "ghost":
            st.ghost[loc[1]] = fresh_like(post if pre is None else pre, "ghost." + loc[1], st)


def _havoc_cdict(cell: CDict, post: CDict, st):
    """A concrete-key dict written in a loop: values of changed keys and whole key families become unknown."""
    if set(post.items) != set(cell.items):
        raise Unsupported("loop adds constant keys to a dict")
    items = {}
    for k, v in cell.items.items():
        items[k] = v if _same(v, post.items[k]) else fresh_like(v, "loopdict." + str(k), st)
    fam = {}
    for prefix, (ph, pg) in post.fam.items():
        nm = fresh_name("loopfam_" + prefix)
        has = z3.Function(nm + "#has", z3.IntSort(), z3.BoolSort())
        sample = pg(z3.Int(fresh_name("probe")))
        if isinstance(sample, Ref) and sample.what == "arr":
            sample = st.heap[sample.rid]
        if isinstance(sample, Arr):
            nd = sample.ndim
            shf = [z3.Function(f"{nm}#s{k}", z3.IntSort(), z3.IntSort()) for k in range(nd)]
            real = sample.etype not in ("int", "bool", "nat")
            ef = z3.Function(nm + "#el", *([z3.IntSort()] * (nd + 1)), z3.RealSort() if real else z3.IntSort())

            def get(e, shf=shf, ef=ef, sample=sample):
                ez = to_z3(e)
                for f in shf:
                    st.fact(f(ez) >= 0)
                return Arr(tuple(f(ez) for f in shf), lambda *idx: ef(ez, *[to_z3(i) for i in idx]), kind=sample.kind,
                           etype=sample.etype)
        elif is_num(sample):
            vf = z3.Function(nm + "#v", z3.IntSort(), z3.RealSort() if (is_z3(sample) and z3.is_real(sample)) or
                             isinstance(sample, float) else z3.IntSort())
            get = lambda e, vf=vf: vf(to_z3(e))   # noqa: E731
        else:
            raise Unsupported("loop writes a dict key family of unsupported value kind")
        fam[prefix] = ((lambda e, has=has: has(to_z3(e))), get)
    return CDict(items, fam)


def _havoc_val(pre, post, name, st):
    if pre is NONE and post is not NONE and not isinstance(post, Opt):
        return Opt(z3.Bool(fresh_name(name + "?none")), fresh_like(post, name, st))
    if isinstance(pre, (int,)) and not isinstance(pre, bool) and is_z3(post) and z3.is_real(post):
        return z3.Real(fresh_name(name))
    if isinstance(pre, Opt) and not isinstance(post, Opt) and post is not NONE:
        return Opt(z3.Bool(fresh_name(name + "?none")), fresh_like(post, name, st))
    return fresh_like(pre, name, st)


def loop_mods(self: Interp, st: State, run_body):
    """Dry-run the body to a fixpoint of the written-locations set (obligations discarded)."""
    self.dry += 1
    try:
        mods = {}
        for _round in range(5):
            d = st.fork()
            apply_havoc(self, d, mods)
            before = d.fork()
            outs = run_body(d)
            new = dict(mods)
            for o in outs:
                for loc, pv in diff_states(before, o.state).items():
                    if loc not in new:
                        # remember the ORIGINAL pre-loop value for kind information
                        orig = _orig(st, loc)
                        new[loc] = (orig, pv[1])
            if set(new) == set(mods):
                return mods
            mods = new
        raise Unsupported("loop write-set did not stabilise")
    finally:
        self.dry -= 1


def _orig(st, loc):
    if loc[0] == "env":
        return st.env.get(loc[1])
    if loc[0] == "field":
        return st.heap[loc[1]].get(loc[2])
    if loc[0] == "cell":
        return st.heap[loc[1]]
    return st.ghost.get(loc[1])


def frame_key(self: Interp):
    fr = self.frame
    return self.repo.key_of(fr.cls, fr.fn, fr.module) if fr.fn is not None else None


def get_invariant(self: Interp, node, text):
    fr = self.frame
    if fr is None or fr.fn is None:
        return None, None
    lid = fr.loop_ids.get(id(node))
    inv = self.reg["invariants"].get((frame_key(self), lid))
    if inv is not None and inv.over is not None and inv.over.replace(" ", "") != text.replace(" ", ""):
        raise Unsupported(f"stale loop invariant for loop {lid}: source now iterates over {text!r}")
    return inv, lid


def x_For(self: Interp, s: ast.For, st: State):
    fr = self.frame
    saved_entry = getattr(fr, "loop_entry", None) if fr is not None else None
    if fr is not None:
        fr.loop_entry = st.fork()       # entry(e) in the invariant of THIS loop
    try:
        return _x_for(self, s, st)
    finally:
        if fr is not None:
            fr.loop_entry = saved_entry


def _x_for(self: Interp, s: ast.For, st: State):
    inv, lid = get_invariant(self, s, ast.unparse(s.iter))
    itv = self.eval(s.iter, st)
    it = make_iter(self, itv, st, view_target=_stores_through(s))
    n = it.length
    cn = self.concrete_int(n)
    if inv is None:
        if cn is None or cn > MAX_UNROLL:
            raise Unsupported(f"loop {lid} over a symbolic range has no invariant")
        live, done = [st], []
        broke = []
        for i in range(cn):
            nxt = []
            for cur in live:
                self.assign(s.target, it.item(i), cur)
                for o in self.exec_block(s.body, cur):
                    if o.kind in ("normal", "continue"):
                        nxt.append(o.state)
                    elif o.kind == "break":
                        broke.append(o.state)
                    else:
                        done.append(o)
            live = nxt
        outs = list(done)
        for cur in live:
            outs += self.exec_block(s.orelse, cur) if s.orelse else [Outcome("normal", cur)]
        outs += [Outcome("normal", b) for b in broke]
        return outs

    kv = inv.var
    nz = to_z3(n)
    for lname, ltype in getattr(inv, "locals", {}).items():
        # an empty list literal has no element type: give its (absent) elements the declared one, so that the
        # invariant may mention lname[i] under a guard that is false for the empty list
        v = st.env.get(lname)
        if isinstance(v, Ref) and v.what == "arr":
            cell = st.heap[v.rid]
            if cell.kind == "list" and cell.etype == "any" and self.concrete_int(cell.shape[0]) == 0:
                dummy = fresh("seq[" + ltype + "]", lname + "#none", st, self)
                st.heap[v.rid] = Arr((0,), dummy.elem, kind="list", etype=ltype)

    def check_inv(state, kval, kind, label):
        state.env[kv] = kval
        for i, src in enumerate(inv.inv):
            if not self.clause_due(src):
                continue
            g = self.contract_truth(src, state)
            self.oblige(state, g, "I", f"{label}[loop{lid}#{i}]", s)

    def assume_inv(state, kval):
        state.env[kv] = kval
        for src in inv.inv:
            if self.clause_on(src):
                state.assume(self.contract_truth(src, state))

    # 1. invariant holds on entry
    check_inv(st, 0, "I", "inv-init")

    # 2. write-set of the body
    def run_body(d):
        kd = z3.Int(fresh_name("kdry"))
        d.assume(zand(kd >= 0, kd < nz))
        d.env[kv] = kd
        self.assign(s.target, it.item(kd), d)
        return self.exec_block(s.body, d)

    mods = loop_mods(self, st, run_body)

    # 3. arbitrary iteration
    h = st
    apply_havoc(self, h, mods)
    kz = z3.Int(fresh_name(kv))
    h.assume(zand(kz >= 0, kz <= nz))
    assume_inv(h, kz)
    exit_state = h.fork()
    exit_state.assume(kz == nz)
    body_state = h
    body_state.assume(kz < nz)
    outs = []
    if self.feasible(body_state):
        self.assign(s.target, it.item(kz), body_state)
        for o in self.exec_block(s.body, body_state):
            if o.kind in ("normal", "continue"):
                check_inv(o.state, kz + 1, "I", "inv-preserve")
            elif o.kind == "break":
                o.state.env.pop(kv, None)
                outs.append(Outcome("normal", o.state))
            else:
                outs.append(o)
    exit_state.env[kv] = kz
    if self.feasible(exit_state):
        # the iteration counter stays visible as `kv` for post-loop reasoning in the contract
        outs += self.exec_block(s.orelse, exit_state) if s.orelse else [Outcome("normal", exit_state)]
    return outs


def _stores_through(s: ast.For) -> bool:
    """Does the loop body assign to `<loop variable>[...]` (a write through the row view of the iterated array)?"""
    if not isinstance(s.target, ast.Name):
        return False
    for n in ast.walk(ast.Module(body=s.body, type_ignores=[])):
        tgts = []
        if isinstance(n, ast.Assign):
            tgts = n.targets
        elif isinstance(n, (ast.AugAssign, ast.AnnAssign)):
            tgts = [n.target]
        for t in tgts:
            if isinstance(t, ast.Subscript) and isinstance(t.value, ast.Name) and t.value.id == s.target.id:
                return True
    return False


def x_While(self: Interp, s: ast.While, st: State):
    inv, lid = get_invariant(self, s, ast.unparse(s.test))
    if inv is None:
        raise Unsupported(f"while-loop {lid} has no invariant")
    kv = inv.var

    def check_inv(state, kval, label):
        state.env[kv] = kval
        for i, src in enumerate(inv.inv):
            if self.clause_due(src):
                self.oblige(state, self.contract_truth(src, state), "I", f"{label}[loop{lid}#{i}]", s)

    check_inv(st, 0, "inv-init")

    def run_body(d):
        d.env[kv] = z3.Int(fresh_name("kdry"))
        c = self.truth(self.eval(s.test, d), d)
        d.assume(c)
        return self.exec_block(s.body, d)

    mods = loop_mods(self, st, run_body)
    h = st
    apply_havoc(self, h, mods)
    kz = z3.Int(fresh_name(kv))
    h.assume(kz >= 0)
    h.env[kv] = kz
    for src in inv.inv:
        if self.clause_on(src):
            h.assume(self.contract_truth(src, h))
    c = self.truth(self.eval(s.test, h), h)
    exit_state = h.fork()
    exit_state.assume(znot(c))
    h.assume(c)
    outs = []
    if self.feasible(h):
        for o in self.exec_block(s.body, h):
            if o.kind in ("normal", "continue"):
                check_inv(o.state, kz + 1, "inv-preserve")
            elif o.kind == "break":
                outs.append(Outcome("normal", o.state))
            else:
                outs.append(o)
    if self.feasible(exit_state):
        outs += self.exec_block(s.orelse, exit_state) if s.orelse else [Outcome("normal", exit_state)]
    return outs


# ------------------------------------------------------------------------------------------------ try / with / yield

def exc_matches(self: Interp, exc: Exc, type_node, st):
    if type_node is None:
        return True
    names = []
    if isinstance(type_node, ast.Tuple):
        names = [ast.unparse(e).split(".")[-1] for e in type_node.elts]
    else:
        names = [ast.unparse(type_node).split(".")[-1]]
    if not isinstance(exc.cls, str):
        if "BaseException" in names or "Exception" in names:
            return True
        raise Unsupported("handler match on a symbolic exception class")
    return any(self.repo.exc_is_subclass(exc.cls, n) for n in names)


def x_Try(self: Interp, s: ast.Try, st: State):
    outs = []
    for o in self.exec_block(s.body, st):
        if o.kind == "raise":
            handled = False
            for h in s.handlers:
                if exc_matches(self, o.value, h.type, o.state):
                    handled = True
                    hs = o.state
                    if h.name:
                        hs.env[h.name] = o.value
                    prev = hs.env.get("$current_exc")
                    hs.env["$current_exc"] = o.value
                    for o2 in self.exec_block(h.body, hs):
                        if prev is None:
                            o2.state.env.pop("$current_exc", None)
                        else:
                            o2.state.env["$current_exc"] = prev
                        outs.append(o2)
                    break
            if not handled:
                outs.append(o)
        elif o.kind == "normal" and s.orelse:
            outs += self.exec_block(s.orelse, o.state)
        else:
            outs.append(o)
    if not s.finalbody:
        return outs
    final = []
    for o in outs:
        for f in self.exec_block(s.finalbody, o.state):
            if f.kind == "normal":
                final.append(Outcome(o.kind, f.state, o.value))
            else:
                final.append(f)  # finally-body exit overrides
    return final


class CMToken:
    def __init__(self, key, frame, env, contract):
        self.key, self.frame, self.env, self.contract = key, frame, env, contract


def x_With(self: Interp, s: ast.With, st: State):
    if len(s.items) != 1:
        raise Unsupported("multi-item with")
    item = s.items[0]
    ce = item.context_expr
    results = []
    entered = []
    if isinstance(ce, ast.Call):
        for s2, val, exc in self.call_outcomes(ce, st):
            if exc is not None:
                results.append(Outcome("raise", s2, exc))
            else:
                entered.append((s2, val))
    else:
        entered.append((st, self.eval(ce, st)))
    for s2, cm in entered:
        tok = getattr(cm, "_cm", None) if not is_z3(cm) else None
        if tok is None and not (isinstance(cm, Opaque) and cm.cls in lib.CM_CLASSES):
            raise Unsupported("with-statement on a value without a context-manager contract")
        if item.optional_vars is not None:
            self.assign(item.optional_vars, lib.cm_enter_value(self, s2, cm), s2)
        for o in self.exec_block(s.body, s2):
            # __exit__ runs on every exit of the body
            self.cm_exit(cm, tok, o)
            sup = getattr(cm, "_suppressed", None) if isinstance(cm, Opaque) else None
            if sup and o.kind == "raise" and isinstance(o.value.cls, str) and \
                    any(o.value.cls == c or self.repo.exc_is_subclass(o.value.cls, c) for c in sup):
                o = Outcome("normal", o.state)   # contextlib.suppress swallows the listed exceptions
            results.append(o)
    return results


def cm_exit(self: Interp, cm, tok, o: Outcome):
    st = o.state
    if tok is None:
        lib.cm_exit(self, st, cm, o.kind == "raise")
        return
    c = tok.contract
    # old(...) in exit_ensures refers to the state at __enter__ (the generator's entry)
    frame = Frame(tok.frame.module, tok.frame.cls, None, c, tok.frame.pre)
    with FrameCtx(self, st, frame, dict(tok.env)):
        for m in c.exit_modifies:
            self.havoc(m, st)
        for e in c.exit_ensures:
            st.assume(self.contract_truth(e, st))


def do_yield(self: Interp, s, st: State):
    """`yield` inside a @contextmanager generator under verification: the with-body runs here.

    Continuations: (a) the body finished normally; (b) the body raised: the exception is re-raised AT the yield.
    The enter-postconditions (contract.ensures) are checked at the yield point.
    """
    fr = self.frame
    c = fr.contract
    if c is None or not getattr(c, "is_cm", False):
        raise Unsupported("yield outside a context-manager contract")
    st.env["result"] = NONE
    for i, e in enumerate(c.ensures):
        self.oblige(st, self.contract_truth(e, st), "F", f"enter-post#{i}", s)
    st.ghost["yielded"] = True
    s_exc = st.fork()
    s_exc.ghost["body_raised"] = True
    st.ghost["body_raised"] = False
    return [Outcome("normal", st), Outcome("raise", s_exc, Exc("BodyException", ()))]


for _n, _f in list(globals().items()):
    if _n.startswith("x_") or _n in ("exec_block", "exec_stmt", "call_stmt", "assign", "inline_setter", "make_iter",
                                     "cm_exit", "do_yield"):
        setattr(Interp, _n, _f)
