"""Additional NumPy / builtin models (registered into lib.LIB, lib.VALUE_METHODS, lib.OBJ_METHODS, lib.BUILTIN_FUNCS).

Every model is a characterisation the real function satisfies in exact arithmetic (floats are mathematical reals in
this encoding); where the result is not determined by the characterisation it is left unconstrained (fresh symbols),
so that nothing false about NumPy can be derived.  Each use is recorded through lib.used() and lands in the
`trusted_base` of the evidence file.
"""
from __future__ import annotations

import z3

from . import lib
from .lib import _arr, _ite_val, elementwise, elementwise2, used
from .values import NONE, Arr, Unsupported, VTuple, fresh_name, is_num, is_z3, num_pair, to_real, to_z3

I0 = z3.IntVal(0)


def _kw(args, kw, pos, name, default=None):
    if name in kw:
        return kw[name]
    if len(args) > pos:
        return args[pos]
    return default


def _is_none(v):
    return v is None or v is NONE


def _cint(I, v):
    return I.concrete_int(v) if not _is_none(v) else None


def _real_elem(a: Arr):
    return a.etype not in ("int", "bool", "nat")


# ------------------------------------------------------------------------------------------------ folds

def fold_arr(I, st, a: Arr, product, node=None):
    """sum / product of a 1-d array: S(0) = neutral, S(k+1) = S(k) op a[k] (recursive definition, no induction)."""
    used("np.sum / np.prod / sum(): recursive fold S(0)=neutral, S(k+1)=S(k) op a[k] (no induction performed)")
    if a.ndim != 1:
        raise Unsupported("sum/prod of an n-d array")
    real = _real_elem(a)
    S = z3.Function(fresh_name("fold"), z3.IntSort(), z3.RealSort() if real else z3.IntSort())
    k = z3.Int(fresh_name("k"))
    nf = len(st.facts)
    term = a.elem(k)
    term = to_real(term) if real else to_z3(term)
    if z3.is_bool(term):
        term = z3.If(term, 1, 0)
    inner = [to_z3(f) for f in st.facts[nf:]]
    del st.facts[nf:]
    from .calls import _mentions
    for f in inner:
        st.fact(z3.ForAll([k], f) if _mentions(f, k) else f)
    st.fact(S(0) == (1 if product else 0))
    st.fact(z3.ForAll([k], z3.Implies(k >= 0, S(k + 1) == (S(k) * term if product else S(k) + term))))
    return S(to_z3(a.shape[0]))


def np_sum(product=False):
    def h(I, st, args, kw, node):
        if not _is_none(_kw(args, kw, 1, "axis")):
            raise Unsupported("np.sum/np.prod with axis")
        return fold_arr(I, st, I.arr_of(args[0], st), product, node)
    return h


def m_sum(product=False):
    def h(I, st, recv, args, kw, node):
        if not _is_none(_kw(args, kw, 0, "axis")):
            raise Unsupported(".sum/.prod with axis")
        return fold_arr(I, st, I.arr_of(recv, st), product, node)
    return h


def b_sum(I, st, args, kw, node):
    if len(args) != 1:
        raise Unsupported("sum(iterable, start)")
    return fold_arr(I, st, I.arr_of(args[0], st), False, node)


def np_cumsum(I, st, args, kw, node):
    used("np.cumsum: c[i] = c[i-1] + a[i] (recursive definition)")
    a = I.arr_of(args[0], st)
    if a.ndim != 1 or not _is_none(_kw(args, kw, 1, "axis")):
        raise Unsupported("cumsum n-d / axis")
    real = _real_elem(a)
    S = z3.Function(fresh_name("cumsum"), z3.IntSort(), z3.RealSort() if real else z3.IntSort())
    k = z3.Int(fresh_name("k"))
    term = to_real(a.elem(k)) if real else to_z3(a.elem(k))
    st.fact(S(-1) == 0)
    st.fact(z3.ForAll([k], z3.Implies(k >= 0, S(k) == S(k - 1) + term)))
    return st.alloc(Arr(a.shape, lambda i: S(to_z3(i)), kind="ndarray", etype="real" if real else "int"), "arr")


# ------------------------------------------------------------------------------------------------ elementwise

def np_isclose(I, st, args, kw, node):
    used("np.isclose(a, b, rtol, atol): |a - b| <= atol + rtol * |b| (exact arithmetic)")
    rtol = _kw(args, kw, 2, "rtol", 1e-05)
    atol = _kw(args, kw, 3, "atol", 1e-08)
    args = list(args)
    for k_ in (0, 1):       # an optional operand: None is not a number (TypeError) - obligation, then the value
        if isinstance(args[k_], lib.Opt):
            I.safety(st, lib.znot(args[k_].is_none), "operand-not-None", node)
            args[k_] = args[k_].val

    def f(x, y):
        x, y = to_real(x), to_real(y)
        d = z3.If(x - y >= 0, x - y, y - x)
        ay = z3.If(y >= 0, y, -y)
        return d <= to_real(atol) + to_real(rtol) * ay
    return elementwise2(I, st, f, args[0], args[1], node)


def np_allclose(I, st, args, kw, node):
    r = np_isclose(I, st, args, kw, node)
    if _arr(I, st, r) is None:
        return r
    return lib.m_any(I, st, r, [], {}, node, is_any=False)


def _ufun(name, facts):
    F = z3.Function("u" + name, z3.RealSort(), z3.RealSort())

    def h(I, st, args, kw, node):
        used(f"np.{name}: uninterpreted real function with its basic order / sign facts")

        def f(x):
            x = to_real(x)
            t = F(x)
            for fact in facts(F, x, t):
                st.fact(fact)
            return t
        return elementwise(I, st, f, args[0])
    return h, F


def _log_facts(F, x, t):
    y = z3.Real(fresh_name("y"))
    return [z3.Implies(x == 1, t == 0), z3.Implies(x > 1, t > 0), z3.Implies(z3.And(x > 0, x < 1), t < 0),
            z3.ForAll([y], z3.Implies(z3.And(y > 0, x > 0), (F(y) < t) == (y < x)), patterns=[F(y)])]


def _exp_facts(F, x, t):
    y = z3.Real(fresh_name("y"))
    return [t > 0, z3.Implies(x == 0, t == 1), z3.ForAll([y], (F(y) < t) == (y < x), patterns=[F(y)])]


def _sqrt_facts(F, x, t):
    return [z3.Implies(x >= 0, z3.And(t >= 0, t * t == x))]


np_log, _ULOG = _ufun("log", _log_facts)
np_exp, _UEXP = _ufun("exp", _exp_facts)
np_sqrt, _USQRT = _ufun("sqrt", _sqrt_facts)


def np_floor(ceil=False):
    def h(I, st, args, kw, node):
        used("np.floor / np.ceil: integer part (as a real)")

        def f(x):
            x = to_real(x)
            fl = z3.ToReal(z3.ToInt(x))
            return z3.If(fl == x, x, fl + 1) if ceil else fl
        return elementwise(I, st, f, args[0])
    return h


def np_rint(I, st, args, kw, node):
    used("np.rint: an integer-valued real r with |r - x| <= 1/2 (ties: unspecified which neighbour)")

    def f(x):
        x = to_real(x)
        k = z3.Int(fresh_name("rint"))
        r = z3.ToReal(k)
        st.fact(z3.And(r - x <= z3.RealVal("1/2"), x - r <= z3.RealVal("1/2")))
        return r
    return elementwise(I, st, f, args[0])


def np_global_rng(name):
    def h(I, st, args, kw, node):
        used("np.random.<fn> (GLOBAL generator): unconstrained values - not a function of any seed the code controls")
        size = kw.get("size", None)
        if name in ("random", "rand", "uniform", "normal"):
            if _is_none(size) and not args:
                return z3.Real(fresh_name("global_rng"))
            raise Unsupported(f"np.random.{name} with a size")
        if name in ("randint", "choice"):
            if _is_none(size) and len(args) <= 2:
                v = z3.Int(fresh_name("global_rng"))
                a0 = args[0] if args else None
                if name == "choice" and is_num(a0):
                    st.fact(z3.And(v >= 0, v < to_z3(a0)))
                    return v
                if name == "choice":
                    A = I.arr_of(a0, st)
                    st.fact(z3.And(v >= 0, v < to_z3(A.shape[0])))
                    return A.elem(v)
                lo, hi = (0, args[0]) if len(args) == 1 else (args[0], args[1])
                st.fact(z3.And(v >= to_z3(lo), v < to_z3(hi)))
                return v
            raise Unsupported(f"np.random.{name} with a size")
        raise Unsupported(f"np.random.{name}")
    return h


def np_sign(I, st, args, kw, node):
    used("np.sign: -1 / 0 / 1")
    return elementwise(I, st, lambda x: z3.If(to_z3(x) > 0, 1, z3.If(to_z3(x) < 0, -1, 0)) if not z3.is_real(to_z3(x))
                       else z3.If(to_z3(x) > 0, z3.RealVal(1), z3.If(to_z3(x) < 0, z3.RealVal(-1), z3.RealVal(0))), args[0])


def np_square(I, st, args, kw, node):
    used("np.square: x * x")
    return elementwise(I, st, lambda x: to_z3(x) * to_z3(x), args[0])


def np_clip(I, st, args, kw, node):
    used("np.clip(a, lo, hi): min(max(a, lo), hi); fresh array")
    if not _is_none(kw.get("out")):
        raise Unsupported("np.clip(out=...)")
    a = args[0]
    lo = _kw(args, kw, 1, "a_min")
    hi = _kw(args, kw, 2, "a_max")
    out = a
    if not _is_none(lo):
        out = elementwise2(I, st, lambda x, y: (lambda p: z3.If(p[0] >= p[1], p[0], p[1]))(num_pair(to_z3(x), to_z3(y))),
                           out, lo, node)
    if not _is_none(hi):
        out = elementwise2(I, st, lambda x, y: (lambda p: z3.If(p[0] <= p[1], p[0], p[1]))(num_pair(to_z3(x), to_z3(y))),
                           out, hi, node)
    return out


def np_where3(I, st, args, kw, node):
    if len(args) == 1 and I.arr_of(args[0], st).ndim == 1:
        # np.where(mask1d): a 1-tuple holding the increasing positions with a true mask
        return VTuple([np_flatnonzero(I, st, args, kw, node)])
    if len(args) != 3:
        raise Unsupported("np.where(cond) (index form) of an n-d array")
    used("np.where(c, x, y): elementwise selection")
    c, x, y = args
    t = elementwise2(I, st, lambda cc, xx: VTuple([cc, xx]), c, x, node)
    # two-step lifting keeps broadcasting of all three operands
    T = _arr(I, st, t)
    if T is None:
        return _ite_val(to_z3(I.truth(c, st)), x, y)

    def f(p, yy):
        cc, xx = p.items
        a_, b_ = xx, yy
        if is_num(a_) and is_num(b_):
            a_, b_ = num_pair(to_z3(a_), to_z3(b_))
        return _ite_val(to_z3(I.truth(cc, st)), a_, b_)
    return elementwise2(I, st, f, t, y, node)


def np_full(I, st, args, kw, node):
    used("np.zeros / np.ones / np.full: fresh constant array")
    shape = _kw(args, kw, 0, "shape")
    fill = _kw(args, kw, 1, "fill_value")
    if isinstance(shape, VTuple):
        sh = tuple(shape.items)
    elif is_num(shape):
        sh = (shape,)
    else:
        raise Unsupported("np.full shape")
    dt = kw.get("dtype")
    v = fill
    et = lib.etype_of(fill)
    if dt is not None and lib._dtype_name(dt) in ("float", "float64") and et == "int":
        v, et = to_real(fill), "real"
    return st.alloc(Arr(sh, lambda *idx: v, kind="ndarray", etype=et if et != "any" else "real"), "arr")


def np_diff(I, st, args, kw, node):
    used("np.diff(a): d[i] = a[i+1] - a[i], one element shorter")
    a = I.arr_of(args[0], st)
    if a.ndim != 1 or len(args) > 1 or kw:
        raise Unsupported("np.diff n-d / n / axis")
    n = a.shape[0]
    cn = I.concrete_int(n)
    m = max(cn - 1, 0) if cn is not None else z3.If(to_z3(n) >= 1, to_z3(n) - 1, 0)
    return st.alloc(Arr((m,), lambda i: to_z3(a.elem(to_z3(i) + 1)) - to_z3(a.elem(i)), kind="ndarray", etype=a.etype),
                    "arr")


def np_append(I, st, args, kw, node):
    used("np.append(a, v): 1-d concatenation (fresh array)")
    if not _is_none(kw.get("axis")) or len(args) > 2:
        raise Unsupported("np.append(axis=...)")
    a = I.arr_of(args[0], st)
    if a.ndim != 1:
        raise Unsupported("np.append flattening an n-d array")
    v = args[1]
    V = _arr(I, st, v)
    if V is None:
        V = Arr((1,), lambda i: v, kind="list", etype=lib.etype_of(v))
    elif V.ndim != 1:
        raise Unsupported("np.append flattening an n-d array")
    return lib.np_stack()(I, st, [VTuple([a, V])], {}, node)


def np_sort(I, st, args, kw, node):
    used("np.sort / sorted: the argsort permutation applied (fresh array)")
    a = I.arr_of(args[0], st)
    if a.ndim != 1 or kw:
        raise Unsupported("np.sort n-d / axis / key")
    p = I.arr_of(lib.np_argsort(I, st, [a], {}, node), st)
    return st.alloc(Arr(a.shape, lambda i: a.elem(p.elem(i)), kind="ndarray", etype=a.etype), "arr")


def np_linspace(I, st, args, kw, node):
    used("np.linspace(a, b, n): a + i*(b-a)/(n-1), end point included")
    if kw.get("endpoint") is not None or len(args) < 2:
        raise Unsupported("np.linspace(endpoint=...)")
    a, b = to_real(args[0]), to_real(args[1])
    n = _kw(args, kw, 2, "num", 50)
    nz = to_z3(n)
    return st.alloc(Arr((n,), lambda i: z3.If(nz == 1, a, a + z3.ToReal(to_z3(i)) * (b - a) / z3.ToReal(nz - 1)),
                        kind="ndarray", etype="real"), "arr")


# ------------------------------------------------------------------------------------------------ axis reductions

def reduce_bool_axis(I, st, a: Arr, axis, is_any):
    """np.all / np.any along one axis of a 2-d or 3-d boolean array."""
    used(".any(axis) / .all(axis): existential / universal along one axis")
    ax = I.concrete_int(axis)
    if ax is None:
        raise Unsupported("symbolic axis")
    if ax < 0:
        ax += a.ndim
    if not 0 <= ax < a.ndim:
        raise Unsupported("axis out of range")
    shape = tuple(s for i, s in enumerate(a.shape) if i != ax)
    n = to_z3(a.shape[ax])

    def elem(*idx):
        q = z3.Int(fresh_name("q"))
        full = list(idx[:ax]) + [q] + list(idx[ax:])
        body = to_z3(I.truth(a.elem(*full), st))
        rng = z3.And(q >= 0, q < n)
        return z3.Exists([q], z3.And(rng, body)) if is_any else z3.ForAll([q], z3.Implies(rng, body))
    if not shape:
        return elem()
    return st.alloc(Arr(shape, elem, kind="ndarray", etype="bool"), "arr")


def np_all(is_any=False):
    def h(I, st, args, kw, node):
        axis = _kw(args, kw, 1, "axis")
        a = I.arr_of(args[0], st)
        if _is_none(axis):
            return lib.m_any(I, st, a, [], {}, node, is_any=is_any)
        return reduce_bool_axis(I, st, a, axis, is_any)
    return h


def m_all(is_any=False):
    def h(I, st, recv, args, kw, node):
        axis = _kw(args, kw, 0, "axis")
        a = I.arr_of(recv, st)
        if _is_none(axis):
            return lib.m_any(I, st, a, [], {}, node, is_any=is_any)
        return reduce_bool_axis(I, st, a, axis, is_any)
    return h


def b_all(is_any=False):
    def h(I, st, args, kw, node):
        used("all() / any(): universal / existential over the elements")
        (v,) = args
        a = I.arr_of(v, st)
        n = I.concrete_int(a.shape[0])
        if n is not None and n <= 32:
            vals = [to_z3(I.truth(a.elem(i), st)) for i in range(n)]
            if not vals:
                return not is_any
            return z3.Or(*vals) if is_any else z3.And(*vals)
        return lib.m_any(I, st, a, [], {}, node, is_any=is_any)
    return h


def m_extreme(is_max):
    def h(I, st, recv, args, kw, node):
        if not _is_none(_kw(args, kw, 0, "axis")):
            raise Unsupported(".max/.min with axis")
        return lib.reduce_extreme(I, st, I.arr_of(recv, st), is_max, node)
    return h


def m_argextreme(is_max):
    def h(I, st, recv, args, kw, node):
        return lib.np_argmax(I, st, [recv] + list(args), kw, node, is_max=is_max)
    return h


def m_mean(I, st, recv, args, kw, node):
    used("np.average/np.mean: some real (pure)")
    if not _is_none(_kw(args, kw, 0, "axis")):
        raise Unsupported(".mean with axis")
    return z3.Real(fresh_name("avg"))


def m_astype(I, st, recv, args, kw, node):
    used(".astype(float/int/bool): elementwise conversion (float -> int truncates toward zero); fresh array")
    name = lib._dtype_name(args[0]) if args else "?"
    a = I.arr_of(recv, st)
    if name in ("float", "float64"):
        return st.alloc(Arr(a.shape, lambda *i: to_real(a.elem(*i)) if not lib.is_boolish(a.elem(*i)) else
                            z3.If(to_z3(a.elem(*i)), z3.RealVal(1), z3.RealVal(0)), kind="ndarray", etype="real"), "arr")
    if name in ("int", "int64", "int32"):
        def cv(*i):
            v = a.elem(*i)
            if lib.is_boolish(v):
                return z3.If(to_z3(v), 1, 0)
            v = to_z3(v)
            if z3.is_int(v):
                return v
            fl = z3.ToInt(v)
            return z3.If(v >= 0, fl, z3.If(z3.ToReal(fl) == v, fl, fl + 1))
        return st.alloc(Arr(a.shape, cv, kind="ndarray", etype="int"), "arr")
    if name in ("bool", "bool_"):
        return st.alloc(Arr(a.shape, lambda *i: to_z3(I.truth(a.elem(*i), st)), kind="ndarray", etype="bool"), "arr")
    raise Unsupported(f".astype({name})")


def m_flatten(I, st, recv, args, kw, node):
    a = I.arr_of(recv, st)
    if a.ndim == 1:
        return st.alloc(Arr(a.shape, a.elem, kind="ndarray", etype=a.etype), "arr")
    if a.ndim == 2:
        used(".flatten() / .ravel(): row-major (fresh copy)")
        r, c = a.shape
        cz = to_z3(c)
        return st.alloc(Arr((to_z3(r) * cz,), lambda i: a.elem(to_z3(i) / cz, to_z3(i) % cz), kind="ndarray",
                            etype=a.etype), "arr")
    raise Unsupported("flatten of >2-d array")


def m_item(I, st, recv, args, kw, node):
    a = I.arr_of(recv, st)
    if args:
        raise Unsupported(".item(i)")
    for s in a.shape:
        if I.concrete_int(s) != 1:
            raise Unsupported(".item() of an array of unknown size")
    return a.elem(*[0] * a.ndim)


# ------------------------------------------------------------------------------------------------ selections

def mask_select(I, st, a: Arr, mask: Arr, node=None):
    """a[mask] (1-d boolean mask over the first axis): the rows with a true mask, in order."""
    used("boolean-mask selection a[mask]: an order-preserving selection sel with mask[sel[k]] true, covering "
         "every true position (fresh copy)")
    if mask.ndim != 1:
        raise Unsupported("n-d boolean mask")
    n = to_z3(a.shape[0])
    lib._dims_equal(I, st, a.shape[0], mask.shape[0], node)
    m = z3.Int(fresh_name("nsel"))
    sel = z3.Function(fresh_name("sel"), z3.IntSort(), z3.IntSort())
    inv = z3.Function(fresh_name("selinv"), z3.IntSort(), z3.IntSort())
    k, g = z3.Int(fresh_name("k")), z3.Int(fresh_name("g"))
    k2 = z3.Int(fresh_name("k"))
    st.fact(z3.And(m >= 0, m <= n))
    mk = to_z3(I.truth(mask.elem(sel(k)), st))
    st.fact(z3.ForAll([k], z3.Implies(z3.And(k >= 0, k < m), z3.And(sel(k) >= 0, sel(k) < n, mk, inv(sel(k)) == k)),
                      patterns=[sel(k)]))
    st.fact(z3.ForAll([k, k2], z3.Implies(z3.And(k >= 0, k < k2, k2 < m), sel(k) < sel(k2)), patterns=[z3.MultiPattern(sel(k), sel(k2))]))
    mg = to_z3(I.truth(mask.elem(g), st))
    st.fact(z3.ForAll([g], z3.Implies(z3.And(g >= 0, g < n, mg), z3.And(inv(g) >= 0, inv(g) < m, sel(inv(g)) == g)),
                      patterns=[inv(g), lib.HINT(g)]))
    # counting facts that need a pigeonhole argument the solver cannot do: all true -> everything, none -> nothing
    mg2 = to_z3(I.truth(mask.elem(g), st))
    st.fact(z3.Implies(z3.ForAll([g], z3.Implies(z3.And(g >= 0, g < n), mg2)), m == n))
    st.fact(z3.Implies(z3.ForAll([g], z3.Implies(z3.And(g >= 0, g < n), z3.Not(mg2))), m == 0))
    shape = (m,) + tuple(a.shape[1:])
    out = Arr(shape, lambda *idx: a.elem(sel(to_z3(idx[0])), *idx[1:]), kind="ndarray", etype=a.etype)
    out._sel = (sel, inv, m)   # type: ignore[attr-defined]
    return st.alloc(out, "arr")


def np_argwhere(I, st, args, kw, node):
    used("np.argwhere(mask1d): the increasing (k,1) array of the positions with a true mask")
    mask = I.arr_of(args[0], st)
    if mask.ndim != 1:
        raise Unsupported("np.argwhere of an n-d array")
    n = mask.shape[0]
    pos = Arr((n,), lambda i: to_z3(i), kind="ndarray", etype="int")
    r = mask_select(I, st, pos, mask, node)
    R = st.heap[r.rid]
    st.heap[r.rid] = Arr((R.shape[0], 1), lambda i, j: R.elem(i), kind="ndarray", etype="int")
    return r


def np_flatnonzero(I, st, args, kw, node):
    used("np.flatnonzero / np.nonzero(mask1d)[0]: increasing positions with a true mask")
    mask = I.arr_of(args[0], st)
    if mask.ndim != 1:
        raise Unsupported("np.flatnonzero of an n-d array")
    pos = Arr((mask.shape[0],), lambda i: to_z3(i), kind="ndarray", etype="int")
    return mask_select(I, st, pos, mask, node)


def np_unique(I, st, args, kw, node):
    a = I.arr_of(args[0], st)
    axis = kw.get("axis")
    counts = kw.get("return_counts", False)
    if kw.get("return_inverse") not in (None, False, NONE):
        raise Unsupported("np.unique(return_inverse=True)")
    want_index = kw.get("return_index") not in (None, False, NONE)
    if a.ndim == 1 and _is_none(axis):
        rows = lambda arr, i: [arr.elem(i)]   # noqa: E731
        width = 1
    elif a.ndim == 2 and _cint(I, axis) == 0:
        width = None
    else:
        raise Unsupported("np.unique of this rank / axis")
    used("np.unique(a[, axis=0][, return_counts]): pairwise distinct rows u (sorted for 1-d), every input row equals "
         "exactly one u-row (index function), every u-row occurs; count[g] >= 1 and count[g] > 1 iff two different "
         "input rows map to g")
    n = to_z3(a.shape[0])
    m = z3.Int(fresh_name("nuniq"))
    st.fact(z3.And(m >= 0, m <= n, z3.Implies(n >= 1, m >= 1)))
    cls = z3.Function(fresh_name("uq_of"), z3.IntSort(), z3.IntSort())     # input row -> unique row
    rep = z3.Function(fresh_name("uq_rep"), z3.IntSort(), z3.IntSort())    # unique row -> one input row
    rep2 = z3.Function(fresh_name("uq_rep2"), z3.IntSort(), z3.IntSort())  # a second input row when count > 1
    cnt = z3.Function(fresh_name("uq_cnt"), z3.IntSort(), z3.IntSort())
    i, j, g, c = (z3.Int(fresh_name(x)) for x in "ijgc")
    if a.ndim == 1:
        real = _real_elem(a)
        uf = z3.Function(fresh_name("uq"), z3.IntSort(), z3.RealSort() if real else z3.IntSort())
        U = Arr((m,), lambda t: uf(to_z3(t)), kind="ndarray", etype=a.etype)
        coerce = to_real if real else to_z3
        roweq_in_u = lambda ii, gg: coerce(a.elem(ii)) == uf(gg)   # noqa: E731
        roweq_in_in = lambda ii, jj: coerce(a.elem(ii)) == coerce(a.elem(jj))   # noqa: E731
        st.fact(z3.ForAll([g, j], z3.Implies(z3.And(g >= 0, g < j, j < m), uf(g) < uf(j))))
    else:
        w = to_z3(a.shape[1])
        real = _real_elem(a)
        uf = z3.Function(fresh_name("uq"), z3.IntSort(), z3.IntSort(), z3.RealSort() if real else z3.IntSort())
        U = Arr((m, a.shape[1]), lambda t, cc: uf(to_z3(t), to_z3(cc)), kind="ndarray", etype=a.etype)
        coerce = to_real if real else to_z3
        roweq_in_u = lambda ii, gg: z3.ForAll([c], z3.Implies(z3.And(c >= 0, c < w), coerce(a.elem(ii, c)) == uf(gg, c)))   # noqa: E731
        roweq_in_in = lambda ii, jj: z3.ForAll([c], z3.Implies(z3.And(c >= 0, c < w), coerce(a.elem(ii, c)) == coerce(a.elem(jj, c))))   # noqa: E731
    inr = lambda x: z3.And(x >= 0, x < n)   # noqa: E731
    inu = lambda x: z3.And(x >= 0, x < m)   # noqa: E731
    # every input row has its unique row
    st.fact(z3.ForAll([i], z3.Implies(inr(i), z3.And(inu(cls(i)), roweq_in_u(i, cls(i)))), patterns=[cls(i), lib.HINT(i)]))
    # two input rows have the same unique row iff they are equal rows
    st.fact(z3.ForAll([i, j], z3.Implies(z3.And(inr(i), inr(j)), (cls(i) == cls(j)) == roweq_in_in(i, j)),
                      patterns=[z3.MultiPattern(cls(i), cls(j))]))
    # every unique row occurs in the input
    st.fact(z3.ForAll([g], z3.Implies(inu(g), z3.And(inr(rep(g)), cls(rep(g)) == g)), patterns=[rep(g)]))
    # counts
    st.fact(z3.ForAll([g], z3.Implies(inu(g), cnt(g) >= 1), patterns=[cnt(g)]))
    st.fact(z3.ForAll([g], z3.Implies(z3.And(inu(g), cnt(g) > 1),
                                      z3.And(inr(rep2(g)), rep2(g) != rep(g), cls(rep2(g)) == g)), patterns=[cnt(g)]))
    st.fact(z3.ForAll([i, j], z3.Implies(z3.And(inr(i), inr(j), i != j, cls(i) == cls(j)), cnt(cls(i)) > 1),
                      patterns=[z3.MultiPattern(cls(i), cls(j))]))
    # instantiation seeds: the occurrences the count facts speak about (hint(x) is true by definition)
    st.fact(z3.ForAll([g], z3.Implies(inu(g), z3.And(lib.HINT(rep(g)), z3.Implies(cnt(g) > 1, lib.HINT(rep2(g))))),
                      patterns=[cnt(g)]))
    if a.ndim == 2:
        # (derived, stated for the solver's benefit) a unique row IS the input row at its occurrence(s)
        st.fact(z3.ForAll([g, c], z3.Implies(z3.And(inu(g), c >= 0, c < w),
                                             z3.And(uf(g, c) == coerce(a.elem(rep(g), c)),
                                                    z3.Implies(cnt(g) > 1, uf(g, c) == coerce(a.elem(rep2(g), c))))),
                          patterns=[uf(g, c)]))
    if a.ndim == 2:
        # (derived, stated for the solver's benefit) two different unique rows differ in some column
        dcol = z3.Function(fresh_name("uq_diffcol"), z3.IntSort(), z3.IntSort(), z3.IntSort())
        st.fact(z3.ForAll([g, j], z3.Implies(z3.And(inu(g), inu(j), g != j),
                                             z3.And(dcol(g, j) >= 0, dcol(g, j) < w, uf(g, dcol(g, j)) != uf(j, dcol(g, j))))))
    ur = st.alloc(U, "arr")
    out = [ur]
    if want_index:
        # the index of the FIRST occurrence of each unique row
        st.fact(z3.ForAll([i], z3.Implies(z3.And(inr(i)), rep(cls(i)) <= i), patterns=[cls(i)]))
        out.append(st.alloc(Arr((m,), lambda t: rep(to_z3(t)), kind="ndarray", etype="int"), "arr"))
    if counts is True or (is_z3(counts) and z3.is_true(counts)):
        out.append(st.alloc(Arr((m,), lambda t: cnt(to_z3(t)), kind="ndarray", etype="int"), "arr"))
    elif counts not in (False, None, NONE):
        raise Unsupported("np.unique(return_counts=<symbolic>)")
    return out[0] if len(out) == 1 else VTuple(out)


# ------------------------------------------------------------------------------------------------ rng with size

def _size_shape(size):
    if isinstance(size, VTuple):
        return tuple(size.items)
    if is_num(size):
        return (size,)
    raise Unsupported("rng size")


def rng_integers(I, st, rng, args, kw, node):
    size = kw.get("size", args[2] if len(args) > 2 else None)
    if _is_none(size):
        return lib.rng_integers(I, st, rng, args, {k: v for k, v in kw.items() if k != "size"}, node)
    used("Generator.integers(lo, hi, size): every entry lo <= value < hi, a function of the generator state")
    if kw.get("endpoint") not in (None, False, NONE):
        raise Unsupported("Generator.integers(endpoint=True)")
    s = st.heap[rng.oid]["state"]
    lo, hi = (0, args[0]) if len(args) == 1 or (len(args) >= 2 and _is_none(args[1])) else (args[0], args[1])
    if "high" in kw:
        lo, hi = args[0] if args else kw.get("low", 0), kw["high"]
    st.heap[rng.oid]["state"] = lib._RNG_NEXT(s, z3.IntVal(2))
    sh = _size_shape(size)
    if _arr(I, st, lo) is not None or _arr(I, st, hi) is not None:
        raise Unsupported("Generator.integers with array bounds")
    I.safety(st, to_z3(lo) < to_z3(hi), "integers-range-nonempty", node)
    F = z3.Function(fresh_name("rng_ints"), *([z3.IntSort()] * len(sh)), z3.IntSort())

    def elem(*idx):
        v = F(*[to_z3(i) for i in idx])
        st.fact(z3.And(v >= to_z3(lo), v < to_z3(hi)))
        return v
    return st.alloc(Arr(sh, elem, kind="ndarray", etype="int"), "arr")


def rng_random(I, st, rng, args, kw, node):
    size = kw.get("size", args[0] if args else None)
    if _is_none(size):
        return lib.rng_random(I, st, rng, [], {}, node)
    used("Generator.random(size): every entry in [0, 1), a function of the generator state")
    s = st.heap[rng.oid]["state"]
    st.heap[rng.oid]["state"] = lib._RNG_NEXT(s, z3.IntVal(1))
    sh = _size_shape(size)
    F = z3.Function(fresh_name("rng_reals"), *([z3.IntSort()] * len(sh)), z3.RealSort())

    def elem(*idx):
        v = F(*[to_z3(i) for i in idx])
        st.fact(z3.And(v >= 0, v < 1))
        return v
    return st.alloc(Arr(sh, elem, kind="ndarray", etype="real"), "arr")


# ------------------------------------------------------------------------------------------------ user callables

_FILT_LEN = z3.Function("filter_out_len", lib.ObjS, z3.IntSort(), z3.IntSort())
_FILT_OUT = z3.Function("filter_out", lib.ObjS, z3.IntSort(), z3.IntSort(), z3.RealSort())


def filter_call(I, st, f, args, kw, node):
    """A user-supplied coordinate filter: ANY pure function of (the filter object, the series it is given)."""
    used("user filter callable: a pure function of (filter object, identity of the 1-d series it is given) returning a "
         "1-d real array; may not write its argument (frame: C08 analysis)")
    if len(args) != 1 or kw:
        raise Unsupported("filter called with other than one positional argument")
    aid = lib.arrid(I, st, args[0])
    n = _FILT_LEN(f.term, aid)
    st.fact(n >= 0)
    return st.alloc(Arr((n,), lambda t: _FILT_OUT(f.term, aid, to_z3(t)), kind="ndarray", etype="real"), "arr")


def spec_filt(I, st, a, k, n):
    f = a[0].val if isinstance(a[0], lib.Opt) else a[0]
    return _FILT_OUT(f.term, lib.arrid(I, st, a[1]), to_z3(a[2]))


def spec_filt_len(I, st, a, k, n):
    f = a[0].val if isinstance(a[0], lib.Opt) else a[0]
    return _FILT_LEN(f.term, lib.arrid(I, st, a[1]))


_MOUT = z3.Function("model_out", lib.ObjS, z3.IntSort(), z3.IntSort(), z3.IntSort(), z3.IntSort(), z3.IntSort(), z3.RealSort())
_MROWS = z3.Function("model_out_rows", lib.ObjS, z3.IntSort(), z3.IntSort(), z3.IntSort(), z3.IntSort())
_MCOLS = z3.Function("model_out_cols", lib.ObjS, z3.IntSort(), z3.IntSort(), z3.IntSort(), z3.IntSort())


def model_call(I, st, f, args, kw, node):
    """The user's model: ANY pure function of (the model object, the parameter vector it is given, the simulation
    length, the seed) returning a 2-d real array.  The vector is identified as `row r of array A` (np.repeat rows are
    identified with the rows they repeat)."""
    used("user model callable: a pure function of (model object, the parameter vector handed in, N, seed) returning a "
         "2-d real array; may raise")
    if len(args) != 3 or kw:
        raise Unsupported("model called with other than (param, N, seed)")
    vid = lib.arrid(I, st, args[0])
    n_, sd = to_z3(args[1]), to_z3(args[2])
    rows, cols = _MROWS(f.term, vid, n_, sd), _MCOLS(f.term, vid, n_, sd)
    st.fact(z3.And(rows >= 0, cols >= 0))
    return st.alloc(Arr((rows, cols), lambda t, c: _MOUT(f.term, vid, n_, sd, to_z3(t), to_z3(c)), kind="ndarray",
                        etype="real"), "arr")


def spec_mout(I, st, a, k, n):
    """mout(model, vector, N, seed, t, c)"""
    return _MOUT(a[0].term, lib.arrid(I, st, a[1]), to_z3(a[2]), to_z3(a[3]), to_z3(a[4]), to_z3(a[5]))


_RNG_ITER = z3.Function("rng_iter", z3.IntSort(), z3.IntSort(), z3.IntSort())
_RI_T, _RI_Q = z3.Int("rngit_t"), z3.Int("rngit_q")
_RI_AX = [z3.ForAll([_RI_T], _RNG_ITER(_RI_T, 0) == _RI_T),
          z3.ForAll([_RI_T, _RI_Q], z3.Implies(_RI_Q >= 0, _RNG_ITER(_RI_T, _RI_Q + 1) ==
                                               lib._RNG_NEXT(_RNG_ITER(_RI_T, _RI_Q), z3.IntVal(2))),
                    patterns=[_RNG_ITER(_RI_T, _RI_Q + 1)])]
# Counter-model search only (verify._refine): ONE concrete interpretation of the generator-state functions under which
# the recursive definition above holds.  Extra constraints can only lose counter-models, never create one.
_HX, _HK, _HS = z3.Int("hint_x"), z3.Int("hint_k"), z3.Int("hint_s")
_HM = z3.Const("hint_m", lib.ObjS)
_HCOLS = z3.Function("hint_model_cols", lib.ObjS, z3.IntSort())
REFUTE_HINTS = [
    (("rng_next", "rng_iter"), z3.ForAll([_HX, _HK], lib._RNG_NEXT(_HX, _HK) == _HX + 1)),
    (("rng_iter",), z3.ForAll([_HX, _HK], _RNG_ITER(_HX, _HK) == _HX + z3.If(_HK > 0, _HK, 0))),
    # a user model whose output has N rows and a column count that depends on the model only
    (("model_out_rows",), z3.ForAll([_HM, _HX, _HK, _HS], _MROWS(_HM, _HX, _HK, _HS) == _HK)),
    (("model_out_cols",), z3.ForAll([_HM, _HX, _HK, _HS], _MCOLS(_HM, _HX, _HK, _HS) == _HCOLS(_HM))),
]


def spec_rng_iter(I, st, a, k, n):
    """rng_iter(s, k): the generator state after k seed draws (_get_random_seed) from state s"""
    have = {g.get_id() for g in st.facts if is_z3(g)}
    for ax in _RI_AX:
        if ax.get_id() not in have:
            st.fact(ax)
    return _RNG_ITER(to_z3(a[0]), to_z3(a[1]))


def parallel_ctor(I, st, args, kw, node):
    used("joblib.Parallel(n_jobs)(generator of delayed calls): the list of the results IN ORDER; delayed(f)(args) is "
         "f(args) with the arguments evaluated in the parent, in order (pure callee)")
    return lib.Opaque(z3.Const(fresh_name("pool"), lib.ObjS), "ParallelPool")


def parallel_call(I, st, f, args, kw, node):
    if len(args) != 1:
        raise Unsupported("Parallel()(...) with other than one iterable")
    return args[0]


lib.LIB.update({"Parallel": parallel_ctor, "delayed": lambda I, st, a, k, n: a[0]})
lib.OPAQUE_CALL["ParallelPool"] = parallel_call
lib.OPAQUE_CALL["UserModel"] = model_call
def spec_mshape(which):
    def h(I, st, a, k, n):
        return (_MROWS if which == 0 else _MCOLS)(a[0].term, lib.arrid(I, st, a[1]), to_z3(a[2]), to_z3(a[3]))
    return h


lib.BUILTIN_FUNCS["ediv"] = lambda I, st, a, k, n: to_z3(a[0]) / to_z3(a[1])   # Euclidean div (= a // b for b > 0)
lib.BUILTIN_FUNCS.update({"mout": spec_mout, "rng_iter": spec_rng_iter, "mout_rows": spec_mshape(0),
                          "mout_cols": spec_mshape(1)})
lib.OPAQUE_CALL["Filter"] = filter_call
lib.BUILTIN_FUNCS.update({"filt": spec_filt, "filt_len": spec_filt_len})

def np_finfo(I, st, args, kw, node):
    used("np.finfo(float32 | float64): max / min / eps / tiny as exact rationals")
    name = lib._dtype_name(args[0]) if args else "float64"
    if name not in ("float32", "float64", "float"):
        raise Unsupported(f"np.finfo({name})")
    o = lib.Opaque(z3.Const(fresh_name("finfo"), lib.ObjS), "FInfo32" if name == "float32" else "FInfo64")
    return o


_FINFO = {"FInfo32": {"max": 3.4028234663852886e+38, "min": -3.4028234663852886e+38, "eps": 1.1920928955078125e-07,
                      "tiny": 1.1754943508222875e-38},
          "FInfo64": {"max": 1.7976931348623157e+308, "min": -1.7976931348623157e+308, "eps": 2.220446049250313e-16,
                      "tiny": 2.2250738585072014e-308}}
for _c, _vals in _FINFO.items():
    lib.OPAQUE_ATTRS[_c] = {k_: (lambda I, st, base, v_=v_: v_) for k_, v_ in _vals.items()}
lib.LIB["np.finfo"] = np_finfo

# ------------------------------------------------------------------------------------------------ iterators

class IsliceV:
    """itertools.islice(it, k): the next k items of the iterator (consumed when iterated)"""

    def __init__(self, it, k):
        self.it, self.k = it, k


def it_islice(I, st, args, kw, node):
    used("itertools.islice(it, k) consumed by list.extend: k successive next(it) calls, appended in order")
    if len(args) != 2:
        raise Unsupported("itertools.islice(it, start, stop[, step])")
    return IsliceV(args[0], args[1])


def b_next(I, st, args, kw, node):
    """next(it): it.__next__() through its contract"""
    import ast as _ast
    (it,) = args
    call = _ast.Call(func=_ast.Attribute(value=_ast.Name(id="_next_it", ctx=_ast.Load()), attr="__next__", ctx=_ast.Load()),
                     args=[], keywords=[])
    _ast.fix_missing_locations(call)
    saved = st.env.get("_next_it")
    st.env["_next_it"] = it
    try:
        outs = I.call_outcomes(call, st)
        normal = [o for o in outs if o[2] is None]
        if len(normal) != 1 or len(outs) != 1:
            raise Unsupported("next(it) whose __next__ may raise or fork")
        s2, val, _ = normal[0]
        if s2 is not st:
            st.env, st.heap, st.pc, st.ghost, st.facts, st.trace = s2.env, s2.heap, s2.pc, s2.ghost, s2.facts, s2.trace
        return val
    finally:
        if saved is None:
            st.env.pop("_next_it", None)
        else:
            st.env["_next_it"] = saved


def m_extend(I, st, recv, args, kw, node):
    """lst.extend(x): a sequence is appended; an islice of an iterator is the LOOP  for _ in range(k): lst.append(next(it))
    cut by the sidecar invariant registered for it (loop id "extend<n>")"""
    import ast as _ast
    (x,) = args
    if not isinstance(x, IsliceV):
        b = st.alloc(I.arr_of(x, st), "arr") if not isinstance(x, lib.Ref) else x
        out = lib.list_concat(I, st, recv, b)
        st.heap[recv.rid] = st.heap[out.rid]
        return lib.NONE
    fr = I.frame
    fr._n_extend = getattr(fr, "_n_extend", 0) + 1 if not I.dry else getattr(fr, "_n_extend", 1)
    lid = f"extend{max(fr._n_extend, 1)}"
    st.env["_ext_list"], st.env["_ext_it"], st.env["_ext_k"] = recv, x.it, x.k
    body = _ast.Expr(value=_ast.Call(
        func=_ast.Attribute(value=_ast.Name(id="_ext_list", ctx=_ast.Load()), attr="append", ctx=_ast.Load()),
        args=[_ast.Call(func=_ast.Name(id="next", ctx=_ast.Load()), args=[_ast.Name(id="_ext_it", ctx=_ast.Load())], keywords=[])],
        keywords=[]))
    loop = _ast.For(target=_ast.Name(id="_ext_j", ctx=_ast.Store()),
                    iter=_ast.Call(func=_ast.Name(id="range", ctx=_ast.Load()), args=[_ast.Name(id="_ext_k", ctx=_ast.Load())],
                                   keywords=[]), body=[body], orelse=[])
    _ast.copy_location(loop, node)
    _ast.fix_missing_locations(loop)
    fr.loop_ids[id(loop)] = lid
    fr._comp_loops = getattr(fr, "_comp_loops", [])
    fr._comp_loops.append(loop)
    outs = I.x_For(loop, st)
    res = []
    for o in outs:
        if o.kind == "normal":
            res.append((o.state, lib.NONE, None))
        elif o.kind == "raise":
            res.append((o.state, None, o.value))
        else:
            raise Unsupported("extend(islice(...)) with a non-local exit")
    return res


lib.LIB["itertools.islice"] = it_islice
lib.BUILTIN_FUNCS["next"] = b_next
lib.VALUE_METHODS["extend"] = m_extend

# ------------------------------------------------------------------------------------------------ registration

lib.LIB.update({
    "np.sum": np_sum(False), "np.prod": np_sum(True), "np.cumsum": np_cumsum,
    "np.isclose": np_isclose, "np.allclose": np_allclose,
    "np.log": np_log, "np.exp": np_exp, "np.sqrt": np_sqrt, "math.log": np_log, "math.exp": np_exp, "math.sqrt": np_sqrt,
    "np.floor": np_floor(False), "np.ceil": np_floor(True), "np.sign": np_sign, "np.rint": np_rint,
    "np.random.random": np_global_rng("random"), "np.random.rand": np_global_rng("rand"),
    "np.random.uniform": np_global_rng("uniform"), "np.random.normal": np_global_rng("normal"),
    "np.random.randint": np_global_rng("randint"), "np.random.choice": np_global_rng("choice"), "np.square": np_square,
    "np.clip": np_clip, "np.where": np_where3, "np.full": np_full, "np.diff": np_diff, "np.append": np_append,
    "np.sort": np_sort, "np.linspace": np_linspace,
    "np.all": np_all(False), "np.any": np_all(True),
    "np.random.default_rng": lib.b_default_rng,
    "np.argwhere": np_argwhere, "np.flatnonzero": np_flatnonzero, "np.unique": np_unique,
})
lib.VALUE_METHODS.update({
    "all": m_all(False), "any": m_all(True), "sum": m_sum(False), "prod": m_sum(True),
    "max": m_extreme(True), "min": m_extreme(False), "argmax": m_argextreme(True), "argmin": m_argextreme(False),
    "mean": m_mean, "astype": m_astype, "flatten": m_flatten, "ravel": m_flatten, "item": m_item,
})
lib.OBJ_METHODS["rng"].update({"integers": rng_integers, "random": rng_random})
lib.BUILTIN_FUNCS.update({"sum": b_sum, "all": b_all(False), "any": b_all(True),
                          "sorted": lambda I, st, a, k, n: np_sort(I, st, a, k, n)})


# ---- scipy.stats.betabinom (frozen distribution): only its support matters ------------------------------------------
def betabinom_ctor(I, st, args, kw, node):
    used("scipy.stats.betabinom(n, a, b).rvs(size=k): k integers in 0..n drawn from the generator assigned to "
         ".random_state (which advances); needs n >= 0, a > 0, b > 0")
    names = ["n", "a", "b"]
    vals = dict(zip(names, args))
    vals.update({k_: v for k_, v in kw.items() if k_ in names})
    if set(vals) != set(names) or set(kw) - set(names):
        raise Unsupported("betabinom(...) with other than the parameters n, a, b")
    I.safety(st, to_z3(vals["n"]) >= 0, "betabinom-n-nonnegative", node)
    I.safety(st, z3.And(lib.to_real(to_z3(vals["a"])) > 0, lib.to_real(to_z3(vals["b"])) > 0), "betabinom-shape-positive", node)
    o = lib.Opaque(z3.Const(fresh_name("betabinom"), lib.ObjS), "BetaBinomRV")
    o._n = vals["n"]          # type: ignore[attr-defined]
    o._rng = None             # type: ignore[attr-defined]
    return o


def betabinom_set_random_state(I, st, base, val):
    if not (isinstance(val, lib.Obj) and val.cls == "rng"):
        raise Unsupported("betabinom.random_state = <not a Generator>")
    base._rng = val


def betabinom_rvs(I, st, recv, args, kw, node):
    size = kw.get("size") if "size" in kw else (args[0] if args else None)
    if set(kw) - {"size"} or len(args) > 1 or size is None or not lib.is_num(size):
        raise Unsupported("betabinom.rvs with other than an integer size")
    if recv._rng is None:
        raise Unsupported("betabinom.rvs drawing from the GLOBAL numpy random state")
    rng = recv._rng
    s0 = st.heap[rng.oid]["state"]
    st.heap[rng.oid]["state"] = lib._RNG_NEXT(s0, z3.IntVal(5))
    f = z3.Function(fresh_name("bbrvs"), z3.IntSort(), z3.IntSort())
    t = z3.Int(fresh_name("t"))
    lib._ext(st, z3.ForAll([t], z3.And(f(t) >= 0, f(t) <= to_z3(recv._n))), [f])
    return st.alloc(Arr((size,), lambda i: f(to_z3(i)), kind="ndarray", etype="int"), "arr")


lib.LIB["betabinom"] = betabinom_ctor
lib.OPAQUE_METHODS.setdefault("BetaBinomRV", {})["rvs"] = betabinom_rvs
lib.OPAQUE_SETATTR = dict(getattr(lib, "OPAQUE_SETATTR", {}))
lib.OPAQUE_SETATTR.setdefault("BetaBinomRV", {})["random_state"] = betabinom_set_random_state
