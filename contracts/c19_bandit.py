"""C19 - bandit reward and epsilon-greedy update rules."""
from pyvc.api import contract, klass

A = "black_it/schedulers/rl/agents/epsilon_greedy.py"
E = "black_it/schedulers/rl/envs/mab.py"

klass("MABEpsilonGreedy",
      fields={"n_actions": "int", "actions_count": "list[int]", "Q": "list[real]", "alpha": "real", "eps": "real",
              "initial_values": "real"},
      invariant=["self.n_actions >= 1", "len(self.Q) == self.n_actions", "len(self.actions_count) == self.n_actions",
                 "forall(range(0, self.n_actions), lambda b: self.actions_count[b] >= 0)"])

contract(f"{A}::MABEpsilonGreedy.__init__",
         params={"n_actions": "int", "alpha": "real", "eps": "real", "initial_values": "real",
                 "random_state": "opt[int]"},
         requires=["n_actions >= 1"], props=["C19"],
         ensures=["self.n_actions == n_actions", "self.alpha == alpha", "self.eps == eps",
                  "forall(range(0, n_actions), lambda b: self.Q[b] == initial_values and self.actions_count[b] == 0)",
                  "self.random_state == random_state"],
         modifies=["self.*"])

contract(f"{A}::MABEpsilonGreedy.get_step_size", params={"action": "int"}, returns="real", props=["C19"],
         requires=["0 <= action and action < self.n_actions",
                   "implies(self.alpha == -1, self.actions_count[action] != 0)"],
         ensures=["result == ite(self.alpha == -1, 1 / self.actions_count[action], self.alpha)"],
         modifies=[])

contract(f"{A}::MABEpsilonGreedy.learn",
         params={"state": "int", "action": "int", "reward": "real", "next_state": "int"}, props=["C19"],
         requires=["0 <= action and action < self.n_actions"],
         defs={"step": ([], "ite(self.alpha == -1, 1 / (old(self.actions_count[action]) + 1), self.alpha)")},
         ensures=[
             "self.actions_count[action] == old(self.actions_count[action]) + 1",
             "self.Q[action] == old(self.Q[action]) + step() * (reward - old(self.Q[action]))",
             # frame inside the two lists: every other estimate / count is untouched
             "forall(range(0, self.n_actions), lambda b: implies(b != action, self.Q[b] == old(self.Q[b]) and "
             "self.actions_count[b] == old(self.actions_count[b])))",
         ],
         modifies=["self.Q[*]", "self.actions_count[*]"])

contract(f"{A}::MABEpsilonGreedy.policy", params={"_obs": "int"}, returns="int", props=["C19"],
         ensures=["0 <= result and result < self.n_actions",
                  # greedy when no exploration can happen (random() >= 0 is never < eps <= 0)
                  "implies(self.eps <= 0, forall(range(0, self.n_actions), lambda j: self.Q[j] <= self.Q[result]))",
                  # the draw used for the explore/exploit decision is the generator's next value: the choice is a
                  # function of (generator state, eps, Q)
                  "implies(not spec_draw_real(old(self.random_generator.state)) < self.eps, "
                  "forall(range(0, self.n_actions), lambda j: self.Q[j] <= self.Q[result]) and "
                  "forall(range(0, result), lambda j: self.Q[j] < self.Q[result]))"],
         modifies=["self.random_generator.state"])

contract(f"{A}::MABEpsilonGreedy.reset", params={}, props=["C19"],
         ensures=["forall(range(0, self.n_actions), lambda b: self.Q[b] == 0 and self.actions_count[b] == 0)"],
         modifies=["self.Q", "self.actions_count"])

klass("CalibrationEnv", fields={"_nb_samplers": "int", "_curr_best_loss": "opt[real]", "_out_queue": "opaque:QueueActions",
                                "_in_queue": "opaque:QueueOutcomes", "action_space": "opaque:Discrete"})

contract(f"{E}::MABCalibrationEnv.get_reward", params={"best_param": "any", "best_loss": "real"}, returns="real",
         props=["C19"],
         # O-19: the published formula divides by the previous best; a previous best of exactly 0 can only be
         # improved on by a negative loss and then raises ZeroDivisionError - stated admissibility precondition
         requires=["implies(self._curr_best_loss is not None, self._curr_best_loss != 0)"],
         raises=[{"exc": "ValueError", "when": "self._curr_best_loss is None"}],
         ensures=["implies(best_loss < old(self._curr_best_loss), "
                  "result == (old(self._curr_best_loss) - best_loss) / old(self._curr_best_loss) "
                  "and self._curr_best_loss == best_loss)",
                  "implies(not best_loss < old(self._curr_best_loss), "
                  "result == 0 and self._curr_best_loss == old(self._curr_best_loss))"],
         modifies=["self._curr_best_loss"])

contract(f"{E}::MABCalibrationEnv.reset_state", params={}, returns="int", ensures=["result == 0"], modifies=[],
         props=["C19"])
contract(f"{E}::MABCalibrationEnv.get_next_observation", params={}, returns="int", ensures=["result == 0"],
         modifies=[], props=["C19"])
