"""C03 / C16 - built-in samplers under full contract: RandomUniform, MLSurrogate (abstract fit/predict)."""
from pyvc.api import contract, klass, loop_invariant, stmt_contract

RU = "black_it/samplers/random_uniform.py"
SU = "black_it/samplers/surrogate.py"
B = "black_it/samplers/base.py"

_SPACE_OK = ["search_space.parameters_bounds.shape[0] == 2 and search_space.parameters_bounds.shape[1] == search_space.dims",
             "len(search_space.param_grid) == search_space.dims and search_space.dims >= 1",
             "forall(range(0, search_space.dims), lambda c: len(search_space.param_grid[c]) >= 1 and forall(lambda j, k: "
             "implies(0 <= j and j <= k and k < len(search_space.param_grid[c]), "
             "search_space.param_grid[c][j] <= search_space.param_grid[c][k])))"]
_ON_GRID = ("forall(range(0, result.shape[0]), lambda r: forall(range(0, search_space.dims), lambda c: "
            "exists(range(0, len(search_space.param_grid[c])), lambda k: result[r, c] == search_space.param_grid[c][k])))")
_PARAMS = {"batch_size": "int", "search_space": "obj:SearchSpace", "existing_points": "arr2[real]",
           "existing_losses": "arr1[real]"}

contract(f"{B}::BaseSampler.__init__",
         params={"batch_size": "int", "random_state": "opt[int]", "max_deduplication_passes": "int"},
         ensures=["self.batch_size == batch_size", "self.max_deduplication_passes == max_deduplication_passes",
                  "self.random_state == random_state"],
         modifies=["self.batch_size", "self.max_deduplication_passes", "self._BaseSeedable__random_state",
                   "self._BaseSeedable__random_generator"], props=["C03", "C16"])

klass("RandomUniformSampler", fields={"batch_size": "pos", "max_deduplication_passes": "nat"})
contract(f"{RU}::RandomUniformSampler.sample_batch", params=_PARAMS, returns="arr2[real]",
         requires=["batch_size >= 0"] + _SPACE_OK, props=["C03", "C16"],
         ensures=["result.shape[0] == batch_size and result.shape[1] == search_space.dims", _ON_GRID],
         modifies=["self.random_generator.state"])
loop_invariant(f"{RU}::RandomUniformSampler.sample_batch", 1, over="enumerate(search_space.param_grid)", var="col",
               inv=["candidates.shape[0] == batch_size and candidates.shape[1] == search_space.dims",
                    "forall(range(0, batch_size), lambda r: forall(range(0, col), lambda c: "
                    "exists(range(0, len(search_space.param_grid[c])), lambda k: candidates[r, c] == search_space.param_grid[c][k])))"],
               props=["C03"])

klass("MLSurrogateSampler", fields={"batch_size": "pos", "max_deduplication_passes": "nat", "_candidate_pool_size": "int"})
contract(f"{SU}::MLSurrogateSampler.fit", abstract=True, params={"X": "arr2[real]", "y": "arr1[real]"},
         ensures=[], modifies=["self.random_generator.state"], props=["C03", "C16"],
         notes="abstract surrogate: ANY fit; does not write X / y (frame clause decided per built-in surrogate by the "
               "store-site analysis of C16)")
contract(f"{SU}::MLSurrogateSampler.predict", abstract=True, params={"X": "arr2[real]"}, returns="arr1[real]",
         ensures=["len(result) == X.shape[0]"], modifies=[], props=["C03", "C16"],
         notes="abstract surrogate: ANY prediction vector of the pool's length")
contract(f"{SU}::MLSurrogateSampler.sample_candidates",
         params={"candidate_pool_size": "int", "search_space": "obj:SearchSpace", "existing_points": "arr2[real]",
                 "existing_losses": "arr1[real]"},
         returns="arr2[real]", requires=["candidate_pool_size >= 0"] + _SPACE_OK, props=["C03", "C16"],
         ensures=["result.shape[0] == candidate_pool_size and result.shape[1] == search_space.dims", _ON_GRID],
         modifies=["self.random_generator.state"])
contract(f"{SU}::MLSurrogateSampler.sample_batch", params=_PARAMS, returns="arr2[real]",
         requires=["batch_size >= 0", "self.candidate_pool_size >= batch_size"] + _SPACE_OK, props=["C03", "C16"],
         ensures=["result.shape[0] == batch_size and result.shape[1] == search_space.dims", _ON_GRID],
         modifies=["self.random_generator.state"],
         notes="admissibility: candidate_pool_size >= batch_size (with a smaller pool the real code returns fewer rows)")
# C16: the batch is the batch_size pool candidates with the lowest predictions
stmt_contract(f"{SU}::MLSurrogateSampler.sample_batch",
              match="sampled_points: NDArray[np.float64] = candidates[sorting_indices][:batch_size]",
              label="lowest-predictions-selected",
              ensures=["sampled_points.shape[0] == batch_size",
                       "forall(range(0, batch_size), lambda r: 0 <= sorting_indices[r] and sorting_indices[r] < len(predictions) "
                       "and forall(range(0, candidates.shape[1]), lambda c: sampled_points[r, c] == candidates[sorting_indices[r], c]))",
                       # every chosen candidate is predicted no worse than every unchosen one
                       "forall(range(0, batch_size), lambda r: forall(range(batch_size, len(predictions)), lambda u: "
                       "predictions[sorting_indices[r]] <= predictions[sorting_indices[u]]))",
                       # the chosen ones are distinct pool members (a permutation prefix)
                       "forall(lambda a, b: implies(0 <= a and a < b and b < batch_size, sorting_indices[a] != sorting_indices[b]))"],
              props=["C16"])

# ---- XGBoostSampler._clip_losses (C16: the loss history lent to the sampler is never written; F-16) ------------------
XG = "black_it/samplers/xgboost.py"
_HI, _LO = "MAX_FLOAT32 - EPS_FLOAT32", "MIN_FLOAT32 + EPS_FLOAT32"
contract(f"{XG}::XGBoostSampler._clip_losses", params={"y": "arr1[real]"}, returns="arr1[real]", props=["C16"],
         ensures=["len(result) == len(y)",
                  "forall(range(0, len(y)), lambda i: result[i] == ite(y[i] >= MAX_FLOAT32, MAX_FLOAT32 - EPS_FLOAT32, "
                  "ite(y[i] <= MIN_FLOAT32, MIN_FLOAT32 + EPS_FLOAT32, y[i])))"],
         # the argument itself is never written (frame obligation): out-of-range values are clipped in a COPY
         modifies=[])
