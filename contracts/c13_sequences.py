"""C13 - quasi-random samplers emit the true Halton / R sequences, without gaps."""
from pyvc.api import contract, klass, loop_invariant

H = "black_it/samplers/halton.py"
R = "black_it/samplers/r_sequence.py"
U = "black_it/utils/base.py"

contract(f"{U}::_assert",
         params={"condition": "bool", "error_message": "any", "exception_class": "class"},
         raises=[{"exc": "exception_class", "when": "not condition"}], ensures=[], modifies=[],
         props=["C13", "C16", "C03"])
contract(f"{U}::check_arg", params={"condition": "bool", "message": "any"},
         raises=[{"exc": "ValueError", "when": "not condition"}], ensures=[], modifies=[], props=["C13", "C03"])

# halton(m, bases, s)[k][c] == ri(s + 1 + k, bases[c])   (the first emitted point is index s+1)
contract(f"{H}::halton",
         params={"sample_size": "int", "bases": "arr1[int]", "n_start": "int"}, returns="arr2[real]",
         props=["C13"],
         raises=[{"exc": "ValueError", "when": "not (sample_size > 0)"},
                 {"exc": "ValueError", "when": "not forall(range(0, len(bases)), lambda c: bases[c] > 1)"},
                 {"exc": "ValueError", "when": "not (n_start >= 0)"}],
         ensures=["result.shape[0] == sample_size and result.shape[1] == len(bases)",
                  "forall(range(0, sample_size), lambda r: forall(range(0, len(bases)), lambda c: "
                  "result[r, c] == ri(n_start + 1 + r, bases[c])))"],
         modifies=[],
         notes="Real arithmetic: the float sum of digit/denominator terms differs from the exact radical inverse by rounding")

loop_invariant(f"{H}::halton", 1, over="range(n_start + 1, sample_size + n_start + 1)", var="row",
               inv=["sequence.shape[0] == sample_size and sequence.shape[1] == nb_bases and nb_bases == len(bases)",
                    "forall(range(0, len(bases)), lambda c: bases[c] > 1)", "n_start >= 0",
                    "forall(range(0, row), lambda r: forall(range(0, nb_bases), lambda c: "
                    "sequence[r, c] == ri(n_start + 1 + r, bases[c])))"],
               props=["C13"])

loop_invariant(f"{H}::halton", 2, over="(i > 0).any()", var="step",
               inv=["len(i) == nb_bases and len(denoms) == nb_bases and len(n_th_numbers) == nb_bases and len(done) == nb_bases",
                    "forall(range(0, nb_bases), lambda c: i[c] >= 0 and denoms[c] > 0)",
                    "forall(range(0, nb_bases), lambda c: implies(done[c], i[c] == 0))",
                    "forall(range(0, nb_bases), lambda c: implies(not done[c], i[c] > 0))",
                    # accumulator form of the digit expansion
                    "forall(range(0, nb_bases), lambda c: n_th_numbers[c] + ri(i[c], bases[c]) / denoms[c] == ri(index, bases[c]))"],
               props=["C13"])

# ------------------------------------------------------------------------------------------------ HaltonSampler
klass("SearchSpace", fields={"_parameters_bounds": "arr2[real]", "_parameters_precision": "arr1[real]",
                             "_param_grid": "seq[seq[real]]", "_space_size": "int"})
klass("HaltonSampler", fields={"_sequence_index": "int", "_prime_number_generator": "obj:_CachedPrimesCalculator",
                               "batch_size": "pos", "max_deduplication_passes": "nat"},
      invariant=["self._sequence_index >= 0"])

# a well-formed search space (established by SearchSpace.__init__, see C15): bounds (2, dims), one sorted non-empty
# grid per parameter
_SPACE_OK = ["search_space.parameters_bounds.shape[0] == 2 and search_space.parameters_bounds.shape[1] == search_space.dims",
             "len(search_space.param_grid) == search_space.dims and search_space.dims >= 1",
             "forall(range(0, search_space.dims), lambda c: len(search_space.param_grid[c]) >= 1 and forall(lambda j, k: "
             "implies(0 <= j and j <= k and k < len(search_space.param_grid[c]), "
             "search_space.param_grid[c][j] <= search_space.param_grid[c][k])))"]

# the cache of primes: verified against an ABSTRACT unbounded sieve (`_PrimesIterator.__next__` returns, at its k-th
# call, the k-th prime after 2 - assumed; `_count` is a specification-only field counting the calls)
klass("_PrimesIterator", fields={"_count": "int"})
klass("_CachedPrimesCalculator", fields={"_primes_iterator": "obj:_PrimesIterator", "_cached_primes": "list[int]"},
      invariant=["len(self._cached_primes) >= 1",
                 "forall(range(0, len(self._cached_primes)), lambda c: self._cached_primes[c] == prime(c))",
                 "self._primes_iterator._count == len(self._cached_primes) - 1"])
contract(f"{H}::_PrimesIterator.__init__", abstract=True, params={}, ensures=["self._count == 0"], modifies=["self.*"],
         props=["C13"], notes="ASSUMED: a fresh sieve has produced no prime yet (specification-only counter)")
contract(f"{H}::_PrimesIterator.__next__", abstract=True, params={}, returns="int", props=["C13"],
         ensures=["result == prime(old(self._count) + 1)", "self._count == old(self._count) + 1"],
         modifies=["self._count"],
         notes="ASSUMED: the unbounded sieve of Eratosthenes yields 3, 5, 7, ... - the (k+1)-th prime at its k-th call "
               "(stand-in C13/primes: first 2000 values against trial division, any call order)")
contract(f"{H}::_CachedPrimesCalculator.__init__", params={}, ensures=[], modifies=["self.*"], props=["C13"])
contract(f"{H}::_CachedPrimesCalculator.get_n_primes", params={"n": "int"}, returns="arr1[int]",
         raises=[{"exc": "ValueError", "when": "not (n >= 1)"}], props=["C13"],
         ensures=["len(result) == n", "forall(range(0, n), lambda c: result[c] == prime(c))"],
         modifies=["self._cached_primes[*]", "self._primes_iterator._count"],
         notes="the caching logic is verified; the primes themselves come from the assumed sieve contract")
loop_invariant(f"{H}::_CachedPrimesCalculator.get_n_primes", "extend1", over="range(_ext_k)", var="j",
               inv=["len(self._cached_primes) == entry(len(self._cached_primes)) + j",
                    "forall(range(0, len(self._cached_primes)), lambda c: self._cached_primes[c] == prime(c))",
                    "self._primes_iterator._count == len(self._cached_primes) - 1",
                    "_ext_list is self._cached_primes and _ext_it is self._primes_iterator"],
               props=["C13"])

contract(f"{H}::HaltonSampler._reset_sequence_index", params={}, props=["C13", "C01"],
         ensures=["20 <= self._sequence_index and self._sequence_index < 2**16",
                  "self._sequence_index == spec_draw_int(old(self.random_generator.state), 20, 2**16)"],
         modifies=["self._sequence_index", "self.random_generator.state"])

contract(f"{H}::HaltonSampler._set_random_state", params={"random_state": "opt[int]"}, props=["C13", "C01"],
         ensures=["self.random_state == random_state",
                  "20 <= self._sequence_index and self._sequence_index < 2**16",
                  # reset completeness: the cursor is a function of the seed alone
                  "implies(random_state is not None, self._sequence_index == "
                  "spec_draw_int(spec_seed_state(random_state), 20, 2**16))"],
         modifies=["self._BaseSeedable__random_state", "self._BaseSeedable__random_generator", "self._sequence_index"])

contract(f"{H}::HaltonSampler._halton", params={"nb_samples": "int", "dims": "int"}, returns="arr2[real]",
         requires=["nb_samples >= 1", "dims >= 1"], props=["C13"],
         ensures=["result.shape[0] == nb_samples and result.shape[1] == dims",
                  "forall(range(0, nb_samples), lambda r: forall(range(0, dims), lambda c: "
                  "result[r, c] == ri(old(self._sequence_index) + 1 + r, prime(c))))",
                  # no gaps: the cursor advances by exactly the number of points drawn
                  "self._sequence_index == old(self._sequence_index) + nb_samples"],
         modifies=["self._sequence_index"])

contract(f"{H}::HaltonSampler.sample_batch",
         params={"batch_size": "int", "search_space": "obj:SearchSpace", "existing_points": "arr2[real]",
                 "existing_losses": "arr1[real]"},
         returns="arr2[real]", requires=["batch_size >= 1"] + _SPACE_OK, props=["C13", "C03", "C16"],
         defs={"lb": (["c"], "search_space.parameters_bounds[0, c]"), "ub": (["c"], "search_space.parameters_bounds[1, c]"),
               "raw": (["r", "c"], "lb(c) + ri(old(self._sequence_index) + 1 + r, prime(c)) * (ub(c) - lb(c))")},
         ensures=["result.shape[0] == batch_size and result.shape[1] == search_space.dims",
                  # C03: every coordinate is an exact element of its parameter's grid
                  "forall(range(0, batch_size), lambda r: forall(range(0, search_space.dims), lambda c: "
                  "exists(range(0, len(search_space.param_grid[c])), lambda k: result[r, c] == search_space.param_grid[c][k])))",
                  # C13: it is the snap of the true Halton point mapped to the box
                  "forall(range(0, batch_size), lambda r: forall(range(0, search_space.dims), lambda c: "
                  "forall(range(0, len(search_space.param_grid[c])), lambda j: "
                  "abs(raw(r, c) - result[r, c]) <= abs(raw(r, c) - search_space.param_grid[c][j]))))",
                  "self._sequence_index == old(self._sequence_index) + batch_size"],
         modifies=["self._sequence_index"])

# ------------------------------------------------------------------------------------------------ RSequenceSampler
klass("RSequenceSampler", fields={"_sequence_index": "int", "_sequence_start": "real", "batch_size": "pos",
                                  "max_deduplication_passes": "nat"},
      invariant=["self._sequence_index >= 0"])

contract(f"{R}::RSequenceSampler.compute_phi", params={"nb_dims": "int"}, returns="real", props=["C13"],
         raises=[{"exc": "ValueError", "when": "not (nb_dims >= 1)"}],
         # partial correctness: on exit phi is a fixed point of x -> (1+x)^(1/(d+1)) in the code's own arithmetic
         ensures=["result == upow(1 + result, 1.0 / (nb_dims + 1))", "result > 0"], modifies=[])

loop_invariant(f"{R}::RSequenceSampler.compute_phi", 1, over="old_phi != phi", var="it",
               inv=["implies(old_phi is not None, phi == upow(1 + old_phi, 1.0 / (nb_dims + 1)))", "nb_dims >= 1",
                    "phi > 0"],
               props=["C13"])

contract(f"{R}::RSequenceSampler._reset", params={}, props=["C13", "C01"],
         ensures=["20 <= self._sequence_index and self._sequence_index < 2**16",
                  "0 <= self._sequence_start and self._sequence_start < 1",
                  "self._sequence_index == spec_draw_int(old(self.random_generator.state), 20, 2**16)",
                  "self._sequence_start == spec_draw_real(spec_next_state(old(self.random_generator.state), 2))"],
         modifies=["self._sequence_index", "self._sequence_start", "self.random_generator.state"])

contract(f"{R}::RSequenceSampler._set_random_state", params={"random_state": "opt[int]"}, props=["C13", "C01"],
         ensures=["self.random_state == random_state",
                  "implies(random_state is not None, self._sequence_index == "
                  "spec_draw_int(spec_seed_state(random_state), 20, 2**16) and self._sequence_start == "
                  "spec_draw_real(spec_next_state(spec_seed_state(random_state), 2)))"],
         modifies=["self._BaseSeedable__random_state", "self._BaseSeedable__random_generator", "self._sequence_index",
                   "self._sequence_start"])

contract(f"{R}::RSequenceSampler._r_sequence", params={"nb_samples": "int", "dims": "int"}, returns="arr2[real]",
         requires=["nb_samples >= 0", "dims >= 1"], props=["C13"],
         ensures=["result.shape[0] == nb_samples and result.shape[1] == dims",
                  # (offset + n * alpha) mod 1 with alpha_c = (1/phi)^(c+1), phi the fixed point for this dimension
                  "exists_real(lambda phi: phi > 0 and phi == upow(1 + phi, 1.0 / (dims + 1)) and "
                  "forall(range(0, nb_samples), lambda r: forall(range(0, dims), lambda c: result[r, c] == "
                  "frac(self._sequence_start + (old(self._sequence_index) + r) * upow(1 / phi, c + 1)))))",
                  "self._sequence_index == old(self._sequence_index) + nb_samples",
                  "self._sequence_start == old(self._sequence_start)"],
         modifies=["self._sequence_index"])

contract(f"{R}::RSequenceSampler.sample_batch",
         params={"batch_size": "int", "search_space": "obj:SearchSpace", "existing_points": "arr2[real]",
                 "existing_losses": "arr1[real]"},
         returns="arr2[real]", requires=["batch_size >= 1"] + _SPACE_OK, props=["C13", "C03", "C16"],
         ensures=["result.shape[0] == batch_size and result.shape[1] == search_space.dims",
                  "forall(range(0, batch_size), lambda r: forall(range(0, search_space.dims), lambda c: "
                  "exists(range(0, len(search_space.param_grid[c])), lambda k: result[r, c] == search_space.param_grid[c][k])))",
                  "self._sequence_index == old(self._sequence_index) + batch_size",
                  "self._sequence_start == old(self._sequence_start)"],
         modifies=["self._sequence_index"])

from pyvc.api import lemma  # noqa: E402

# "two batches of n equal one batch of 2n" (any split): consequence of the _halton contract alone
lemma("C13/halton-no-gaps",
      vars={"s": "int", "n": "int", "m": "int", "d": "int", "A": "arr2[real]", "B": "arr2[real]", "AB": "arr2[real]"},
      assumes=["s >= 0 and n >= 1 and m >= 1 and d >= 1",
               # first call from cursor s, second from the cursor it left (s + n), single call of n + m from s
               "forall(range(0, n), lambda r: forall(range(0, d), lambda c: A[r, c] == ri(s + 1 + r, prime(c))))",
               "forall(range(0, m), lambda r: forall(range(0, d), lambda c: B[r, c] == ri((s + n) + 1 + r, prime(c))))",
               "forall(range(0, n + m), lambda r: forall(range(0, d), lambda c: AB[r, c] == ri(s + 1 + r, prime(c))))"],
      goal="forall(range(0, d), lambda c: forall(range(0, n), lambda r: AB[r, c] == A[r, c]) and "
           "forall(range(0, m), lambda r: AB[n + r, c] == B[r, c]))",
      props=["C13"], uses=[f"{H}::HaltonSampler._halton"])
