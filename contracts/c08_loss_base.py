"""C08 / C07 - the loss interface (black_it/loss_functions/base.py) with an ABSTRACT single-coordinate loss."""
from pyvc.api import contract, klass, loop_invariant

LB = "black_it/loss_functions/base.py"
MK = "black_it/loss_functions/minkowski.py"

klass("BaseLoss", fields={"coordinate_weights": "opt[arr1[real]]", "coordinate_filters": "opt[seq[opaque:Filter]]"})

contract(f"{LB}::BaseLoss.__init__",
         params={"coordinate_weights": "opt[arr1[real]]", "coordinate_filters": "opt[seq[opaque:Filter]]"},
         ensures=["self.coordinate_weights is coordinate_weights", "self.coordinate_filters is coordinate_filters"],
         modifies=["self.coordinate_weights", "self.coordinate_filters"], props=["C08", "C07"])

contract(f"{LB}::BaseLoss._check_coordinate_weights", params={"num_coords": "int"}, returns="arr1[real]",
         requires=["num_coords >= 1"], props=["C08", "C07"],
         raises=[{"exc": "ValueError", "when": "self.coordinate_weights is not None and "
                                                "len(self.coordinate_weights) != num_coords"}],
         ensures=["len(result) == num_coords",
                  # uniform 1/D by default, the given weights otherwise
                  "implies(self.coordinate_weights is None, forall(range(0, num_coords), lambda i: result[i] == 1 / num_coords))",
                  "implies(self.coordinate_weights is not None, forall(range(0, num_coords), lambda i: "
                  "result[i] == self.coordinate_weights[i]))"],
         modifies=[])

contract(f"{LB}::BaseLoss._check_coordinate_filters", params={"num_coords": "int"},
         returns="seq[opt[opaque:Filter]]", requires=["num_coords >= 1"], props=["C08", "C07"],
         raises=[{"exc": "ValueError", "when": "self.coordinate_filters is not None and "
                                                "len(self.coordinate_filters) != num_coords"}],
         ensures=["len(result) == num_coords"], modifies=[])

# coordinate i of the result is the i-th filter applied member by member to sim_data_ensemble[:, :, i]
# (filt / filt_len: the user filter as an uninterpreted pure function of the filter object and the series it is given)
_FILTERED = (
    "implies(filters[i] is None, {X}.shape[0] == sim_data_ensemble.shape[0] and {X}.shape[1] == sim_data_ensemble.shape[1] and "
    "forall(range(0, sim_data_ensemble.shape[0]), lambda j: forall(range(0, sim_data_ensemble.shape[1]), lambda t: "
    "{X}[j, t] == sim_data_ensemble[j, t, i]))) and "
    "implies(filters[i] is not None, {X}.shape[0] == sim_data_ensemble.shape[0] and "
    "forall(range(0, sim_data_ensemble.shape[0]), lambda j: forall(range(0, {X}.shape[1]), lambda t: "
    "{X}[j, t] == filt(filters[i], sim_data_ensemble[j, :, i], t))))")
contract(f"{LB}::BaseLoss._filter_data",
         params={"filters": "seq[opt[opaque:Filter]]", "sim_data_ensemble": "arr3[real]"}, returns="arr3[real]",
         requires=["len(filters) >= 1", "sim_data_ensemble.shape[0] >= 1", "len(filters) == sim_data_ensemble.shape[2]"],
         # filters that return series of different lengths make np.array ragged: NumPy raises ValueError
         may_raise=["ValueError"],
         ensures=["result.shape[0] == len(filters)",
                  "forall(range(0, len(filters)), lambda i: " + _FILTERED.format(X="result[i]") + ")"],
         modifies=[], props=["C08", "C07"],
         notes="user filters are uninterpreted pure functions (filt); coordinates whose filters return series of "
               "different lengths make np.array ragged - outside the subset (equal shapes assumed by the np.array model)")
loop_invariant(f"{LB}::BaseLoss._filter_data", 1, over="enumerate(filters)", var="fi",
               locals={"filtered_data": "arr2[real]"},
               inv=["len(filtered_data) == fi",
                    "forall(range(0, fi), lambda i: " + _FILTERED.format(X="filtered_data[i]") + ")"],
               props=["C08"])

contract(f"{LB}::BaseLoss.compute_loss_1d", abstract=True,
         params={"sim_data_ensemble": "arr2[real]", "real_data": "arr1[real]"}, returns="real",
         ensures=["result == l1d(self, sim_data_ensemble, real_data)"], modifies=[], props=["C08", "C07"],
         notes="abstract single-coordinate loss: ANY pure function of (loss object, the two arrays it is given)")

contract(f"{LB}::BaseLoss.compute_loss",
         params={"sim_data_ensemble": "arr3[real]", "real_data": "arr2[real]"}, returns="real",
         # data of compatible shape: one simulated coordinate per real coordinate, at least one ensemble member
         requires=["real_data.shape[1] >= 1", "sim_data_ensemble.shape[2] == real_data.shape[1]",
                   "sim_data_ensemble.shape[0] >= 1"], props=["C08", "C07", "C02", "C11"],
         raises=[{"exc": "ValueError", "when": "self.coordinate_weights is not None and "
                                                "len(self.coordinate_weights) != real_data.shape[1]"},
                 {"exc": "ValueError", "when": "self.coordinate_filters is not None and "
                                                "len(self.coordinate_filters) != real_data.shape[1]"}],
         may_raise=["Exception"],   # user filters / single-coordinate losses may raise anything (C11)
         ensures=[],
         # the value is NAMED as a function of (loss object, the two arrays handed in): a definitional update used by
         # callers to say "the loss of exactly those series" (determinism: frame + no-state analyses of C08)
         ghost_ensures=["result == closs(self, sim_data_ensemble, real_data)"],
         modifies=[])

_WSUM = "fsum(lambda j: l1d(self, filtered_data[j], real_data[:, j]) * weights[j], {n})"

loop_invariant(f"{LB}::BaseLoss.compute_loss", 1, over="range(num_coords)", var="co",
               inv=["loss == " + _WSUM.format(n="co"), "num_coords == real_data.shape[1]",
                    "len(weights) == num_coords and filtered_data.shape[0] == num_coords"],
               props=["C08"])

from pyvc.api import stmt_contract  # noqa: E402

# the multi-coordinate value is the weighted sum of the single-coordinate values of (filtered coordinate i, real
# coordinate i), with the weights returned by the length-checked weight accessor (1/D by default)
stmt_contract(f"{LB}::BaseLoss.compute_loss", match="return loss", label="weighted-sum-of-1d-losses",
              ensures=["loss == " + _WSUM.format(n="real_data.shape[1]"),
                       "implies(self.coordinate_weights is None, forall(range(0, real_data.shape[1]), lambda i: "
                       "weights[i] == 1 / real_data.shape[1]))",
                       "implies(self.coordinate_weights is not None, forall(range(0, real_data.shape[1]), lambda i: "
                       "weights[i] == self.coordinate_weights[i]))"],
              props=["C08", "C07"])

# ---- constructors of the built-in losses: options are stored, weights AND filters reach the base class -----------
_W = {"coordinate_weights": "opt[arr1[real]]", "coordinate_filters": "opt[seq[opaque:Filter]]"}
_FWD = ["self.coordinate_weights is coordinate_weights", "self.coordinate_filters is coordinate_filters"]

klass("MinkowskiLoss", fields={"p": "int"})
contract(f"{MK}::MinkowskiLoss.__init__", params={"p": "int", **_W}, ensures=["self.p == p"] + _FWD,
         modifies=["self.*"], props=["C07", "C08"])

FO = "black_it/loss_functions/fourier.py"
klass("FourierLoss", fields={"f": "real", "frequency_filter": "opaque:FrequencyFilter"})
contract(f"{FO}::FourierLoss.__init__", params={"frequency_filter": "opaque:FrequencyFilter", "f": "real", **_W},
         raises=[{"exc": "Exception", "when": "not (0 < f and f <= 1)"}],
         ensures=["self.f == f", "self.frequency_filter is frequency_filter"] + _FWD, modifies=["self.*"],
         props=["C07", "C08"])

GS = "black_it/loss_functions/gsl_div.py"
klass("GslDivLoss", fields={"nb_values": "opt[int]", "nb_word_lengths": "opt[int]"})
contract(f"{GS}::GslDivLoss.__init__", params={"nb_values": "opt[int]", "nb_word_lengths": "opt[int]", **_W},
         ensures=["self.nb_values == nb_values", "self.nb_word_lengths == nb_word_lengths"] + _FWD,
         modifies=["self.*"], props=["C07", "C08"])

LK = "black_it/loss_functions/likelihood.py"
klass("LikelihoodLoss", fields={"h": "any"})
contract(f"{LK}::LikelihoodLoss.__init__", params={"h": "any", **_W}, ensures=_FWD, modifies=["self.*"],
         props=["C07", "C08"])

MS = "black_it/loss_functions/msm.py"
klass("MethodOfMomentsLoss", fields={"_covariance_mat": "any", "_moment_calculator": "any",
                                     "_standardise_moments": "bool"})
contract(f"{MS}::MethodOfMomentsLoss._validate_covariance_and_calculator", trusted=True,
         params={"moment_calculator": "any", "covariance_mat": "any"}, may_raise=["ValueError"], ensures=[],
         modifies=[], props=["C07"], notes="ASSUMED: validation helper (enum / isinstance / symmetric test); may raise")
contract(f"{MS}::MethodOfMomentsLoss.__init__",
         params={"covariance_mat": "any", "moment_calculator": "any", "standardise_moments": "bool", **_W},
         may_raise=["ValueError"],
         ensures=["self._standardise_moments == standardise_moments", "self._covariance_mat is covariance_mat",
                  "self._moment_calculator is moment_calculator"] + _FWD,
         modifies=["self.*"], props=["C07", "C08"])
