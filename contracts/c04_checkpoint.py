"""C04 - checkpoint save / load of the JSON-CSV-HDF5 back-end under contract, over a ghost model of the checkpoint
folder (`ghost.disk`, see pyvc/lib_fs.py).  The property's "whatever the saving folder held before" is the unknown
initial content of the ghost disk."""
from pyvc.api import F, contract, disk_schema, ghost_function, ghost_var, klass, loop_invariant

JP = "black_it/utils/json_pandas_checkpointing.py"

ghost_var("disk", "disk")

_JSON = {"parameters_bounds": "arr2[real]", "parameters_precision": "arr1[real]", "real_data": "arr2[real]",
         "ensemble_size": "int", "N": "int", "D": "int", "convergence_precision": "opt[int]", "verbose": "bool",
         "saving_file": "opt[str]", "initial_random_seed": "opt[int]", "random_generator_state": "opaque",
         "model_name": "str", "current_batch_index": "int", "n_sampled_params": "int", "n_jobs": "int"}
disk_schema("calibration_params.json", _JSON)
disk_schema("calibration_results.csv", {"losses_samp": "arr1[real]", "batch_num_samp": "arr1[int]",
                                        "method_samp": "arr1[int]", "params_samp_{}": "arr1[real]"})
disk_schema("scheduler_pickled.pickle", {"": "opaque:BaseScheduler"})
disk_schema("loss_function_pickled.pickle", {"": "opaque:BaseLoss"})
disk_schema("series_samp.h5", {"data": "arr4[real]"})

_SAVE_PARAMS = {
    "checkpoint_path": "opaque", "parameters_bounds": "arr2[real]", "parameters_precision": "arr1[real]",
    "real_data": "arr2[real]", "ensemble_size": "int", "N": "int", "D": "int", "convergence_precision": "opt[int]",
    "verbose": "bool", "saving_file": "opt[str]", "initial_random_seed": "opt[int]", "random_generator_state": "opaque",
    "model_name": "str", "scheduler": "opaque:BaseScheduler", "loss_function": "opaque:BaseLoss",
    "current_batch_index": "int", "n_sampled_params": "int", "n_jobs": "int", "params_samp": "arr2[real]",
    "losses_samp": "arr1[real]", "series_samp": "arr4[real]", "batch_num_samp": "arr1[int]", "method_samp": "arr1[int]"}

_J = "calibration_params.json"
_C = "calibration_results.csv"
_H = "series_samp.h5"

_SCALARS = ["ensemble_size", "N", "D", "verbose", "current_batch_index", "n_sampled_params", "n_jobs", "model_name"]
_OPTS = ["convergence_precision", "saving_file", "initial_random_seed"]

_H5_SHAPE = (f"disk_h5('{_H}', 'data').shape[0] == series_samp.shape[0] and disk_h5('{_H}', 'data').shape[1] == series_samp.shape[1] "
             f"and disk_h5('{_H}', 'data').shape[2] == series_samp.shape[2] and disk_h5('{_H}', 'data').shape[3] == series_samp.shape[3]")
_H5_CONTENT = (f"forall(range(0, series_samp.shape[0]), lambda i: forall(range(0, series_samp.shape[1]), lambda e: "
               f"forall(range(0, series_samp.shape[2]), lambda t: forall(range(0, series_samp.shape[3]), lambda c: "
               f"disk_h5('{_H}', 'data')[i, e, t, c] == series_samp[i, e, t, c]))))")
# the previous series file is an earlier checkpoint of the same run: its rows are the first rows of the series
_PREFIX = (f"old(disk_exists('{_H}')) and old(disk_h5('{_H}', 'data').shape[0]) <= series_samp.shape[0] and "
           f"old(disk_h5('{_H}', 'data').shape[1]) == series_samp.shape[1] and old(disk_h5('{_H}', 'data').shape[2]) == series_samp.shape[2] "
           f"and old(disk_h5('{_H}', 'data').shape[3]) == series_samp.shape[3] and "
           f"forall(range(0, old(disk_h5('{_H}', 'data').shape[0])), lambda i: forall(range(0, series_samp.shape[1]), lambda e: "
           f"forall(range(0, series_samp.shape[2]), lambda t: forall(range(0, series_samp.shape[3]), lambda c: "
           f"old(disk_h5('{_H}', 'data')[i, e, t, c]) == series_samp[i, e, t, c]))))")

SAVE_ENSURES = (
    # ---- calibration_params.json holds exactly the values handed in
    [f"disk_json('{_J}', '{k}') == {k}" for k in _SCALARS]
    + [f"(disk_json('{_J}', '{k}') is None) == ({k} is None)" for k in _OPTS]
    + [f"implies({k} is not None, disk_json('{_J}', '{k}') == {k})" for k in _OPTS]
    + [f"disk_json('{_J}', 'random_generator_state') is random_generator_state",
       f"len(disk_json('{_J}', 'parameters_precision')) == len(parameters_precision)",
       f"forall(range(0, len(parameters_precision)), lambda c: disk_json('{_J}', 'parameters_precision')[c] == parameters_precision[c])",
       f"disk_json('{_J}', 'parameters_bounds').shape[0] == parameters_bounds.shape[0] and "
       f"disk_json('{_J}', 'parameters_bounds').shape[1] == parameters_bounds.shape[1]",
       f"forall(range(0, parameters_bounds.shape[0]), lambda r: forall(range(0, parameters_bounds.shape[1]), lambda c: "
       f"disk_json('{_J}', 'parameters_bounds')[r, c] == parameters_bounds[r, c]))",
       f"disk_json('{_J}', 'real_data').shape[0] == real_data.shape[0] and disk_json('{_J}', 'real_data').shape[1] == real_data.shape[1]",
       f"forall(range(0, real_data.shape[0]), lambda r: forall(range(0, real_data.shape[1]), lambda c: "
       f"disk_json('{_J}', 'real_data')[r, c] == real_data[r, c]))"]
    # ---- the two pickles hold the objects handed in
    + ["disk_pickle('scheduler_pickled.pickle') is scheduler", "disk_pickle('loss_function_pickled.pickle') is loss_function"]
    # ---- calibration_results.csv: one column per record vector, one per parameter
    + [f"len(disk_csv('{_C}', '{k}')) == len({k}) and forall(range(0, len({k})), lambda i: disk_csv('{_C}', '{k}')[i] == {k}[i])"
       for k in ("losses_samp", "batch_num_samp", "method_samp")]
    + [f"forall(range(0, params_samp.shape[1]), lambda d: disk_csv_has('{_C}', f'params_samp_{{d}}') and "
       f"len(disk_csv('{_C}', f'params_samp_{{d}}')) == params_samp.shape[0] and "
       f"forall(range(0, params_samp.shape[0]), lambda i: disk_csv('{_C}', f'params_samp_{{d}}')[i] == params_samp[i, d]))"]
    # ---- series_samp.h5: the dataset IS the series array handed in ...
    #  (a) when the folder held no series file, (b) when it held an earlier checkpoint of the same run (a row-prefix of
    #  the series), (c) whatever it held before - clause (c) is the property as stated
    + [f"implies({g}, {_H5_SHAPE})" for g in ("not old(disk_exists('series_samp.h5'))", "_same_run_prefix()")]
    + [f"implies({g}, {_H5_CONTENT})" for g in ("not old(disk_exists('series_samp.h5'))", "_same_run_prefix()")]
    + [f"disk_exists('{f}')" for f in (_J, _C, _H, "scheduler_pickled.pickle", "loss_function_pickled.pickle")]
)
_N = len(SAVE_ENSURES)
_LABELS = {_N - 9: "h5-fresh-file-shape", _N - 8: "h5-same-run-file-shape",
           _N - 7: "h5-fresh-file-content", _N - 6: "h5-same-run-file-content",
           SAVE_ENSURES.index("disk_pickle('scheduler_pickled.pickle') is scheduler"): "scheduler-pickled",
           SAVE_ENSURES.index("disk_pickle('loss_function_pickled.pickle') is loss_function"): "loss-pickled"}
# C09 ("counted over its whole life, across ... checkpoint restores"): the scheduler - with its position - is what the
# checkpoint holds and what a restore hands back; C09 owns exactly those obligations of the checkpoint chain
_C09 = {"C09": r"/F/scheduler-(pickled|unpickled)"}
# (c) the property as stated - KNOWN not to hold (append in place): checked on the body, never assumed by callers
SAVE_CLAIMS = {"h5-any-previous-file-shape": _H5_SHAPE, "h5-any-previous-file-content": _H5_CONTENT}

contract(f"{JP}::save_calibrator_state", params=_SAVE_PARAMS, props=["C04"], prop_groups=_C09,
         defs={"_same_run_prefix": ([], _PREFIX)}, labels=_LABELS,
         ensures=SAVE_ENSURES, claims=SAVE_CLAIMS, modifies=["ghost.disk"],
         notes="ghost disk model: files are named by their leaf name inside ONE checkpoint folder; the previous "
               "content of every file is unconstrained (typed by the declared schema)")

loop_invariant(f"{JP}::save_calibrator_state", 1, over="range(params_samp.shape[1])", var="dd",
               inv=["forall(range(0, dd), lambda e: f'params_samp_{e}' in calibration_results and "
                    "len(calibration_results[f'params_samp_{e}']) == params_samp.shape[0] and "
                    "forall(range(0, params_samp.shape[0]), lambda i: calibration_results[f'params_samp_{e}'][i] == params_samp[i, e]))",
                    "len(calibration_results['losses_samp']) == len(losses_samp) and "
                    "forall(range(0, len(losses_samp)), lambda i: calibration_results['losses_samp'][i] == losses_samp[i])",
                    "len(calibration_results['batch_num_samp']) == len(batch_num_samp) and "
                    "forall(range(0, len(batch_num_samp)), lambda i: calibration_results['batch_num_samp'][i] == batch_num_samp[i])",
                    "len(calibration_results['method_samp']) == len(method_samp) and "
                    "forall(range(0, len(method_samp)), lambda i: calibration_results['method_samp'][i] == method_samp[i])"],
               props=["C04"])

# ---- load: returns exactly what the folder holds ------------------------------------------------------------------
_LOAD_JSON_POS = {3: "ensemble_size", 4: "N", 5: "D", 7: "verbose", 11: "model_name", 14: "current_batch_index",
                  15: "n_sampled_params", 16: "n_jobs"}
_LOAD_OPT_POS = {6: "convergence_precision", 8: "saving_file", 9: "initial_random_seed"}
LOAD_ENSURES = (
    [f"result[{i}] == disk_json('{_J}', '{k}')" for i, k in _LOAD_JSON_POS.items()]
    + [f"(result[{i}] is None) == (disk_json('{_J}', '{k}') is None)" for i, k in _LOAD_OPT_POS.items()]
    + [f"implies(result[{i}] is not None, result[{i}] == disk_json('{_J}', '{k}'))" for i, k in _LOAD_OPT_POS.items()]
    + [f"result[10] is disk_json('{_J}', 'random_generator_state')",
       f"len(result[1]) == len(disk_json('{_J}', 'parameters_precision')) and forall(range(0, len(result[1])), "
       f"lambda c: result[1][c] == disk_json('{_J}', 'parameters_precision')[c])",
       f"len(result[0]) == len(disk_json('{_J}', 'parameters_bounds')) and forall(range(0, len(result[0])), lambda r: "
       f"len(result[0][r]) == len(disk_json('{_J}', 'parameters_bounds')[r]) and forall(range(0, len(result[0][r])), "
       f"lambda c: result[0][r][c] == disk_json('{_J}', 'parameters_bounds')[r][c]))",
       "result[12] is disk_pickle('scheduler_pickled.pickle')", "result[13] is disk_pickle('loss_function_pickled.pickle')",
       f"result[2].shape[0] == disk_json('{_J}', 'real_data').shape[0] and result[2].shape[1] == disk_json('{_J}', 'real_data').shape[1] "
       f"and forall(range(0, result[2].shape[0]), lambda r: forall(range(0, result[2].shape[1]), lambda c: "
       f"result[2][r, c] == disk_json('{_J}', 'real_data')[r, c]))"]
    + [f"len(result[{i}]) == len(disk_csv('{_C}', '{k}')) and forall(range(0, len(result[{i}])), lambda i: "
       f"result[{i}][i] == disk_csv('{_C}', '{k}')[i])" for i, k in ((18, "losses_samp"), (20, "batch_num_samp"), (21, "method_samp"))]
    # the parameter matrix: column d is the csv column params_samp_d, one column per declared precision
    + [f"result[17].shape[1] == len(disk_json('{_J}', 'parameters_precision')) and "
       f"result[17].shape[0] == len(disk_csv('{_C}', 'losses_samp'))",
       f"forall(range(0, len(disk_json('{_J}', 'parameters_precision'))), lambda d: forall(range(0, result[17].shape[0]), "
       f"lambda i: result[17][i, d] == disk_csv('{_C}', f'params_samp_{{d}}')[i]))"]
    + [f"result[19].shape[0] == disk_h5('{_H}', 'data').shape[0] and result[19].shape[1] == disk_h5('{_H}', 'data').shape[1] and "
       f"result[19].shape[2] == disk_h5('{_H}', 'data').shape[2] and result[19].shape[3] == disk_h5('{_H}', 'data').shape[3]",
       f"forall(range(0, result[19].shape[0]), lambda i: forall(range(0, result[19].shape[1]), lambda e: "
       f"forall(range(0, result[19].shape[2]), lambda t: forall(range(0, result[19].shape[3]), lambda c: "
       f"result[19][i, e, t, c] == disk_h5('{_H}', 'data')[i, e, t, c]))))"]
)
_LOAD_RET = ("tuple[seq[seq[real]],seq[real],arr2[real],int,int,int,opt[int],bool,opt[str],opt[int],opaque,str,"
             "opaque:BaseScheduler,opaque:BaseLoss,int,int,int,arr2[real],arr1[real],arr4[real],arr1[int],arr1[int]]")
contract(f"{JP}::load_calibrator_state", params={"checkpoint_path": "opaque", "_code_state_version": "int"},
         returns=_LOAD_RET, props=["C04"], prop_groups=_C09,
         labels={LOAD_ENSURES.index("result[12] is disk_pickle('scheduler_pickled.pickle')"): "scheduler-unpickled"},
         requires=[f"disk_exists('{f}')" for f in (_J, _C, _H, "scheduler_pickled.pickle", "loss_function_pickled.pickle")]
         + [f"len(disk_json('{_J}', 'parameters_precision')) >= 1",
                   # a well-formed checkpoint: one csv column per declared parameter, all of one length
                   f"forall(range(0, len(disk_json('{_J}', 'parameters_precision'))), lambda d: "
                   f"disk_csv_has('{_C}', f'params_samp_{{d}}') and len(disk_csv('{_C}', f'params_samp_{{d}}')) == "
                   f"len(disk_csv('{_C}', 'losses_samp')))"],
         ensures=LOAD_ENSURES, modifies=[],
         notes="the folder content is quantified over (any content of the declared schema); the codecs return what "
               "was stored (assumed library contracts)")


# ---- the round trip: what load returns after save is what save was given ----------------------------------------
_ARGS = ['parameters_bounds', 'parameters_precision', 'real_data', 'ensemble_size', 'N', 'D', 'convergence_precision', 'verbose', 'saving_file', 'initial_random_seed', 'random_generator_state', 'model_name', 'scheduler', 'loss_function', 'current_batch_index', 'n_sampled_params', 'n_jobs', 'params_samp', 'losses_samp', 'series_samp', 'batch_num_samp', 'method_samp']
_RT = ghost_function(JP, "def roundtrip(checkpoint_path, " + ", ".join(_ARGS) + "):\n"
                     "    save_calibrator_state(checkpoint_path, " + ", ".join(_ARGS) + ")\n"
                     "    return load_calibrator_state(checkpoint_path, 0)\n")
_SC = {3: "ensemble_size", 4: "N", 5: "D", 7: "verbose", 11: "model_name", 14: "current_batch_index",
       15: "n_sampled_params", 16: "n_jobs"}
_VEC = {18: "losses_samp", 20: "batch_num_samp", 21: "method_samp"}
contract(_RT, params=_SAVE_PARAMS, returns="any", props=["C04"],
         requires=["len(parameters_precision) >= 1 and params_samp.shape[1] == len(parameters_precision)",
                   "len(losses_samp) == params_samp.shape[0]"],
         defs={"_same_run_prefix": ([], _PREFIX)},
         ensures=[f"result[{i}] == {k}" for i, k in _SC.items()]
         + [f"(result[{i}] is None) == ({k} is None) and implies({k} is not None, result[{i}] == {k})"
            for i, k in _LOAD_OPT_POS.items()]
         + ["result[10] is random_generator_state", "result[12] is scheduler", "result[13] is loss_function",
            "len(result[1]) == len(parameters_precision) and forall(range(0, len(parameters_precision)), lambda c: "
            "result[1][c] == parameters_precision[c])",
            "len(result[0]) == parameters_bounds.shape[0] and forall(range(0, parameters_bounds.shape[0]), lambda r: "
            "len(result[0][r]) == parameters_bounds.shape[1] and forall(range(0, parameters_bounds.shape[1]), lambda c: "
            "result[0][r][c] == parameters_bounds[r, c]))",
            "result[2].shape[0] == real_data.shape[0] and result[2].shape[1] == real_data.shape[1] and "
            "forall(range(0, real_data.shape[0]), lambda r: forall(range(0, real_data.shape[1]), lambda c: "
            "result[2][r, c] == real_data[r, c]))"]
         + [f"len(result[{i}]) == len({k}) and forall(range(0, len({k})), lambda i: result[{i}][i] == {k}[i])"
            for i, k in _VEC.items()]
         + ["result[17].shape[0] == params_samp.shape[0] and result[17].shape[1] == params_samp.shape[1] and "
            "forall(range(0, params_samp.shape[0]), lambda i: forall(range(0, params_samp.shape[1]), lambda d: "
            "result[17][i, d] == params_samp[i, d]))",
            # the series come back exactly when the folder held no series file or an earlier checkpoint of this run
            ] + [
            f"implies({g}, result[19].shape[0] == series_samp.shape[0] and result[19].shape[1] == series_samp.shape[1] and "
            "result[19].shape[2] == series_samp.shape[2] and result[19].shape[3] == series_samp.shape[3])"
            for g in ("not old(disk_exists('series_samp.h5'))", "_same_run_prefix()")] + [
            f"implies({g}, forall(range(0, series_samp.shape[0]), lambda i: forall(range(0, series_samp.shape[1]), lambda e: "
            "forall(range(0, series_samp.shape[2]), lambda t: forall(range(0, series_samp.shape[3]), lambda c: "
            "result[19][i, e, t, c] == series_samp[i, e, t, c])))))"
            for g in ("not old(disk_exists('series_samp.h5'))", "_same_run_prefix()")],
         modifies=["ghost.disk"],
         notes="theorem over the two proved contracts (callers are checked against callee contracts): save establishes "
               "load's precondition and load returns save's arguments")


# ---- Calibrator.create_checkpoint: the folder holds the calibrator's state (checked against save's contract) --------
import re as _re  # noqa: E402

CA = "black_it/calibrator.py"
klass("SearchSpace", fields={"parameters_bounds": "arr2[real]", "parameters_precision": "arr1[real]"})
_SRC = {"parameters_bounds": "self.param_grid.parameters_bounds", "parameters_precision": "self.param_grid.parameters_precision",
        "real_data": "self.real_data", "ensemble_size": "self.ensemble_size", "N": "self.N", "D": "self.D",
        "convergence_precision": "self.convergence_precision", "verbose": "self.verbose", "saving_file": "self.saving_folder",
        "initial_random_seed": "self.random_state", "random_generator_state": "self.random_generator.bit_generator.state",
        "model_name": "self.model.__name__", "scheduler": "self.scheduler", "loss_function": "self.loss_function",
        "current_batch_index": "self.current_batch_index", "n_sampled_params": "self.n_sampled_params", "n_jobs": "self.n_jobs",
        "params_samp": "self.params_samp", "losses_samp": "self.losses_samp", "series_samp": "self.series_samp",
        "batch_num_samp": "self.batch_num_samp", "method_samp": "self.method_samp"}


def of_self(clause):
    """A clause of save's contract (over save's parameters) as a clause over the calibrator's attributes."""
    def sub(m):
        return _SRC[m.group(0)]
    return _re.sub(r"(?<![\w'.])(" + "|".join(sorted(_SRC, key=len, reverse=True)) + r")(?![\w'])", sub, clause)


# (facet "disk": these quantified clauses are verified - and assumed by callers - in a pass of their own)
CKPT_ENSURES = [F("disk", of_self(e)) for e in SAVE_ENSURES]
_CKPT_PREFIX = of_self(_PREFIX)
contract(f"{CA}::Calibrator.create_checkpoint", params={"file_name": "any"}, props=["C04", "C14"], prop_groups=_C09,
         defs={"_same_run_prefix": ([], _CKPT_PREFIX)}, labels=_LABELS,
         ensures=CKPT_ENSURES,
         ghost_ensures=["ghost.saved_index == self.current_batch_index", "ghost.saved_n == self.n_sampled_params",
                        "ghost.saved_sched_updates == ghost.sched_updates"],
         modifies=["ghost.disk", "ghost.saved_index", "ghost.saved_n", "ghost.saved_sched_updates"],
         notes="one checkpoint folder is modelled (the folder named by file_name / saving_folder); files are "
               "identified by their name inside it")


# ---- C04 (last clause) / C14: when calibrate() returns with a saving folder set, the folder holds the state it returned
# with.  The clauses are create_checkpoint's own post-conditions, carried by the loop invariant of calibrate.
from pyvc.api import REG  # noqa: E402

_CORE_KEYS = ("'current_batch_index'", "'n_sampled_params'", "'random_generator_state'", "scheduler_pickled",
              "loss_function_pickled", "'losses_samp'", "'batch_num_samp'", "'method_samp'", "params_samp_")
CKPT_CORE = [e for e in CKPT_ENSURES if any(k in e for k in _CORE_KEYS)]
_cal = REG["contracts"][f"{CA}::Calibrator.calibrate"]
_cal.ensures += [F("disk", f"implies(self.saving_folder is not None and self.current_batch_index - old(self.current_batch_index) >= 1, {e})")
                 for e in CKPT_CORE]
_cal.modifies.append("ghost.disk")
REG["invariants"][(f"{CA}::Calibrator.calibrate", 1)].inv += [
    F("disk", f"implies(self.saving_folder is not None and b >= 1, {e})") for e in CKPT_CORE]


# ---- Calibrator.restore_from_checkpoint: the calibrator built from the folder IS the folder's state ------------------
def of_result(clause):
    """`self.x` -> `result.x`, `disk == self.x` read as `result.x == disk` - the same correspondence, seen from restore."""
    return clause.replace("self.", "result.")


_RESTORE_KEYS = ("'ensemble_size'", "'N'", "'verbose'", "'current_batch_index'", "'n_sampled_params'", "'n_jobs'",
                 "'convergence_precision'", "'saving_file'", "'initial_random_seed'", "'random_generator_state'",
                 "scheduler_pickled", "loss_function_pickled", "'losses_samp'", "'batch_num_samp'", "'method_samp'",
                 "params_samp_", "'real_data'", "'parameters_precision'", "'parameters_bounds'")
RESTORE_ENSURES = [of_result(e) for e in CKPT_ENSURES if any(k in e for k in _RESTORE_KEYS) and "disk_exists" not in e] + [
    "result.model is model",
    "result.D == result.real_data.shape[1]",
    f"result.params_samp.shape[1] == len(disk_json('{_J}', 'parameters_precision')) and "
    f"result.params_samp.shape[0] == len(disk_csv('{_C}', 'losses_samp'))",
    # the series come back as stored
    f"result.series_samp.shape[1] == disk_h5('{_H}', 'data').shape[1] and result.series_samp.shape[2] == disk_h5('{_H}', 'data').shape[2] "
    f"and result.series_samp.shape[3] == disk_h5('{_H}', 'data').shape[3]",
    f"result.series_samp.shape[0] == disk_h5('{_H}', 'data').shape[0] and forall(range(0, result.series_samp.shape[0]), "
    f"lambda i: forall(range(0, result.series_samp.shape[1]), lambda e: forall(range(0, result.series_samp.shape[2]), "
    f"lambda t: forall(range(0, result.series_samp.shape[3]), lambda c: result.series_samp[i, e, t, c] == disk_h5('{_H}', 'data')[i, e, t, c]))))",
]
_WELL_FORMED = [f"disk_exists('{f}')" for f in (_J, _C, _H, "scheduler_pickled.pickle", "loss_function_pickled.pickle")] + [
    f"len(disk_json('{_J}', 'parameters_precision')) >= 1",
    f"forall(range(0, len(disk_json('{_J}', 'parameters_precision'))), lambda d: disk_csv_has('{_C}', f'params_samp_{{d}}') "
    f"and len(disk_csv('{_C}', f'params_samp_{{d}}')) == len(disk_csv('{_C}', 'losses_samp')))",
    # what the constructor demands of its arguments (true of every checkpoint written by a live calibrator)
    f"disk_json('{_J}', 'ensemble_size') >= 1 and disk_json('{_J}', 'N') >= 1",
    f"disk_json('{_J}', 'real_data').shape[0] >= 1 and disk_json('{_J}', 'real_data').shape[1] >= 1",
    "len(disk_pickle('scheduler_pickled.pickle').samplers) >= 1",
]
contract(f"{CA}::Calibrator.restore_from_checkpoint", params={"checkpoint_path": "opaque", "model": "opaque"},
         returns="obj:Calibrator", props=["C04"], requires=_WELL_FORMED, prop_groups=_C09,
         labels={i: "scheduler-unpickled" for i, e in enumerate(RESTORE_ENSURES) if "scheduler_pickled" in e},
         may_raise=["SearchSpaceError", "ValueError", "AssertionError", "Exception"],
         ensures=RESTORE_ENSURES, modifies=[],
         notes="the folder content is quantified over (any well-formed checkpoint of the declared schema)")

# ---- THE C04 theorem for the JSON/CSV/HDF5 back-end: restore_from_checkpoint(create_checkpoint(c)) is c ----------------
_CRT = ghost_function(CA, "def checkpoint_roundtrip(cal, folder, model):\n"
                          "    cal.create_checkpoint(folder)\n"
                          "    return Calibrator.restore_from_checkpoint(folder, model)\n")


def _c(clause):
    return clause.replace("self.", "cal.")


_EQ_SCALAR = ["ensemble_size", "N", "D", "verbose", "current_batch_index", "n_sampled_params", "n_jobs"]
_EQ_OPT = ["convergence_precision", "saving_folder", "random_state"]
_EQ_VEC = ["losses_samp", "batch_num_samp", "method_samp"]
_SERIES_EQ = ("result.series_samp.shape[0] == cal.series_samp.shape[0] and forall(range(0, cal.series_samp.shape[0]), lambda i: "
              "forall(range(0, cal.series_samp.shape[1]), lambda e: forall(range(0, cal.series_samp.shape[2]), lambda t: "
              "forall(range(0, cal.series_samp.shape[3]), lambda q: result.series_samp[i, e, t, q] == cal.series_samp[i, e, t, q]))))")
contract(_CRT, params={"cal": "obj:Calibrator", "folder": "opaque", "model": "opaque"}, returns="obj:Calibrator",
         props=["C04"], only_facet="disk",
         requires=[_c(x) for x in REG["classes"]["Calibrator"].invariant] + [
             "cal.real_data.shape[0] >= 1 and cal.param_grid.dims >= 1 and len(cal.param_grid.parameters_precision) == cal.param_grid.dims",
             "len(cal.scheduler.samplers) >= 1"],
         defs={"_same_run_prefix": ([], _c(_CKPT_PREFIX))},
         may_raise=["SearchSpaceError", "ValueError", "AssertionError", "Exception"],
         ensures=[F("disk", x) for x in ([f"result.{k} == cal.{k}" for k in _EQ_SCALAR]
         + [f"(result.{k} is None) == (cal.{k} is None) and implies(cal.{k} is not None, result.{k} == cal.{k})" for k in _EQ_OPT]
         + ["result.scheduler is cal.scheduler and result.loss_function is cal.loss_function and result.model is model",
            "result.random_generator.state == cal.random_generator.state"]
         + [f"len(result.{k}) == len(cal.{k}) and forall(range(0, len(cal.{k})), lambda i: result.{k}[i] == cal.{k}[i])" for k in _EQ_VEC]
         + ["result.params_samp.shape[0] == cal.params_samp.shape[0] and result.params_samp.shape[1] == cal.params_samp.shape[1] and "
            "forall(range(0, cal.params_samp.shape[0]), lambda i: forall(range(0, cal.params_samp.shape[1]), lambda d: "
            "result.params_samp[i, d] == cal.params_samp[i, d]))",
            "result.real_data.shape[0] == cal.real_data.shape[0] and result.real_data.shape[1] == cal.real_data.shape[1] and "
            "forall(range(0, cal.real_data.shape[0]), lambda r: forall(range(0, cal.real_data.shape[1]), lambda q: "
            "result.real_data[r, q] == cal.real_data[r, q]))",
            "len(result.param_grid.parameters_precision) == len(cal.param_grid.parameters_precision) and "
            "forall(range(0, len(cal.param_grid.parameters_precision)), lambda q: "
            "result.param_grid.parameters_precision[q] == cal.param_grid.parameters_precision[q])",
            f"implies(not old(disk_exists('{_H}')), {_SERIES_EQ})", f"implies(_same_run_prefix(), {_SERIES_EQ})"])],
         modifies=["ghost.disk", "ghost.saved_index", "ghost.saved_n", "ghost.saved_sched_updates"],
         notes="theorem over the proved contracts of create_checkpoint and restore_from_checkpoint: every component of the "
               "observable state comes back; the series only when the folder held no series file or an earlier checkpoint "
               "of the same run (otherwise: known finding stale-series-file)")
