"""C16 (best-batch clause) - BestBatchSampler.sample_batch under contract.

"a best-batch proposal is always one of the batch_size lowest-loss points of the history displaced by between 1 and
perturbation_range-1 precision steps on at least one coordinate (then confined to the space)"

  * selection (statement contract): the parents are the first batch_size history rows in np.argsort order of the losses
    (np.argsort is modelled as a FUNCTION of the array value, so the specification's argsort is the code's);
  * displacement (loop invariants): row q of the batch is parent[idx[q]] with every coordinate either untouched or moved by
    m in 1..perturbation_range-1 precision steps up or down and clipped to the bounds, and at least one coordinate moved;
    the coordinates moved are pairwise different (Generator.choice(..., replace=False)), so no coordinate moves twice;
  * the result is the snapped batch (digitize_data's contract): shape and on-grid (C03).
"""
from pyvc.api import contract, klass, loop_invariant, stmt_contract

BB = "black_it/samplers/best_batch.py"
K = f"{BB}::BestBatchSampler.sample_batch"

klass("BestBatchSampler", fields={"batch_size": "pos", "max_deduplication_passes": "nat", "a": "real", "b": "real",
                                  "perturbation_range": "int"},
      invariant=["self.a > 0 and self.b > 0", "self.perturbation_range > 1"])

_SPACE = ["search_space.dims >= 1",
          "search_space.parameters_bounds.shape[0] == 2 and search_space.parameters_bounds.shape[1] == search_space.dims",
          "len(search_space.parameters_precision) == search_space.dims",
          "len(search_space.param_grid) == search_space.dims",
          # (SearchSpace's own guarantees, C15: lower < upper, positive precision)
          "forall(range(0, search_space.dims), lambda c: search_space.parameters_bounds[0, c] < search_space.parameters_bounds[1, c] "
          "and search_space.parameters_precision[c] > 0)",
          "forall(range(0, search_space.dims), lambda c: len(search_space.param_grid[c]) >= 1 and forall(lambda j, k: "
          "implies(0 <= j and j <= k and k < len(search_space.param_grid[c]), "
          "search_space.param_grid[c][j] <= search_space.param_grid[c][k])))"]

_DEFS = {
    "clipv": (["x", "lo", "hi"], "ite(x < lo, lo, ite(x > hi, hi, x))"),
    # v is x0 moved by m in 1..range-1 steps of size d up or down, then clipped to [lo, hi]
    "moved": (["v", "x0", "d", "lo", "hi"],
              "exists(range(1, self.perturbation_range), lambda m: hint(m) and "
              "(v == clipv(x0 + d * m, lo, hi) or v == clipv(x0 - d * m, lo, hi)))"),
    "parent": (["q", "c"], "candidate_points[candidate_point_indexes[q], c]"),
    "lo": (["c"], "search_space.parameters_bounds[0, c]"),
    "hi": (["c"], "search_space.parameters_bounds[1, c]"),
    "step": (["c"], "search_space.parameters_precision[c]"),
}

contract(K, params={"batch_size": "int", "search_space": "obj:SearchSpace", "existing_points": "arr2[real]",
                    "existing_losses": "arr1[real]"},
         returns="arr2[real]", props=["C16", "C03"], defs=_DEFS,
         requires=["batch_size >= 1", "existing_points.shape[1] == search_space.dims",
                   "len(existing_losses) == existing_points.shape[0]"] + _SPACE,
         raises=[{"exc": "ValueError", "when": "existing_points.shape[0] < batch_size"}],
         ensures=["result.shape[0] == batch_size and result.shape[1] == search_space.dims",
                  "forall(range(0, result.shape[0]), lambda r: forall(range(0, search_space.dims), lambda c: "
                  "exists(range(0, len(search_space.param_grid[c])), lambda k: result[r, c] == search_space.param_grid[c][k])))"],
         modifies=["self.random_generator.state"],
         notes="the history arrays are not written (frame); scipy's betabinom.rvs and Generator.choice(replace=False) are "
               "assumed library contracts (support 0..n; pairwise different indices)")

# ---- the parents are the batch_size lowest-loss history entries -----------------------------------------------------
stmt_contract(K, match="candidate_points: NDArray[np.float64] = existing_points[np.argsort(existing_losses)][:batch_size, :]",
              label="parents-are-the-lowest-loss-entries",
              ensures=["candidate_points.shape[0] == batch_size and candidate_points.shape[1] == existing_points.shape[1]",
                       "forall(range(0, batch_size), lambda k: forall(range(0, existing_points.shape[1]), lambda c: "
                       "candidate_points[k, c] == existing_points[np.argsort(existing_losses)[k], c]))"],
              props=["C16"])
# ---- every row of the working copy starts as one of the parents -----------------------------------------------------
stmt_contract(K, match="sampled_points: NDArray[np.float64] = np.copy(candidate_points[candidate_point_indexes])",
              label="rows-start-as-parents",
              ensures=["sampled_points.shape[0] == batch_size and sampled_points.shape[1] == search_space.dims",
                       "len(candidate_point_indexes) == batch_size",
                       "forall(range(0, batch_size), lambda q: 0 <= candidate_point_indexes[q] and "
                       "candidate_point_indexes[q] < batch_size and forall(range(0, search_space.dims), lambda c: "
                       "sampled_points[q, c] == parent(q, c)))"],
              props=["C16"])
# (instantiation seed for the existential `moved`: the step count actually drawn)
stmt_contract(K, match="shift: float = delta * shock_sign * shock_size", label="step-count-drawn", lemma=True,
              ensures=["hint(shock_size)", "1 <= shock_size and shock_size < self.perturbation_range",
                       "shock_sign == 1 or shock_sign == -1"], props=["C16"])

# (instantiation seed for "at least one coordinate moved": the first coordinate drawn)
stmt_contract(K, match="params_shocked: NDArray[np.int64] = self.random_generator.choice(search_space.dims, "
                       "tuple(num_shocks), replace=False)",
              label="at-least-one-coordinate-drawn", lemma=True,
              ensures=["len(params_shocked) >= 1", "0 <= params_shocked[0] and params_shocked[0] < search_space.dims",
                       "hint(params_shocked[0])"], props=["C16"])

_ROW_DONE = ("forall(range(0, search_space.dims), lambda c: sampled_points[{q}, c] == parent({q}, c) or "
             "moved(sampled_points[{q}, c], parent({q}, c), step(c), lo(c), hi(c))) and "
             "exists(range(0, search_space.dims), lambda c: hint(c) and "
             "moved(sampled_points[{q}, c], parent({q}, c), step(c), lo(c), hi(c)))")
loop_invariant(K, 1, over="sampled_points", var="r", props=["C16"],
               inv=["sampled_points.shape[0] == batch_size and sampled_points.shape[1] == search_space.dims",
                    # rows not yet visited are still their parents
                    "forall(range(r, batch_size), lambda q: forall(range(0, search_space.dims), lambda c: "
                    "sampled_points[q, c] == parent(q, c)))",
                    # rows visited: every coordinate untouched or moved, at least one moved
                    "forall(range(0, r), lambda q: " + _ROW_DONE.format(q="q") + ")"])
loop_invariant(K, 2, over="params_shocked", var="t", props=["C16"],
               inv=["sampled_points.shape[0] == batch_size and sampled_points.shape[1] == search_space.dims",
                    # the other rows are not touched by this row's shocks
                    "forall(range(0, batch_size), lambda q: implies(q != r, forall(range(0, search_space.dims), lambda c: "
                    "sampled_points[q, c] == entry(sampled_points)[q, c])))",
                    # this row: the coordinates drawn so far are moved, the others still the parent's
                    "forall(range(0, search_space.dims), lambda c: "
                    "implies(hint(c) and exists(range(0, t), lambda u: params_shocked[u] == c), "
                    "moved(sampled_points[r, c], parent(r, c), step(c), lo(c), hi(c))) and "
                    "implies(not exists(range(0, t), lambda u: params_shocked[u] == c), sampled_points[r, c] == parent(r, c)))"])

# ---- the constructor establishes the class invariant the contract above relies on (a, b > 0; range > 1) ----------------
contract(f"{BB}::BestBatchSampler.__init__",
         params={"batch_size": "int", "random_state": "opt[int]", "max_deduplication_passes": "int", "a": "real",
                 "b": "real", "perturbation_range": "int"},
         requires=["batch_size >= 1", "max_deduplication_passes >= 0"], props=["C16"],
         raises=[{"exc": "Exception", "when": "not (a > 0)"}, {"exc": "Exception", "when": "not (b > 0)"},
                 {"exc": "Exception", "when": "not (perturbation_range > 1)"}],
         ensures=["self.batch_size == batch_size", "self.max_deduplication_passes == max_deduplication_passes",
                  "self.a == a and self.b == b and self.perturbation_range == perturbation_range"],
         modifies=["self.*"])
