"""C17 - grid snapping returns a nearest grid element (black_it/utils/base.py)."""
from pyvc.api import contract, loop_invariant

U = "black_it/utils/base.py"

contract(f"{U}::get_closest",
         params={"sorted_array": "arr1[real]", "values": "arr1[real]"}, returns="arr1[real]", props=["C17", "C03"],
         requires=["len(sorted_array) >= 1",
                   "forall(lambda j, k: implies(0 <= j and j <= k and k < len(sorted_array), sorted_array[j] <= sorted_array[k]))"],
         ensures=[
             "len(result) == len(values)",
             # an exact element of the grid ...
             "forall(range(0, len(values)), lambda t: exists(range(0, len(sorted_array)), lambda k: result[t] == sorted_array[k]))",
             # ... at minimal distance over the WHOLE grid (ties: either neighbour is minimal)
             "forall(range(0, len(values)), lambda t: forall(range(0, len(sorted_array)), lambda j: "
             "abs(values[t] - result[t]) <= abs(values[t] - sorted_array[j])))",
         ],
         modifies=[],
         notes="Real arithmetic: minimality is proved for exact subtraction (IEEE: computed distances can tie within 1 ulp)")

_GRID_OK = ("forall(range(0, data.shape[1]), lambda c: len(param_grid[c]) >= 1 and forall(lambda j, k: "
            "implies(0 <= j and j <= k and k < len(param_grid[c]), param_grid[c][j] <= param_grid[c][k])))")

contract(f"{U}::digitize_data",
         params={"data": "arr2[real]", "param_grid": "seq[seq[real]]"}, returns="arr2[real]", props=["C17", "C03"],
         requires=["len(param_grid) >= data.shape[1]", _GRID_OK],
         ensures=[
             "result.shape[0] == data.shape[0] and result.shape[1] == data.shape[1]",
             # column c is snapped with column c's own grid: exact grid element ...
             "forall(range(0, data.shape[0]), lambda r: forall(range(0, data.shape[1]), lambda c: "
             "exists(range(0, len(param_grid[c])), lambda k: result[r, c] == param_grid[c][k])))",
             # ... at minimal distance
             "forall(range(0, data.shape[0]), lambda r: forall(range(0, data.shape[1]), lambda c: "
             "forall(range(0, len(param_grid[c])), lambda j: "
             "abs(data[r, c] - result[r, c]) <= abs(data[r, c] - param_grid[c][j]))))",
         ],
         modifies=[])

loop_invariant(f"{U}::digitize_data", 1, over="range(data.shape[1])",
               inv=["digitalized_data.shape[0] == data.shape[0] and digitalized_data.shape[1] == data.shape[1]",
                    "forall(range(0, data.shape[0]), lambda r: forall(range(0, k), lambda c: "
                    "exists(range(0, len(param_grid[c])), lambda q: digitalized_data[r, c] == param_grid[c][q])))",
                    "forall(range(0, data.shape[0]), lambda r: forall(range(0, k), lambda c: "
                    "forall(range(0, len(param_grid[c])), lambda j: "
                    "abs(data[r, c] - digitalized_data[r, c]) <= abs(data[r, c] - param_grid[c][j]))))"],
               props=["C17"])
