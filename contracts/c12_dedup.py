"""C12 - deduplication in BaseSampler.sample (black_it/samplers/base.py)."""
from pyvc.api import contract, ghost_var, klass, loop_invariant, stmt_contract

B = "black_it/samplers/base.py"

klass("SearchSpace", fields={"dims": "nat", "space_size": "nat"})

# ghost trace of the calls made by `sample`
ghost_var("ncalls", "int")          # number of sample_batch calls so far
ghost_var("asked", "list[int]")     # asked[n] = batch_size argument of the n-th call
ghost_var("draws", "arr3[real]")    # draws[n, j, c] = row j of the array returned by the n-th call
ghost_var("nfinds", "int")          # number of duplicate searches so far
ghost_var("found", "list[int]")     # found[n] = number of repeats reported by the n-th search
ghost_var("touched", "arr1[bool]")  # touched[p]: position p was reported as a repeat in some pass

# row p of `new` repeats a history row or another row of `new`
_ISDUP = ("(exists(range(0, new_points.shape[0]), lambda q: q != p and forall(range(0, new_points.shape[1]), "
          "lambda c: new_points[q, c] == new_points[p, c])) or exists(range(0, existing_points.shape[0]), lambda h: "
          "forall(range(0, new_points.shape[1]), lambda c: existing_points[h, c] == new_points[p, c])))")

# abstract generator: ANY implementation (scripted, random, stateful) - this is the quantifier over draws
contract(f"{B}::BaseSampler.sample_batch", abstract=True,
         params={"batch_size": "int", "search_space": "opaque:SearchSpace", "existing_points": "arr2[real]",
                 "existing_losses": "arr1[real]"},
         returns="arr2[real]", props=["C12", "C03"],
         ensures=["result.shape[0] == batch_size", "result.shape[1] == search_space.dims",
                  "ghost.ncalls == old(ghost.ncalls) + 1",
                  "ghost.asked[old(ghost.ncalls)] == batch_size",
                  "forall(range(0, old(ghost.ncalls)), lambda n: ghost.asked[n] == old(ghost.asked[n]))",
                  "forall(range(0, batch_size), lambda j: forall(range(0, result.shape[1]), lambda c: "
                  "ghost.draws[old(ghost.ncalls), j, c] == result[j, c]))",
                  "forall(lambda n, j, c: implies(n != old(ghost.ncalls), ghost.draws[n, j, c] == old(ghost.draws[n, j, c])))"],
         modifies=["ghost.ncalls", "ghost.asked[*]", "ghost.draws[*]"],
         notes="abstract callee: returns a FRESH (batch_size, dims) array, does not write the history; "
               "sampler-internal state other than batch_size / max_deduplication_passes is not constrained")

contract(f"{B}::BaseSampler.find_and_get_duplicates", trusted=True,
         params={"new_points": "arr2[real]", "existing_points": "arr2[real]"}, returns="list[int]",
         props=["C12"],
         defs={"isdup": (["p"], _ISDUP)},
         ensures=[
             "forall(range(0, len(result)), lambda j: 0 <= result[j] and result[j] < new_points.shape[0])",
             # exactly the repeated positions ...
             "forall(range(0, new_points.shape[0]), lambda p: exists(range(0, len(result)), lambda j: result[j] == p) == isdup(p))",
             # ... each once
             "forall(lambda i, j: implies(0 <= i and i < j and j < len(result), result[i] != result[j]))",
             "ghost.nfinds == old(ghost.nfinds) + 1", "ghost.found[old(ghost.nfinds)] == len(result)",
             "forall(range(0, old(ghost.nfinds)), lambda n: ghost.found[n] == old(ghost.found[n]))",
             "forall(range(0, new_points.shape[0]), lambda p: ghost.touched[p] == (old(ghost.touched[p]) or "
             "exists(range(0, len(result)), lambda j: result[j] == p)))",
         ],
         modifies=["ghost.nfinds", "ghost.found[*]", "ghost.touched[*]"],
         notes="ASSUMED contract (np.unique(axis=0)/argwhere pipeline is outside the verified subset); "
               "stand-in: bounded exhaustive check of the real function, see runtime/scopes")

_S = "samples"
contract(f"{B}::BaseSampler.sample",
         params={"search_space": "opaque:SearchSpace", "existing_points": "arr2[real]", "existing_losses": "arr1[real]"},
         returns="arr2[real]", props=["C12", "C03"],
         requires=["ghost.ncalls == 0", "ghost.nfinds == 0",
                   "forall(lambda p: not ghost.touched[p])", "ghost.touched.shape[0] >= self.batch_size",
                   "existing_points.shape[1] == search_space.dims", "self.batch_size >= 0"],
         defs={"isdup_res": (["p"], _ISDUP.replace("new_points", "result"))},
         ensures=[
             # shape preserved
             "result.shape[0] == self.batch_size and result.shape[1] == search_space.dims",
             # asked first for a full batch, then each time for exactly as many points as there were repeats (> 0)
             "ghost.ncalls >= 1 and ghost.asked[0] == self.batch_size",
             "forall(range(1, ghost.ncalls), lambda n: ghost.asked[n] == ghost.found[n - 1] and ghost.found[n - 1] > 0)",
             # at most max_deduplication_passes redraws
             "ghost.ncalls - 1 <= self.max_deduplication_passes",
             # gives up only after its passes: with budget left the batch has no repeat (history or in-batch)
             "implies(ghost.ncalls - 1 < self.max_deduplication_passes, "
             "forall(range(0, result.shape[0]), lambda p: not isdup_res(p)))",
             # points never reported as repeats are exactly the first draw
             "forall(range(0, result.shape[0]), lambda p: implies(not ghost.touched[p], "
             "forall(range(0, result.shape[1]), lambda c: result[p, c] == ghost.draws[0, p, c])))",
         ],
         modifies=["self.*"],
         notes="history arrays are in the frame check: sample() must not write existing_points / existing_losses")

loop_invariant(f"{B}::BaseSampler.sample", 1, over="range(self.max_deduplication_passes)", var="it",
               inv=["samples.shape[0] == self.batch_size and samples.shape[1] == search_space.dims",
                    "self.batch_size == old(self.batch_size) and self.max_deduplication_passes == old(self.max_deduplication_passes)",
                    "ghost.ncalls == it + 1 and ghost.nfinds == it",
                    "ghost.asked[0] == self.batch_size",
                    "forall(range(1, ghost.ncalls), lambda n: ghost.asked[n] == ghost.found[n - 1] and ghost.found[n - 1] > 0)",
                    "forall(range(0, samples.shape[0]), lambda p: implies(not ghost.touched[p], "
                    "forall(range(0, samples.shape[1]), lambda c: samples[p, c] == ghost.draws[0, p, c])))"],
               props=["C12"])

# substitution only: the j-th reported repeat receives row j of that pass's redraw, every other row is untouched
stmt_contract(f"{B}::BaseSampler.sample", match="samples[duplicates] = new_samples", label="substitution",
              ensures=[
                  "forall(range(0, len(duplicates)), lambda j: forall(range(0, samples.shape[1]), lambda c: "
                  "samples[duplicates[j], c] == new_samples[j, c]))",
                  "forall(range(0, samples.shape[0]), lambda p: implies(not exists(range(0, len(duplicates)), "
                  "lambda j: duplicates[j] == p), forall(range(0, samples.shape[1]), lambda c: "
                  "samples[p, c] == before(samples[p, c]))))",
                  "samples.shape[0] == before(samples.shape[0]) and samples.shape[1] == before(samples.shape[1])",
              ], props=["C12"])
