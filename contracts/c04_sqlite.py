"""C04 / C06 - the SQLite back-end (black_it/utils/sqlite3_checkpointing.py) under contract over the ghost database
(pyvc/lib_fs.py): committed state vs open transaction, every statement may fail."""
from pyvc.api import contract, disk_schema, ghost_function

SQ = "black_it/utils/sqlite3_checkpointing.py"

_COLS = {"parameters_bounds": "arr2[real]", "parameters_precision": "arr1[real]", "real_data": "arr2[real]",
         "ensemble_size": "int", "N": "int", "D": "int", "convergence_precision": "opt[int]", "verbose": "bool",
         "saving_folder": "opt[str]", "initial_random_seed": "opt[int]", "random_generator_state_json": "opaque:bytes",
         "model_name": "str", "scheduler_pickled": "opaque:bytes", "loss_function_pickled": "opaque:bytes",
         "current_batch_index": "int", "params_samp": "arr2[real]", "losses_samp": "arr1[real]",
         "series_samp": "arr4[real]", "batch_num_samp": "arr1[int]", "method_samp": "arr1[int]"}
disk_schema("checkpoint.sqlite", _COLS)

_PARAMS = {"checkpoint_path": "opaque", "parameters_bounds": "arr2[real]", "parameters_precision": "arr1[real]",
           "real_data": "arr2[real]", "ensemble_size": "int", "N": "int", "D": "int", "convergence_precision": "opt[int]",
           "verbose": "bool", "saving_file": "opt[str]", "initial_random_seed": "opt[int]",
           "random_generator_state": "opaque", "model_name": "str", "samplers": "opaque", "loss_function": "opaque:BaseLoss",
           "current_batch_index": "int", "params_samp": "arr2[real]", "losses_samp": "arr1[real]",
           "series_samp": "arr4[real]", "batch_num_samp": "arr1[int]", "method_samp": "arr1[int]"}

# column -> argument
_ARG = {c: c for c in _COLS}
_ARG.update({"saving_folder": "saving_file"})
_SCALAR = ["ensemble_size", "N", "D", "verbose", "model_name", "current_batch_index"]
_OPT = ["convergence_precision", "saving_folder", "initial_random_seed"]
_V1 = ["parameters_precision", "losses_samp", "batch_num_samp", "method_samp"]
_V2 = ["parameters_bounds", "real_data", "params_samp"]


def _eq(col, rhs, lhs=None):
    """equality of the stored column `col` (or the expression lhs) with the expression rhs, by kind"""
    L = lhs or f"disk_sql('{col}')"
    if col in _SCALAR:
        return [f"{L} == {rhs}"]
    if col in _OPT:
        return [f"({L} is None) == ({rhs} is None) and implies({rhs} is not None, {L} == {rhs})"]
    if col in _V1:
        return [f"len({L}) == len({rhs}) and forall(range(0, len({rhs})), lambda i: {L}[i] == {rhs}[i])"]
    if col in _V2:
        return [f"{L}.shape[0] == {rhs}.shape[0] and {L}.shape[1] == {rhs}.shape[1] and forall(range(0, {rhs}.shape[0]), "
                f"lambda r: forall(range(0, {rhs}.shape[1]), lambda c: {L}[r, c] == {rhs}[r, c]))"]
    if col == "series_samp":
        return [f"{L}.shape[0] == {rhs}.shape[0] and {L}.shape[1] == {rhs}.shape[1] and {L}.shape[2] == {rhs}.shape[2] and "
                f"{L}.shape[3] == {rhs}.shape[3] and forall(range(0, {rhs}.shape[0]), lambda i: forall(range(0, {rhs}.shape[1]), "
                f"lambda e: forall(range(0, {rhs}.shape[2]), lambda t: forall(range(0, {rhs}.shape[3]), lambda c: "
                f"{L}[i, e, t, c] == {rhs}[i, e, t, c]))))"]
    raise KeyError(col)


_PLAIN = _SCALAR + _OPT + _V1 + _V2 + ["series_samp"]
SQL_SAVE_ENSURES = (
    ["disk_sql_table() and disk_sql_nrows() == 1 and disk_sql_version() == 3 and not disk_sql_pending()"]
    + [c for col in _PLAIN for c in _eq(col, _ARG[col])]
    # the three encoded columns decode to the objects handed in
    + ["pickle.loads(disk_sql('scheduler_pickled')) is samplers",
       "pickle.loads(disk_sql('loss_function_pickled')) is loss_function",
       "json.loads(disk_sql('random_generator_state_json')) is random_generator_state"])

# C06 (SQLite clause): a FAILED save leaves the previous checkpoint in place - the committed row is untouched
_UNCHANGED = (["disk_sql_nrows() == old(disk_sql_nrows()) and not disk_sql_pending()"]
              + [c for col in _PLAIN for c in _eq(col, f"old(disk_sql('{col}'))")]
              + [f"disk_sql('{c}') is old(disk_sql('{c}'))" for c in
                 ("scheduler_pickled", "loss_function_pickled", "random_generator_state_json")])

contract(f"{SQ}::save_calibrator_state", params=_PARAMS, props=["C04", "C06"],
         may_raise=["OperationalError"],
         ensures=SQL_SAVE_ENSURES,
         # whatever statement fails (or the commit itself): the previous row survives, nothing is left pending
         exc_ensures=["implies(old(disk_sql_table()), " + " and ".join(f"({c})" for c in _UNCHANGED) + ")"],
         modifies=["ghost.disk"],
         notes="ghost database: committed state vs open transaction; every execute / executescript / commit may raise; "
               "the previous content of the table is unconstrained (any number of rows, any user_version)")

_RET = ("tuple[arr2[real],arr1[real],arr2[real],int,int,int,opt[int],bool,opt[str],opt[int],opaque,str,opaque,"
        "opaque:BaseLoss,int,arr2[real],arr1[real],arr4[real],arr1[int],arr1[int]]")
_POS = ["parameters_bounds", "parameters_precision", "real_data", "ensemble_size", "N", "D", "convergence_precision",
        "verbose", "saving_folder", "initial_random_seed", "random_generator_state_json", "model_name",
        "scheduler_pickled", "loss_function_pickled", "current_batch_index", "params_samp", "losses_samp",
        "series_samp", "batch_num_samp", "method_samp"]
SQL_LOAD_ENSURES = [c for i, col in enumerate(_POS) if col in _PLAIN for c in _eq(col, f"disk_sql('{col}')", f"result[{i}]")] + [
    "result[12] is pickle.loads(disk_sql('scheduler_pickled'))",
    "result[13] is pickle.loads(disk_sql('loss_function_pickled'))",
    "result[10] is json.loads(disk_sql('random_generator_state_json'))"]
contract(f"{SQ}::load_calibrator_state", params={"checkpoint_path": "opaque"}, returns=_RET, props=["C04", "C06"],
         requires=["disk_sql_table() and disk_sql_nrows() >= 1"],
         raises=[{"exc": "SchemaVersionMismatchError", "when": "disk_sql_version() != 3"}],
         may_raise=["OperationalError"],
         ensures=SQL_LOAD_ENSURES, modifies=[],
         notes="reads the COMMITTED row (a fresh connection); any statement may fail")

_A = [a for a in _PARAMS if a != "checkpoint_path"]
_RT = ghost_function(SQ, "def sqlite_roundtrip(checkpoint_path, " + ", ".join(_A) + "):\n"
                         "    save_calibrator_state(checkpoint_path, " + ", ".join(_A) + ")\n"
                         "    return load_calibrator_state(checkpoint_path)\n")
contract(_RT, params=_PARAMS, returns=_RET, props=["C04"], may_raise=["OperationalError", "SchemaVersionMismatchError"],
         ensures=[c for i, col in enumerate(_POS) if col in _PLAIN for c in _eq(col, _ARG[col], f"result[{i}]")]
         + ["result[12] is samplers", "result[13] is loss_function", "result[10] is random_generator_state"],
         modifies=["ghost.disk"],
         notes="theorem over the two proved contracts: what load returns after a successful save is what save was given, "
               "whatever the database held before")
