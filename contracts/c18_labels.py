"""C18 - sampler ids map back to names (id-table functions of the Calibrator)."""
from pyvc.api import contract, klass, loop_invariant

C = "black_it/calibrator.py"

_NAME = "type(samplers[j]).__name__"

contract(f"{C}::Calibrator._construct_samplers_id_table",
         params={"samplers": "seq[opaque:BaseSampler]"}, returns="dict[int]", props=["C18"],
         ensures=[
             # domain = the class names occurring in the list
             "forall(lambda a: (a in result) == exists(range(0, len(samplers)), lambda j: type(samplers[j]).__name__ == a))",
             # one id per class: injective
             "forall(lambda a, b: implies(a in result and b in result and result[a] == result[b], a == b))",
             "forall(lambda a: implies(a in result, result[a] >= 0))",
         ],
         modifies=[])

loop_invariant(f"{C}::Calibrator._construct_samplers_id_table", 1, over="samplers",
               inv=["sampler_id >= 0",
                    "forall(lambda a: (a in samplers_id_table) == exists(range(0, k), lambda j: type(samplers[j]).__name__ == a))",
                    "forall(lambda a: implies(a in samplers_id_table, 0 <= samplers_id_table[a] and samplers_id_table[a] < sampler_id))",
                    "forall(lambda a, b: implies(a in samplers_id_table and b in samplers_id_table and samplers_id_table[a] == samplers_id_table[b], a == b))"],
               props=["C18"])

klass("Calibrator", fields={"samplers_id_table": "dict[int]"})

contract(f"{C}::Calibrator.update_samplers_id_table",
         params={"samplers": "seq[opaque:BaseSampler]"}, props=["C18"],
         requires=["exists(lambda a: a in self.samplers_id_table)",
                   "forall(lambda a, b: implies(a in self.samplers_id_table and b in self.samplers_id_table and "
                   "self.samplers_id_table[a] == self.samplers_id_table[b], a == b))"],
         ensures=[
             # ids are never reassigned
             "forall(lambda a: implies(a in old(self.samplers_id_table), a in self.samplers_id_table and "
             "self.samplers_id_table[a] == old(self.samplers_id_table)[a]))",
             # every class of the new line-up has an id
             "forall(range(0, len(samplers)), lambda j: type(samplers[j]).__name__ in self.samplers_id_table)",
             # nothing else is added
             "forall(lambda a: implies(a in self.samplers_id_table, a in old(self.samplers_id_table) or "
             "exists(range(0, len(samplers)), lambda j: type(samplers[j]).__name__ == a)))",
             # still one id per class
             "forall(lambda a, b: implies(a in self.samplers_id_table and b in self.samplers_id_table and "
             "self.samplers_id_table[a] == self.samplers_id_table[b], a == b))",
         ],
         modifies=["self.samplers_id_table[*]"])

loop_invariant(f"{C}::Calibrator.update_samplers_id_table", 1, over="samplers",
               inv=["forall(lambda a: implies(a in old(self.samplers_id_table), a in self.samplers_id_table and "
                    "self.samplers_id_table[a] == old(self.samplers_id_table)[a]))",
                    "forall(lambda a: implies(a in self.samplers_id_table, self.samplers_id_table[a] < sampler_id))",
                    "forall(range(0, k), lambda j: type(samplers[j]).__name__ in self.samplers_id_table)",
                    "forall(lambda a: implies(a in self.samplers_id_table, a in old(self.samplers_id_table) or "
                    "exists(range(0, k), lambda j: type(samplers[j]).__name__ == a)))",
                    "forall(lambda a, b: implies(a in self.samplers_id_table and b in self.samplers_id_table and "
                    "self.samplers_id_table[a] == self.samplers_id_table[b], a == b))"],
               props=["C18"])

# ---- thin callers: replacing samplers / scheduler only ever EXTENDS the table ------------------------------------
_KEEP = ("forall(lambda a: implies(a in old(self.samplers_id_table), a in self.samplers_id_table and "
         "self.samplers_id_table[a] == old(self.samplers_id_table)[a]))")
_INJ = ("forall(lambda a, b: implies(a in self.samplers_id_table and b in self.samplers_id_table and "
        "self.samplers_id_table[a] == self.samplers_id_table[b], a == b))")
_NONEMPTY = "exists(lambda a: a in self.samplers_id_table)"

klass("BaseScheduler", fields={"_samplers": "seq[opaque:BaseSampler]"})
contract(f"{C}::Calibrator.set_samplers", params={"samplers": "seq[opaque:BaseSampler]"}, props=["C18"],
         self_type="Calibrator", requires=[_NONEMPTY, _INJ, "len(samplers) >= 1"],
         ensures=[_KEEP, _INJ,
                  "forall(range(0, len(samplers)), lambda j: type(samplers[j]).__name__ in self.samplers_id_table)"],
         modifies=["self.samplers_id_table[*]", "self.scheduler._samplers"],
         notes="self.scheduler is an opaque scheduler object: the store into its _samplers attribute is not modelled")

contract(f"{C}::Calibrator.set_scheduler", params={"scheduler": "opaque:BaseScheduler"}, props=["C18"],
         requires=[_NONEMPTY, _INJ],
         ensures=[_KEEP, _INJ, "self.scheduler is scheduler",
                  "forall(range(0, len(scheduler.samplers)), lambda j: type(scheduler.samplers[j]).__name__ in self.samplers_id_table)"],
         modifies=["self.samplers_id_table[*]", "self.scheduler"])

# ---- plotting utilities: the id table recovered from a checkpoint (over the ghost checkpoint folder) ----------------
PL = "black_it/plot/plot_results.py"
contract(f"{PL}::_get_samplers_id_table", params={"saving_folder": "opaque"}, returns="dict[int]", props=["C18"],
         requires=["disk_exists('scheduler_pickled.pickle')"],
         defs={"lineup": ([], "disk_pickle('scheduler_pickled.pickle').samplers")},
         ensures=[
             # the table recovered for plotting names exactly the classes of the line-up stored in the checkpoint ...
             "forall(lambda a: (a in result) == exists(range(0, len(lineup())), lambda j: type(lineup()[j]).__name__ == a))",
             # ... one id per class
             "forall(lambda a, b: implies(a in result and b in result and result[a] == result[b], a == b))",
         ], modifies=[],
         notes="recomputed from the line-up at save time, NOT the table the calibrator labelled the history with: known "
               "finding F-18b (ids of classes replaced earlier by set_samplers / set_scheduler are lost)")
