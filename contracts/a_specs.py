"""Spec functions shared by all contracts (pure, total)."""
from pyvc.api import spec

# generator model: see pyvc/lib.py (rng_*): uninterpreted functions of the generator state
spec("spec_seed_state", ["seed"], "__rng_seed(seed)")
spec("spec_next_state", ["s", "kind"], "__rng_next(s, kind)")
spec("spec_draw_int", ["s", "lo", "hi"], "__rng_int(s, lo, hi, 0)")
spec("spec_draw_real", ["s"], "__rng_real(s, 0)")
