"""Calibrator.calibrate and its callees: C02 (history), C09 (scheduling skeleton), C11 (failing batch), C14 (early stop),
C18 (labelling)."""
from pyvc.api import F, contract, ghost_var, klass, loop_invariant

C = "black_it/calibrator.py"
SB = "black_it/schedulers/base.py"
LB = "black_it/loss_functions/base.py"

ghost_var("open_sessions", "int")   # sessions started and not yet ended
ghost_var("conv_seen", "bool")      # some convergence check of this calibrate() call returned True
ghost_var("saved_index", "int")     # current_batch_index captured by the last checkpoint write
ghost_var("saved_n", "int")         # n_sampled_params captured by the last checkpoint write
ghost_var("sched_updates", "int")   # scheduler.update() calls so far: the version of the scheduler's (pickled) state
ghost_var("saved_sched_updates", "int")   # ... captured by the last checkpoint write

klass("BaseSampler", fields={"batch_size": "pos", "max_deduplication_passes": "nat"})
klass("BaseScheduler", fields={"_samplers": "seq[opaque:BaseSampler]"}, invariant=["len(self._samplers) >= 1"])
klass("BaseLoss", fields={})

_ALIGNED = [
    "self.n_sampled_params >= 0 and self.current_batch_index >= 0",
    "self.params_samp.shape[0] == self.n_sampled_params and self.losses_samp.shape[0] == self.n_sampled_params",
    "self.series_samp.shape[0] == self.n_sampled_params and self.batch_num_samp.shape[0] == self.n_sampled_params "
    "and self.method_samp.shape[0] == self.n_sampled_params",
    "self.params_samp.shape[1] == self.param_grid.dims",
    "self.series_samp.shape[1] == self.ensemble_size and self.series_samp.shape[2] == self.N and "
    "self.series_samp.shape[3] == self.D",
    # zero-based batch labels of completed batches only, non-decreasing
    "forall(range(0, self.n_sampled_params), lambda i: 0 <= self.batch_num_samp[i] and "
    "self.batch_num_samp[i] < self.current_batch_index)",
    "forall(lambda i, j: implies(0 <= i and i <= j and j < self.n_sampled_params, "
    "self.batch_num_samp[i] <= self.batch_num_samp[j]))",
    # every sampler the scheduler can designate has an id; ids identify classes
    "forall(range(0, len(self.scheduler.samplers)), lambda j: type(self.scheduler.samplers[j]).__name__ in self.samplers_id_table)",
    "forall(lambda a, b: implies(a in self.samplers_id_table and b in self.samplers_id_table and "
    "self.samplers_id_table[a] == self.samplers_id_table[b], a == b))",
    # the real data has one column per coordinate (set by the constructor: D = real_data.shape[1])
    "self.real_data.shape[1] == self.D",
    # every stored label is an id of the table
    "forall(range(0, self.n_sampled_params), lambda i: exists(lambda a: a in self.samplers_id_table and "
    "self.samplers_id_table[a] == self.method_samp[i]))",
]

klass("Calibrator",
      fields={"samplers_id_table": "dict[int]", "params_samp": "arr2[real]", "losses_samp": "arr1[real]",
              "series_samp": "arr4[real]", "batch_num_samp": "arr1[int]", "method_samp": "arr1[int]",
              "n_sampled_params": "int", "current_batch_index": "int", "scheduler": "opaque:BaseScheduler",
              "loss_function": "opaque:BaseLoss", "param_grid": "opaque:SearchSpace", "real_data": "arr2[real]",
              "ensemble_size": "pos", "N": "pos", "D": "pos", "verbose": "bool", "convergence_precision": "opt[int]",
              "saving_folder": "opt[str]", "model": "opaque", "n_jobs": "int"},
      invariant=_ALIGNED)

# ---- abstract collaborators --------------------------------------------------------------------------------
contract(f"{SB}::BaseScheduler.get_next_sampler", abstract=True, params={}, returns="opaque:BaseSampler",
         props=["C02", "C09"],
         ensures=["exists(range(0, len(self.samplers)), lambda j: result is self.samplers[j])"],
         modifies=[],
         notes="abstract scheduler: designates one of ITS samplers (proved for RoundRobinScheduler; RL: see C09/C10)")
contract(f"{SB}::BaseScheduler.update", abstract=True,
         params={"batch_id": "int", "new_params": "any", "new_losses": "any", "new_simulated_data": "any"},
         props=["C02", "C09"], ensures=[], ghost_ensures=["ghost.sched_updates == old(ghost.sched_updates) + 1"],
         modifies=["ghost.sched_updates"],
         notes="abstract scheduler update: does not write the calibrator or the arrays it is shown; it moves the "
               "scheduler's own state to its next version (ghost counter)")
contract(f"{SB}::BaseScheduler.session", is_cm=True, params={}, props=["C11", "C02"],
         may_raise=["BodyException"],
         ensures=["ghost.open_sessions == old(ghost.open_sessions) + 1"],
         modifies=["ghost.open_sessions"],
         # on EVERY exit of the with-body (normal or exceptional) the session is ended
         exit_ensures=["ghost.open_sessions == old(ghost.open_sessions)"],
         exit_modifies=["ghost.open_sessions"])
# (check_overrides: a scheduler that overrides these without an own contract is verified against this one - its frame
#  says that starting / ending a session does not move the scheduler's position, C09 "counted over its whole life")
contract(f"{SB}::BaseScheduler.start_session", params={}, props=["C11", "C09"], abstract=True, check_overrides=True,
         ghost_ensures=["ghost.open_sessions == old(ghost.open_sessions) + 1"], modifies=["ghost.open_sessions"])
contract(f"{SB}::BaseScheduler.end_session", params={}, props=["C11", "C09"], abstract=True, check_overrides=True,
         ghost_ensures=["ghost.open_sessions == old(ghost.open_sessions) - 1"], modifies=["ghost.open_sessions"])

# BaseSampler.sample is proved in c12_dedup.py; here it may additionally raise (C11)
# ---- Calibrator methods ------------------------------------------------------------------------------------
# simulate_model: row i, member e of the result is the user's model run on EXACTLY the vector params[i], with the
# configured simulation length, and with the (i*E + e)-th seed drawn - in order, in the parent - from the calibrator's
# generator.  The model is an uninterpreted pure function `mout` of (model object, parameter vector by value, N, seed).
_SEED = "spec_draw_int(rng_iter(old(self.random_generator.state), {k}), 0, 2**32 - 1)"
klass("Calibrator", fields={"model": "opaque:UserModel"})
contract(f"{C}::Calibrator.simulate_model", params={"params": "arr2[real]"}, returns="arr4[real]",
         # ValueError exactly when some run of the model does not return an (N, D) array (np.array / np.reshape refuse)
         # (run q = i*E + e of the model is member e of row i: q // E == i)
         defs={"admissible": ([], "forall(range(0, params.shape[0] * self.ensemble_size), lambda q: "
                                  "mout_rows(self.model, params[ediv(q, self.ensemble_size)], self.N, " + _SEED.format(k="q") + ") == self.N and "
                                  "mout_cols(self.model, params[ediv(q, self.ensemble_size)], self.N, " + _SEED.format(k="q") + ") == self.D)")},
         raises=[{"exc": "ValueError", "when": "not admissible()"}],
         may_raise=["Exception"], props=["C02", "C11", "C01"],
         ensures=["result.shape[0] == params.shape[0] and result.shape[1] == self.ensemble_size and "
                  "result.shape[2] == self.N and result.shape[3] == self.D",
                  F("rows", "forall(range(0, params.shape[0]), lambda i: forall(range(0, self.ensemble_size), lambda e: "
                  "forall(range(0, self.N), lambda t: forall(range(0, self.D), lambda c: "
                  "result[i, e, t, c] == mout(self.model, params[i], self.N, "
                  + _SEED.format(k="i * self.ensemble_size + e") + ", t, c)))))"),
                  "self.random_generator.state == rng_iter(old(self.random_generator.state), "
                  "params.shape[0] * self.ensemble_size)"],
         modifies=["self.random_generator.state"],
         notes="joblib.Parallel / delayed are assumed to return the results in order with the arguments evaluated in the "
               "parent in order; the user model is assumed to be a pure function of its three arguments; a model that "
               "returns arrays of another shape than (N, D) makes np.array / np.reshape raise ValueError")
loop_invariant(f"{C}::Calibrator.simulate_model", "comp1", over="enumerate(rep_params)", var="k",
               locals={"_comp1": "arr2[real]"},
               inv=["len(_comp1) == k",
                    "self.random_generator.state == rng_iter(old(self.random_generator.state), k)",
                    F("rows", "forall(range(0, k), lambda q: forall(range(0, _comp1[q].shape[0]), lambda t: "
                    "forall(range(0, _comp1[q].shape[1]), lambda c: _comp1[q][t, c] == "
                    "mout(self.model, rep_params[q], self.N, " + _SEED.format(k="q") + ", t, c))))"),
                    "forall(range(0, k), lambda q: _comp1[q].shape[0] == mout_rows(self.model, rep_params[q], self.N, "
                    + _SEED.format(k="q") + ") and _comp1[q].shape[1] == mout_cols(self.model, rep_params[q], self.N, "
                    + _SEED.format(k="q") + "))"],
               props=["C02"])

contract(f"{C}::Calibrator._set_samplers_seeds", params={}, props=["C02", "C01"],
         # the scheduler is seeded with the calibrator's own seed; nothing else of the calibrator is touched
         ensures=["self.scheduler.random_state == self.random_state"],
         modifies=["self.random_generator.state", "self.scheduler.random_state"])
loop_invariant(f"{C}::Calibrator._set_samplers_seeds", 1, over="self.scheduler.samplers", var="k",
               inv=["self.scheduler.random_state == self.random_state"], props=["C02", "C01"])

contract(f"{C}::Calibrator.check_convergence",
         params={"losses_samp": "arr1[real]", "n_sampled_params": "int", "convergence_precision": "int"},
         returns="bool", props=["C14"],
         requires=["1 <= n_sampled_params and n_sampled_params <= len(losses_samp)"],
         # "the smallest loss found so far rounds to zero at p decimals"
         ensures=["forall(range(0, n_sampled_params), lambda i: implies(forall(range(0, n_sampled_params), lambda j: "
                  "losses_samp[i] <= losses_samp[j]), result == (np_round(losses_samp[i], convergence_precision) == 0)))"],
         ghost_ensures=["ghost.conv_seen == (old(ghost.conv_seen) or result)"],
         modifies=["ghost.conv_seen"])

# Calibrator.create_checkpoint: contract in c04_checkpoint.py (verified against save_calibrator_state's contract)

_M = "self.current_batch_index - old(self.current_batch_index)"
# "the smallest loss found so far rounds to zero at p decimals" / its negation, over the WHOLE recorded history
_MINIMAL = "forall(range(0, self.n_sampled_params), lambda j: self.losses_samp[i] <= self.losses_samp[j])"
_CONV = (f"forall(range(0, self.n_sampled_params), lambda i: implies({_MINIMAL}, "
         "np_round(self.losses_samp[i], self.convergence_precision) == 0))")
_NOTCONV = (f"forall(range(0, self.n_sampled_params), lambda i: implies({_MINIMAL}, "
            "np_round(self.losses_samp[i], self.convergence_precision) != 0))")
contract(f"{C}::Calibrator.calibrate", params={"n_batches": "int"}, returns="tuple[arr2[real],arr1[real]]",
         props=["C02", "C04", "C09", "C11", "C14", "C18"],
         requires=["n_batches >= 0", "ghost.open_sessions == 0", "not ghost.conv_seen"],
         may_raise=["Exception"],
         # C11: whatever escapes calibrate() comes out of the model, the loss, a sampler or the scheduler - calibrate itself
         # raises nothing, in ANY state satisfying the class invariant (so a later call on the same object works)
         no_own_raise=True,
         ensures=[
             # --- C14
             f"{_M} <= n_batches",
             f"implies(self.convergence_precision is None, {_M} == n_batches)",
             f"implies({_M} < n_batches, ghost.conv_seen)",
             # stops early only at a batch after which the smallest recorded loss rounds to zero ...
             f"implies({_M} < n_batches, self.convergence_precision is not None and {_CONV})",
             # (... and "immediately, not before": loop invariant `not converged at any earlier batch`, below - and, as
             #  a post-condition that the replay on the real code can evaluate: when this call ran two batches or more,
             #  the history as it stood BEFORE the last batch had not converged)
             f"implies(self.convergence_precision is not None and {_M} >= 2, "
             "forall(range(0, self.n_sampled_params), lambda i: implies(self.batch_num_samp[i] < self.current_batch_index - 1 and "
             "forall(range(0, self.n_sampled_params), lambda j: implies(self.batch_num_samp[j] < self.current_batch_index - 1, "
             "self.losses_samp[i] <= self.losses_samp[j])), np_round(self.losses_samp[i], self.convergence_precision) != 0)))",
             # the triggering batch is in the checkpoint: the last checkpoint write saw the final counters
             f"implies(self.saving_folder is not None and {_M} >= 1, ghost.saved_index == self.current_batch_index "
             "and ghost.saved_n == self.n_sampled_params)",
             # C04 / C09: ... and the scheduler AS UPDATED by that batch (a pickle written before scheduler.update()
             # resumes one batch behind)
             f"implies(self.saving_folder is not None and {_M} >= 1, ghost.saved_sched_updates == ghost.sched_updates)",
             # --- C11 / sessions
             "ghost.open_sessions == 0",
             # --- C02: rows once recorded never change
             "forall(range(0, old(self.n_sampled_params)), lambda i: self.losses_samp[i] == old(self.losses_samp[i]) "
             "and self.batch_num_samp[i] == old(self.batch_num_samp[i]) and self.method_samp[i] == old(self.method_samp[i]) "
             "and forall(range(0, self.params_samp.shape[1]), lambda c: self.params_samp[i, c] == old(self.params_samp[i, c])))",
             "self.n_sampled_params >= old(self.n_sampled_params)",
             # --- C02: returns precisely the recorded (parameter, loss) pairs ordered by increasing loss
             "result[1].shape[0] == self.n_sampled_params and result[0].shape[0] == self.n_sampled_params",
             "forall(lambda i, j: implies(0 <= i and i <= j and j < self.n_sampled_params, result[1][i] <= result[1][j]))",
             "forall(range(0, self.n_sampled_params), lambda i: exists(range(0, self.n_sampled_params), lambda h: "
             "result[1][i] == self.losses_samp[h] and forall(range(0, self.params_samp.shape[1]), lambda c: "
             "result[0][i, c] == self.params_samp[h, c])))",
             "forall(range(0, self.n_sampled_params), lambda h: hint(h) and exists(range(0, self.n_sampled_params), lambda i: "
             "result[1][i] == self.losses_samp[h] and forall(range(0, self.params_samp.shape[1]), lambda c: "
             "result[0][i, c] == self.params_samp[h, c])))",
         ],
         # C11: whatever escapes, the history is aligned (class invariant) and equal to the completed batches,
         # and no session is left open
         exc_ensures=["ghost.open_sessions == 0"],
         modifies=["self.params_samp", "self.losses_samp", "self.series_samp", "self.batch_num_samp",
                   "self.method_samp", "self.n_sampled_params", "self.current_batch_index",
                   "self.random_generator.state", "ghost.open_sessions", "ghost.conv_seen", "ghost.saved_index",
                   "ghost.saved_n", "ghost.sched_updates", "ghost.saved_sched_updates"])

loop_invariant(f"{C}::Calibrator.calibrate", 1, over="range(n_batches)", var="b",
               inv=_ALIGNED + [
                   "self.current_batch_index == old(self.current_batch_index) + b",
                   "ghost.open_sessions == 1",
                   "not ghost.conv_seen",
                   # C14 "immediately": a further batch is started only if the history so far has NOT converged
                   f"implies(self.convergence_precision is not None and b >= 1, {_NOTCONV})",
                   # (the same fact one batch back - it is what the post-condition "not before" states about the last batch)
                   "implies(self.convergence_precision is not None and b >= 2, "
                   "forall(range(0, self.n_sampled_params), lambda i: implies(self.batch_num_samp[i] < self.current_batch_index - 1 and "
                   "forall(range(0, self.n_sampled_params), lambda j: implies(self.batch_num_samp[j] < self.current_batch_index - 1, "
                   "self.losses_samp[i] <= self.losses_samp[j])), np_round(self.losses_samp[i], self.convergence_precision) != 0)))",
                   "implies(self.saving_folder is not None and b >= 1, ghost.saved_index == self.current_batch_index "
                   "and ghost.saved_n == self.n_sampled_params)",
                   "implies(self.saving_folder is not None and b >= 1, ghost.saved_sched_updates == ghost.sched_updates)",
                   "self.n_sampled_params >= old(self.n_sampled_params)",
                   "forall(range(0, old(self.n_sampled_params)), lambda i: self.losses_samp[i] == old(self.losses_samp[i]) "
                   "and self.batch_num_samp[i] == old(self.batch_num_samp[i]) and self.method_samp[i] == old(self.method_samp[i]) "
                   "and forall(range(0, self.params_samp.shape[1]), lambda c: self.params_samp[i, c] == old(self.params_samp[i, c])))",
                   # configuration is not touched
                   "self.ensemble_size == old(self.ensemble_size) and self.N == old(self.N) and self.D == old(self.D) "
                   "and self.verbose == old(self.verbose) and self.scheduler is old(self.scheduler) "
                   "and self.param_grid is old(self.param_grid) and self.loss_function is old(self.loss_function)",
                   "self.convergence_precision == old(self.convergence_precision) and self.saving_folder == old(self.saving_folder)",
               ],
               props=["C02", "C14", "C11"])

loop_invariant(f"{C}::Calibrator.calibrate", 2, over="new_simulated_data", var="q", locals={"new_losses": "real"},
               inv=["len(new_losses) == q",
                    # the q-th loss is the loss of exactly the q-th block of series against the real data
                    F("rows", "forall(range(0, q), lambda r: new_losses[r] == closs(self.loss_function, new_simulated_data[r], self.real_data))")],
               props=["C02"])

from pyvc.api import stmt_contract  # noqa: E402

# C14: the convergence test is applied to ALL recorded losses, after the batch has been recorded
stmt_contract(f"{C}::Calibrator.calibrate",
              match="converged = self.check_convergence(self.losses_samp, self.n_sampled_params, self.convergence_precision)",
              label="convergence-over-whole-history",
              ensures=["self.n_sampled_params == self.losses_samp.shape[0]",
                       "forall(range(0, self.n_sampled_params), lambda i: implies(forall(range(0, self.n_sampled_params), "
                       "lambda j: self.losses_samp[i] <= self.losses_samp[j]), "
                       "converged == (np_round(self.losses_samp[i], self.convergence_precision) == 0)))"],
              props=["C14"])

# C02 "row i holds ...": at the moment a batch is recorded, its rows are exactly the proposed vectors, the series the
# model returned for exactly those vectors (simulate_model's contract), the loss of exactly those series, the index of
# the batch and the id of the designated sampler.  (Rows once recorded never change: loop invariant above.)
_N0 = "before(self.n_sampled_params)"
stmt_contract(f"{C}::Calibrator.calibrate",
              match="new_simulated_data = self.simulate_model(new_params)", label="series-of-exactly-the-proposed-vectors",
              facet="rows",
              ensures=["forall(range(0, new_params.shape[0]), lambda i: forall(range(0, self.ensemble_size), lambda e: "
                       "forall(range(0, self.N), lambda t: forall(range(0, self.D), lambda c: "
                       "new_simulated_data[i, e, t, c] == mout(self.model, new_params[i], self.N, "
                       "spec_draw_int(rng_iter(before(self.random_generator.state), i * self.ensemble_size + e), 0, 2**32 - 1), t, c)))))"],
              props=["C02"])
stmt_contract(f"{C}::Calibrator.calibrate",
              match="self.n_sampled_params = self.n_sampled_params + len(new_params)", label="recorded-rows-are-this-batch",
              facet="rows",
              ensures=[
                  f"forall(range(0, new_params.shape[0]), lambda i: forall(range(0, new_params.shape[1]), lambda d: "
                  f"self.params_samp[{_N0} + i, d] == new_params[i, d]))",
                  f"forall(range(0, new_params.shape[0]), lambda i: forall(range(0, self.ensemble_size), lambda e: "
                  f"forall(range(0, self.N), lambda t: forall(range(0, self.D), lambda c: "
                  f"self.series_samp[{_N0} + i, e, t, c] == new_simulated_data[i, e, t, c]))))",
                  f"forall(range(0, new_params.shape[0]), lambda i: self.losses_samp[{_N0} + i] == "
                  f"closs(self.loss_function, new_simulated_data[i], self.real_data))",
                  f"forall(range(0, new_params.shape[0]), lambda i: self.batch_num_samp[{_N0} + i] == self.current_batch_index "
                  f"and self.method_samp[{_N0} + i] == self.samplers_id_table[type(method).__name__])",
              ], props=["C02", "C18"])

# ---- constructor: establishes the history invariant --------------------------------------------------------------
contract(f"{C}::Calibrator._validate_convergence_precision", params={"convergence_precision": "int"}, returns="int",
         raises=[{"exc": "ValueError", "when": "not (convergence_precision >= 0)"}],
         ensures=["result == convergence_precision"], modifies=[], props=["C02", "C14"])

contract(f"{C}::Calibrator.__init__",
         params={"loss_function": "opaque:BaseLoss", "real_data": "arr2[real]", "model": "opaque",
                 "parameters_bounds": "seq[seq[real]]", "parameters_precision": "seq[real]", "ensemble_size": "int",
                 "samplers": "opt[seq[opaque:BaseSampler]]", "scheduler": "opt[opaque:BaseScheduler]",
                 "sim_length": "opt[int]", "convergence_precision": "opt[int]", "verbose": "bool",
                 "saving_folder": "opt[str]", "random_state": "opt[int]", "n_jobs": "opt[int]"},
         requires=["ensemble_size >= 1", "real_data.shape[0] >= 1 and real_data.shape[1] >= 1",
                   "implies(sim_length is not None, sim_length >= 1)",
                   "implies(samplers is not None, len(samplers) >= 1)",
                   "implies(scheduler is not None, len(scheduler.samplers) >= 1)"],
         may_raise=["SearchSpaceError", "ValueError"], props=["C02", "C18", "C09"],
         # (the class invariant - aligned empty history, table covering the scheduler's samplers - is an obligation
         #  at every normal exit of the constructor)
         ensures=["self.n_sampled_params == 0 and self.current_batch_index == 0",
                  "self.ensemble_size == ensemble_size and self.verbose == verbose",
                  "implies(sim_length is None, self.N == real_data.shape[0])",
                  "implies(sim_length is not None, self.N == sim_length)", "self.D == real_data.shape[1]",
                  "implies(scheduler is not None and samplers is None, self.scheduler is scheduler)",
                  # configuration is stored as given (C04: what restore_from_checkpoint rebuilds)
                  "self.loss_function is loss_function and self.model is model",
                  "implies(n_jobs is not None, self.n_jobs == n_jobs)",
                  "(self.convergence_precision is None) == (convergence_precision is None) and "
                  "implies(convergence_precision is not None, self.convergence_precision == convergence_precision)",
                  "(self.saving_folder is None) == (saving_folder is None) and "
                  "implies(saving_folder is not None, self.saving_folder == saving_folder)",
                  "(self.random_state is None) == (random_state is None) and "
                  "implies(random_state is not None, self.random_state == random_state)",
                  "self.real_data.shape[0] == real_data.shape[0] and self.real_data.shape[1] == real_data.shape[1] and "
                  "forall(range(0, real_data.shape[0]), lambda r: forall(range(0, real_data.shape[1]), lambda c: "
                  "self.real_data[r, c] == real_data[r, c]))",
                  "len(self.param_grid.parameters_precision) == len(parameters_precision) and "
                  "forall(range(0, len(parameters_precision)), lambda c: self.param_grid.parameters_precision[c] == parameters_precision[c])",
                  "len(parameters_bounds) == 2 and self.param_grid.parameters_bounds.shape[0] == len(parameters_bounds) and "
                  "self.param_grid.parameters_bounds.shape[1] == len(parameters_bounds[0]) and "
                  "forall(range(0, len(parameters_bounds)), lambda r: forall(range(0, len(parameters_bounds[r])), lambda c: "
                  "self.param_grid.parameters_bounds[r, c] == parameters_bounds[r][c]))"],
         modifies=["self.*"])
