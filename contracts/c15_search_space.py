"""C15 - search-space validation and discretisation (contracts for black_it/search_space.py)."""
from pyvc.api import contract, klass, loop_invariant

F = "black_it/search_space.py"

# ---- exception payloads -------------------------------------------------------------------------
_EXC = {
    "BoundsNotOfSizeTwoError": {"count_bounds_subarrays": "int"},
    "BoundsOfDifferentLengthError": {"lower_bounds_length": "int", "upper_bounds_length": "int"},
    "BadPrecisionLengthError": {"precisions_length": "int", "bounds_length": "int"},
    "SameLowerAndUpperBoundError": {"param_index": "int", "bound_value": "real"},
    "LowerBoundGreaterThanUpperBoundError": {"param_index": "int", "lower_bound": "real", "upper_bound": "real"},
    "PrecisionZeroError": {"param_index": "int"},
    "PrecisionGreaterThanBoundsRangeError": {"param_index": "int", "lower_bound": "real", "upper_bound": "real",
                                             "precision": "real"},
}
for _cls, _fields in _EXC.items():
    klass(_cls, fields=_fields)
    contract(f"{F}::{_cls}.__init__", params=dict(_fields), props=["C15"],
             ensures=[f"self.{f} == {f}" for f in _fields],
             modifies=[f"self.{f}" for f in _fields],
             notes="payload fields carry the constructor arguments (message text is dropped: f-string)")

# ---- ordered validation -------------------------------------------------------------------------
_DEFS = {
    "n": ([], "len(parameters_precision)"),
    "lb": (["i"], "parameters_bounds[0][i]"),
    "ub": (["i"], "parameters_bounds[1][i]"),
    "pr": (["i"], "parameters_precision[i]"),
    "defect": (["i"], "lb(i) == ub(i) or lb(i) > ub(i) or pr(i) == 0 or pr(i) > ub(i) - lb(i)"),
    # i is the smallest index carrying any of the four per-parameter defects
    "first": (["i"], "0 <= i and i < n() and defect(i) and forall(range(0, i), lambda j: not defect(j))"),
}

contract(
    f"{F}::SearchSpace._check_bounds",
    params={"parameters_bounds": "seq[seq[real]]", "parameters_precision": "seq[real]"},
    defs=_DEFS,
    props=["C15"],
    # documented order (SearchSpace.__init__ docstring): size-two, equal lengths, precision length, then per
    # parameter (smallest index first): same, inverted, zero precision, precision > range.
    raises=[
        {"exc": "BoundsNotOfSizeTwoError", "when": "len(parameters_bounds) != 2",
         "ensures": ["exc.count_bounds_subarrays == len(parameters_bounds)"]},
        {"exc": "BoundsOfDifferentLengthError", "when": "len(parameters_bounds[0]) != len(parameters_bounds[1])",
         "ensures": ["exc.lower_bounds_length == len(parameters_bounds[0])",
                     "exc.upper_bounds_length == len(parameters_bounds[1])"]},
        {"exc": "BadPrecisionLengthError", "when": "len(parameters_precision) != len(parameters_bounds[0])",
         "ensures": ["exc.precisions_length == len(parameters_precision)",
                     "exc.bounds_length == len(parameters_bounds[0])"]},
        {"exc": "SameLowerAndUpperBoundError",
         "when": "exists(range(0, n()), lambda i: first(i) and lb(i) == ub(i))",
         "ensures": ["first(exc.param_index)", "exc.bound_value == lb(exc.param_index)",
                     "lb(exc.param_index) == ub(exc.param_index)"]},
        {"exc": "LowerBoundGreaterThanUpperBoundError",
         "when": "exists(range(0, n()), lambda i: first(i) and lb(i) > ub(i))",
         "ensures": ["first(exc.param_index)", "exc.lower_bound == lb(exc.param_index)",
                     "exc.upper_bound == ub(exc.param_index)"]},
        {"exc": "PrecisionZeroError",
         "when": "exists(range(0, n()), lambda i: first(i) and lb(i) < ub(i) and pr(i) == 0)",
         "ensures": ["first(exc.param_index)", "pr(exc.param_index) == 0"]},
        {"exc": "PrecisionGreaterThanBoundsRangeError",
         "when": "exists(range(0, n()), lambda i: first(i) and lb(i) < ub(i) and pr(i) != 0 and pr(i) > ub(i) - lb(i))",
         "ensures": ["first(exc.param_index)", "exc.lower_bound == lb(exc.param_index)",
                     "exc.upper_bound == ub(exc.param_index)", "exc.precision == pr(exc.param_index)"]},
    ],
    ensures=["forall(range(0, n()), lambda i: not defect(i))"],
    modifies=[],
)

loop_invariant(
    f"{F}::SearchSpace._check_bounds", 1,
    over="enumerate(zip(parameters_bounds[0], parameters_bounds[1], parameters_precision))",
    inv=["forall(range(0, k), lambda j: not defect(j))",
         "len(parameters_bounds) == 2 and len(parameters_bounds[0]) == n() and len(parameters_bounds[1]) == n()"],
    props=["C15"],
)

# ---- discretisation -----------------------------------------------------------------------------------------------
klass("SearchSpace", fields={"_parameters_bounds": "arr2[real]", "_parameters_precision": "arr1[real]",
                             "_param_grid": "list[seq[real]]", "_space_size": "int"})

_GDEFS = dict(_DEFS)
_GDEFS.update({"glen": (["i"], "arange_len(lb(i), ub(i) + 0.0000001, pr(i))"),
               "grid": (["i"], "self._param_grid[i]")})

contract(
    f"{F}::SearchSpace.__init__",
    params={"parameters_bounds": "seq[seq[real]]", "parameters_precision": "seq[real]", "verbose": "bool"},
    defs=_GDEFS, props=["C15", "C03"],
    may_raise=["SearchSpaceError"],
    ensures=[
        "self.dims == n() and len(self._param_grid) == n()",
        # per parameter: the evenly spaced grid lower, lower + precision, ... (Real arithmetic)
        "forall(range(0, n()), lambda i: len(grid(i)) == glen(i) and forall(range(0, glen(i)), lambda k: "
        "grid(i)[k] == lb(i) + k * pr(i)))",
        # well-formed (positive precision): it starts at the lower bound, is strictly increasing, and ends at the LAST
        # step not beyond the upper bound (+1e-7 tolerance): the last element is below upper+1e-7, one more step is not
        "forall(range(0, n()), lambda i: implies(pr(i) > 0, len(grid(i)) >= 1 and grid(i)[0] == lb(i) and "
        "grid(i)[len(grid(i)) - 1] < ub(i) + 0.0000001 and grid(i)[len(grid(i)) - 1] + pr(i) >= ub(i) + 0.0000001))",
        "forall(range(0, n()), lambda i: implies(pr(i) > 0, forall(lambda j, k: implies(0 <= j and j < k and "
        "k < len(grid(i)), grid(i)[j] < grid(i)[k]))))",
        # the reported size is the product of the grid lengths
        "self.space_size == fprod(lambda j: arange_len(lb(j), ub(j) + 0.0000001, pr(j)), n())",
        # the specification itself is kept as given
        "len(self.parameters_precision) == len(parameters_precision) and forall(range(0, len(parameters_precision)), "
        "lambda c: self.parameters_precision[c] == parameters_precision[c])",
        "len(parameters_bounds) == 2 and self.parameters_bounds.shape[0] == len(parameters_bounds) and self.parameters_bounds.shape[1] == len(parameters_bounds[0]) and forall(range(0, len(parameters_bounds)), lambda r: "
        "forall(range(0, len(parameters_bounds[r])), lambda c: self.parameters_bounds[r, c] == parameters_bounds[r][c]))",
    ],
    modifies=["self.*"],
    notes="np.arange is an assumed contract in REAL arithmetic: NumPy computes the length as ceil((stop-start)/step) in "
          "floating point, so for ranges that are a multiple of the precision only in decimal (0.3/0.1) the real grid can "
          "differ by one point - decided by the bounded stand-in C15/grid. A negative precision passes validation and "
          "yields an empty grid (observation, outside the enumerated malformed classes).")

loop_invariant(f"{F}::SearchSpace.__init__", 1, over="range(self.dims)", var="col",
               inv=["len(self._param_grid) == col and len(parameters_precision) == n() and self.dims == n()",
                    "len(parameters_bounds) == 2 and len(parameters_bounds[0]) == n() and len(parameters_bounds[1]) == n()",
                    "forall(range(0, n()), lambda i: not defect(i))",
                    "forall(range(0, col), lambda i: len(grid(i)) == glen(i) and forall(range(0, glen(i)), lambda k: "
                    "grid(i)[k] == lb(i) + k * pr(i)))",
                    "self._space_size == fprod(lambda j: arange_len(lb(j), ub(j) + 0.0000001, pr(j)), col)"],
               props=["C15"])
