"""C10 / C09 (RL clause) / C11 - per-thread (sequential) contracts of the RL scheduler - agent exchange.

Each function is verified as ONE thread sees it: queue operations are ghost-counted, what the other thread does is
not visible (interleavings: bounded stand-in C10/interleavings)."""
from pyvc.api import contract, ghost_var, klass, loop_invariant

RL = "black_it/schedulers/rl/rl_scheduler.py"
EB = "black_it/schedulers/rl/envs/base.py"
AB = "black_it/schedulers/rl/agents/base.py"

for g in ("actions_put", "actions_got", "outcomes_put", "outcomes_got", "actions_pending", "outcomes_pending",
          "live_threads", "n_samplers", "learn_calls", "steps_executed", "last_action_put", "last_action_got",
          "last_step_action"):
    ghost_var(g, "int")
for g in ("outcomes_last_put_is_none", "actions_last_put_is_none", "last_outcome_is_marker", "last_step_truncated"):
    ghost_var(g, "bool")
ghost_var("last_step_reward", "real")
ghost_var("last_reward", "real")

klass("CalibrationEnv", fields={"_nb_samplers": "int", "_curr_best_loss": "opt[real]", "_out_queue": "opaque:QueueActions",
                                "_in_queue": "opaque:QueueOutcomes", "action_space": "opaque:Discrete"})
klass("Agent", fields={})
klass("RLScheduler",
      fields={"_env": "obj:CalibrationEnv", "_agent": "opaque:Agent", "_in_queue": "opaque:QueueActions",
              "_out_queue": "opaque:QueueOutcomes", "_best_param": "opt[any]", "_best_loss": "opt[real]",
              "_agent_thread": "opt[opaque:Thread]", "_stopped": "bool", "_halton_sampler_id": "int",
              "_samplers": "seq[opaque:BaseSampler]"},
      invariant=["0 <= self._halton_sampler_id and self._halton_sampler_id < len(self._samplers)",
                 # the designated bootstrap sampler is history-free: a Halton sampler (established by the constructor)
                 "type(self._samplers[self._halton_sampler_id]).__name__ == 'HaltonSampler'"],
      ghost_link=["ghost.n_samplers == len(self._samplers)"])

# ---- environment (agent thread side) -------------------------------------------------------------------------
contract(f"{EB}::CalibrationEnv.reset_state", abstract=True, params={}, returns="any", ensures=[], modifies=[], props=["C10"])
contract(f"{EB}::CalibrationEnv.get_next_observation", abstract=True, params={}, returns="any", ensures=[], modifies=[],
         props=["C10"])
contract(f"{EB}::CalibrationEnv.get_reward", abstract=True, params={"best_param": "any", "best_loss": "real"},
         returns="real", may_raise=["ValueError"], ensures=[], ghost_ensures=["ghost.last_reward == result"],
         modifies=["self._curr_best_loss"], props=["C10"],
         notes="abstract reward (the bandit reward is proved in C19)")
contract(f"{EB}::CalibrationEnv.reset", params={"seed": "any", "options": "any"}, returns="tuple[any,any]",
         ensures=[], modifies=[], props=["C10"])

contract(f"{EB}::CalibrationEnv.step", params={"action": "int"}, returns="tuple[any,real,bool,bool,any]",
         may_raise=["Exception", "ValueError"], props=["C10"],
         ensures=[
             # exactly one action is put and exactly one message consumed per step
             "ghost.actions_put == old(ghost.actions_put) + 1 and ghost.outcomes_got == old(ghost.outcomes_got) + 1",
             "ghost.last_action_put == action",
             # the end marker yields (.., 0.0, False, True, ..); an outcome yields the reward of THAT outcome
             "result[3] == ghost.last_outcome_is_marker and result[2] == False",
             "implies(result[3], result[1] == 0)",
             "implies(not result[3], result[1] == ghost.last_reward)"],
         ghost_ensures=["ghost.last_step_truncated == result[3]", "ghost.last_step_reward == result[1]",
                        "ghost.last_step_action == action",
                        "ghost.steps_executed == old(ghost.steps_executed) + ite(result[3], 0, 1)"],
         modifies=["self._curr_best_loss"])

# ---- agent ---------------------------------------------------------------------------------------------------
contract(f"{AB}::Agent.policy", abstract=True, params={"state": "any"}, returns="int", ensures=[], modifies=[],
         props=["C10"])
contract(f"{AB}::Agent.learn", abstract=True,
         params={"state": "any", "action": "int", "reward": "real", "next_state": "any"}, props=["C10"],
         # the agent learns ONLY from an executed step, with that step's own action and reward
         ghost_requires=["not ghost.last_step_truncated", "action == ghost.last_step_action",
                         "reward == ghost.last_step_reward"],
         ensures=[], ghost_ensures=["ghost.learn_calls == old(ghost.learn_calls) + 1"], modifies=[])

# ---- scheduler: agent thread body ----------------------------------------------------------------------------
contract(f"{RL}::RLScheduler._train", params={}, props=["C10"], may_raise=["Exception", "ValueError"],
         # learns exactly once per executed (non-marker) step, and returns only after consuming the marker
         ensures=["ghost.learn_calls - old(ghost.learn_calls) == ghost.steps_executed - old(ghost.steps_executed)",
                  "ghost.last_step_truncated"],
         modifies=["self._env._curr_best_loss"])
loop_invariant(f"{RL}::RLScheduler._train", 1, over="True", var="it",
               inv=["ghost.learn_calls - old(ghost.learn_calls) == ghost.steps_executed - old(ghost.steps_executed)"],
               props=["C10"])

# ---- scheduler: calibration thread side ----------------------------------------------------------------------
contract(f"{RL}::RLScheduler.start_session", params={}, props=["C10", "C11"],
         raises=[{"exc": "ValueError", "when": "not self._stopped"}],
         ensures=["not self._stopped", "ghost.live_threads == old(ghost.live_threads) + 1"],
         ghost_ensures=["ghost.open_sessions == old(ghost.open_sessions) + 1"],
         modifies=["self._stopped", "self._agent_thread"])

contract(f"{RL}::RLScheduler.end_session", params={}, props=["C10", "C11"],
         raises=[{"exc": "ValueError", "when": "self._stopped"}],
         requires=["self._agent_thread is not None"],
         ensures=["self._stopped",
                  # the marker is the last message put, the thread is joined, no chosen-but-unexecuted action is left
                  "ghost.outcomes_put == old(ghost.outcomes_put) + 1 and ghost.outcomes_last_put_is_none",
                  "ghost.live_threads == old(ghost.live_threads) - 1",
                  "ghost.actions_pending <= 0"],
         ghost_ensures=["ghost.open_sessions == old(ghost.open_sessions) - 1"],
         modifies=["self._stopped"])
loop_invariant(f"{RL}::RLScheduler.end_session", 1, over="True", var="it", inv=["self._stopped"], props=["C10"])

contract(f"{RL}::RLScheduler.get_next_sampler", params={}, returns="opaque:BaseSampler", props=["C09", "C10"],
         ensures=[
             # first batch of the scheduler's life: the bootstrap (Halton) sampler, nothing consumed
             "implies(self._best_loss is None, result is self.samplers[self._halton_sampler_id] and "
             "ghost.actions_got == old(ghost.actions_got))",
             # later: exactly one action consumed, and the sampler with that index is designated
             "implies(self._best_loss is not None, ghost.actions_got == old(ghost.actions_got) + 1 and "
             "result is self.samplers[ghost.last_action_got])",
             "exists(range(0, len(self.samplers)), lambda j: result is self.samplers[j])"],
         modifies=[])

contract(f"{RL}::RLScheduler.update",
         params={"batch_id": "int", "new_params": "arr2[real]", "new_losses": "arr1[real]", "new_simulated_data": "any"},
         requires=["len(new_losses) >= 1 and new_params.shape[0] == len(new_losses)"], props=["C09", "C10"],
         ensures=[
             # bootstrap batch: reference losses initialised, NO outcome message (no action was executed)
             "implies(old(self._best_loss) is None, ghost.outcomes_put == old(ghost.outcomes_put) and "
             "self._env._curr_best_loss == self._best_loss)",
             # every later batch: exactly one outcome message
             "implies(old(self._best_loss) is not None, ghost.outcomes_put == old(ghost.outcomes_put) + 1 and "
             "not ghost.outcomes_last_put_is_none)",
             # best loss so far = min(previous best, best of this batch)
             "self._best_loss is not None",
             "forall(range(0, len(new_losses)), lambda i: self._best_loss <= new_losses[i])",
             "implies(old(self._best_loss) is not None, self._best_loss <= old(self._best_loss))",
             "(exists(range(0, len(new_losses)), lambda i: self._best_loss == new_losses[i])) or "
             "(old(self._best_loss) is not None and self._best_loss == old(self._best_loss))"],
         modifies=["self._best_loss", "self._best_param", "self._env._curr_best_loss"])
