"""Shared: BaseSeedable (black_it/utils/seedable.py) - used by C01, C13, C19."""
from pyvc.api import contract, klass

F = "black_it/utils/seedable.py"

klass("BaseSeedable", fields={"_BaseSeedable__random_state": "opt[int]", "_BaseSeedable__random_generator": "rng"})
klass("rng", fields={"state": "int"})

contract(f"{F}::BaseSeedable._set_random_state", params={"random_state": "opt[int]"}, props=["C01", "C19", "C13"],
         ensures=["self.random_state == random_state",
                  # the generator is rebuilt from the seed alone: equal seeds give equal generator states
                  "implies(random_state is not None, self.random_generator.state == spec_seed_state(random_state))"],
         modifies=["self._BaseSeedable__random_state", "self._BaseSeedable__random_generator"])

contract(f"{F}::BaseSeedable.__init__", params={"random_state": "opt[int]"}, props=["C01", "C19"],
         ensures=["self.random_state == random_state",
                  "implies(random_state is not None, self.random_generator.state == spec_seed_state(random_state))"],
         modifies=["self._BaseSeedable__random_state", "self._BaseSeedable__random_generator"])

contract(f"{F}::BaseSeedable._get_random_seed", params={}, returns="int", props=["C01"],
         ensures=["0 <= result and result < 2**32 - 1",
                  "result == spec_draw_int(old(self.random_generator.state), 0, 2**32 - 1)",
                  "self.random_generator.state == spec_next_state(old(self.random_generator.state), 2)"],
         modifies=["self.random_generator.state"])

contract(f"{F}::get_random_seed", params={"random_generator": "rng"}, returns="int", props=["C01"],
         ensures=["0 <= result and result < 2**32 - 1",
                  "result == spec_draw_int(old(random_generator.state), 0, 2**32 - 1)",
                  "random_generator.state == spec_next_state(old(random_generator.state), 2)"],
         modifies=["random_generator.state"])
