"""C09 - samplers are scheduled as prescribed (validation, round-robin data structure)."""
from pyvc.api import contract, klass, loop_invariant

C = "black_it/calibrator.py"
RR = "black_it/schedulers/round_robin.py"
SB = "black_it/schedulers/base.py"

klass("BaseSampler", fields={"batch_size": "pos", "max_deduplication_passes": "nat"})
klass("BaseScheduler", fields={"_samplers": "seq[opaque:BaseSampler]", "_batch_id": "int"},
      invariant=["len(self._samplers) >= 1"])
klass("RoundRobinScheduler", fields={"_batch_id": "int"}, invariant=["self._batch_id >= 0"])

contract(f"{SB}::BaseScheduler.__init__",
         params={"samplers": "seq[opaque:BaseSampler]", "random_state": "opt[int]"},
         requires=["len(samplers) >= 1"], props=["C09"],
         ensures=["len(self.samplers) == len(samplers)",
                  "forall(range(0, len(samplers)), lambda i: self.samplers[i] is samplers[i])",
                  "self.random_state == random_state"],
         # (precise frame: subclass constructors assign their own fields BEFORE calling this one)
         modifies=["self._samplers", "self._BaseSeedable__random_state", "self._BaseSeedable__random_generator"],
         notes="BaseSeedable.__init__ dispatches to the scheduler's own _set_random_state, which reseeds the (opaque) "
               "samplers; sampler-internal state is not part of this contract (see C01)")

contract(f"{RR}::RoundRobinScheduler.__init__",
         params={"args": "tuple[seq[opaque:BaseSampler]]", "kwargs": "emptydict"},
         requires=["len(args[0]) >= 1"], props=["C09"],
         ensures=["self._batch_id == 0", "len(self.samplers) == len(args[0])",
                  "forall(range(0, len(args[0])), lambda i: self.samplers[i] is args[0][i])"],
         modifies=["self.*"])

# (C11 owns the two obligations that keep the scheduler in step with the calibrator across a FAILED batch: designating the
#  next sampler does not move the position, only the update after a completed batch does)
contract(f"{RR}::RoundRobinScheduler.get_next_sampler", params={}, returns="opaque:BaseSampler", props=["C09"],
         prop_groups={"C11": r"/M/frame"},
         ensures=["result is self.samplers[self._batch_id % len(self.samplers)]"],
         modifies=[])

contract(f"{RR}::RoundRobinScheduler.update",
         params={"batch_id": "int", "new_params": "any", "new_losses": "any", "new_simulated_data": "any"},
         props=["C09"], prop_groups={"C11": r"/F/post#0"},
         ensures=["self._batch_id == old(self._batch_id) + 1"],
         modifies=["self._batch_id"])

# "accepts exactly one of a sampler list or a scheduler and rejects both-or-neither with ValueError"
contract(f"{C}::Calibrator.__validate_samplers_and_scheduler_constructor_args",
         params={"samplers": "opt[seq[opaque:BaseSampler]]", "scheduler": "opt[opaque:BaseScheduler]"},
         requires=["implies(samplers is not None, len(samplers) >= 1)"],
         returns="opaque:BaseScheduler", props=["C09"],
         raises=[{"exc": "ValueError", "when": "(samplers is None) == (scheduler is None)"}],
         ensures=["implies(scheduler is not None, result is scheduler)",
                  "implies(samplers is not None, isinstance(result, RoundRobinScheduler) and result._batch_id == 0 "
                  "and len(result.samplers) == len(samplers) and "
                  "forall(range(0, len(samplers)), lambda i: result.samplers[i] is samplers[i]))"],
         modifies=[])

# ---- RL scheduler: the bootstrap sampler (C09: "a history-free bootstrap sampler (Halton, added if absent)", "only
# samplers of the supplied set are used") -----------------------------------------------------------------------------
from pyvc.api import klass as _klass  # noqa: E402

H_ = "black_it/samplers/halton.py"
RL_ = "black_it/schedulers/rl/rl_scheduler.py"
contract(f"{H_}::HaltonSampler.__init__",
         params={"batch_size": "int", "random_state": "opt[int]", "max_deduplication_passes": "int"},
         requires=["batch_size >= 1", "max_deduplication_passes >= 0"], props=["C09"],
         ensures=["self.batch_size == batch_size", "self.max_deduplication_passes == max_deduplication_passes"],
         modifies=["self.*"])
contract(f"{RL_}::RLScheduler._add_or_get_bootstrap_sampler", params={"samplers": "seq[opaque:BaseSampler]"},
         returns="tuple[seq[opaque:BaseSampler],int]", props=["C09"],
         ensures=[
             # the designated bootstrap sampler is a member of the returned line-up and IS a Halton sampler
             "0 <= result[1] and result[1] < len(result[0])",
             "type(result[0][result[1]]).__name__ == 'HaltonSampler'",
             # the line-up is the supplied one, with at most one sampler appended
             "len(samplers) <= len(result[0]) and len(result[0]) <= len(samplers) + 1",
             "forall(range(0, len(samplers)), lambda i: result[0][i] is samplers[i])",
             # appended only if absent - and then it is a Halton sampler of batch size 1 at the end
             "implies(exists(range(0, len(samplers)), lambda i: type(samplers[i]).__name__ == 'HaltonSampler'), "
             "len(result[0]) == len(samplers))",
             "implies(len(result[0]) == len(samplers) + 1, result[1] == len(samplers) and result[0][len(samplers)].batch_size == 1)",
         ], modifies=[])

_klass("CalibrationEnv", fields={"_out_queue": "opaque:QueueActions", "_in_queue": "opaque:QueueOutcomes"})
contract(f"{RL_}::RLScheduler.__init__",
         params={"samplers": "seq[opaque:BaseSampler]", "agent": "opaque:Agent", "env": "obj:CalibrationEnv",
                 "random_state": "opt[int]"},
         requires=["len(samplers) >= 1"], props=["C09", "C10"],
         # (the class invariant - valid bootstrap index designating a Halton sampler - is an obligation at the exit)
         ensures=["len(samplers) <= len(self.samplers) and len(self.samplers) <= len(samplers) + 1",
                  # only samplers of the supplied set are used (plus, at most, the appended bootstrap sampler)
                  "forall(range(0, len(samplers)), lambda i: self.samplers[i] is samplers[i])",
                  "self._stopped and self._agent_thread is None and self._best_loss is None",
                  "self._agent is agent and self._env is env",
                  "self._in_queue is env._out_queue and self._out_queue is env._in_queue"],
         modifies=["self.*"])
