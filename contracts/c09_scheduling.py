"""C09 - samplers are scheduled as prescribed (validation, round-robin data structure)."""
from pyvc.api import contract, klass, loop_invariant

C = "black_it/calibrator.py"
RR = "black_it/schedulers/round_robin.py"
SB = "black_it/schedulers/base.py"

klass("BaseSampler", fields={"batch_size": "pos", "max_deduplication_passes": "nat"})
klass("BaseScheduler", fields={"_samplers": "seq[opaque:BaseSampler]", "_batch_id": "int"},
      invariant=["len(self._samplers) >= 1"])
klass("RoundRobinScheduler", fields={"_batch_id": "int"}, invariant=["self._batch_id >= 0"])

contract(f"{SB}::BaseScheduler.__init__",
         params={"samplers": "seq[opaque:BaseSampler]", "random_state": "opt[int]"},
         requires=["len(samplers) >= 1"], props=["C09"],
         ensures=["len(self.samplers) == len(samplers)",
                  "forall(range(0, len(samplers)), lambda i: self.samplers[i] is samplers[i])",
                  "self.random_state == random_state"],
         modifies=["self.*"],
         notes="BaseSeedable.__init__ dispatches to the scheduler's own _set_random_state, which reseeds the (opaque) "
               "samplers; sampler-internal state is not part of this contract (see C01)")

contract(f"{RR}::RoundRobinScheduler.__init__",
         params={"args": "tuple[seq[opaque:BaseSampler]]", "kwargs": "emptydict"},
         requires=["len(args[0]) >= 1"], props=["C09"],
         ensures=["self._batch_id == 0", "len(self.samplers) == len(args[0])",
                  "forall(range(0, len(args[0])), lambda i: self.samplers[i] is args[0][i])"],
         modifies=["self.*"])

contract(f"{RR}::RoundRobinScheduler.get_next_sampler", params={}, returns="opaque:BaseSampler", props=["C09"],
         ensures=["result is self.samplers[self._batch_id % len(self.samplers)]"],
         modifies=[])

contract(f"{RR}::RoundRobinScheduler.update",
         params={"batch_id": "int", "new_params": "any", "new_losses": "any", "new_simulated_data": "any"},
         props=["C09"],
         ensures=["self._batch_id == old(self._batch_id) + 1"],
         modifies=["self._batch_id"])

# "accepts exactly one of a sampler list or a scheduler and rejects both-or-neither with ValueError"
contract(f"{C}::Calibrator.__validate_samplers_and_scheduler_constructor_args",
         params={"samplers": "opt[seq[opaque:BaseSampler]]", "scheduler": "opt[opaque:BaseScheduler]"},
         requires=["implies(samplers is not None, len(samplers) >= 1)"],
         returns="opaque:BaseScheduler", props=["C09"],
         raises=[{"exc": "ValueError", "when": "(samplers is None) == (scheduler is None)"}],
         ensures=["implies(scheduler is not None, result is scheduler)",
                  "implies(samplers is not None, isinstance(result, RoundRobinScheduler) and result._batch_id == 0 "
                  "and len(result.samplers) == len(samplers) and "
                  "forall(range(0, len(samplers)), lambda i: result.samplers[i] is samplers[i]))"],
         modifies=[])
