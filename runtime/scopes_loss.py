"""Bounded stand-ins for the losses (C07 definitions against independent references, C08 laws, C20 filters/moments).
Labelled `bounded`; never counted as proved."""
from __future__ import annotations

import math
import random
import warnings

import numpy as np

from runtime.scopes import StandIn

TOL = 1e-9


def close(a, b, tol=TOL):
    if np.isnan(a) and np.isnan(b):
        return True
    return abs(a - b) <= tol * max(1.0, abs(a), abs(b))


# ------------------------------------------------------------------------------------------------ references

def ref_moments(x):
    x = np.asarray(x, dtype=float)

    def four(v):
        n = len(v)
        m = sum(v) / n
        c2 = sum((t - m) ** 2 for t in v) / n
        c3 = sum((t - m) ** 3 for t in v) / n
        c4 = sum((t - m) ** 4 for t in v) / n
        sd = math.sqrt(c2)
        with np.errstate(all="ignore"):
            sk = c3 / c2 ** 1.5 if c2 > 0 else float("nan")
            ku = c4 / c2 ** 2 - 3.0 if c2 > 0 else float("nan")
        acf = []
        for lag in range(1, 6):
            num = sum((v[t] - m) * (v[t + lag] - m) for t in range(n - lag))
            acf.append(num / (n * c2) if c2 > 0 else float("nan"))
        root = lambda s, k: (math.copysign(abs(s) ** (1.0 / k), s) if not math.isnan(s) else float("nan"))  # noqa: E731
        return [m, sd, root(sk, 3), root(ku, 4)] + acf
    out = four(list(x)) + four([abs(x[i + 1] - x[i]) for i in range(len(x) - 1)])
    return np.nan_to_num(np.array(out, dtype=float))


def ref_minkowski(sim, real, p, weights, filters):
    E, N, D = sim.shape
    tot = 0.0
    for i in range(D):
        s = np.array([filters[i](sim[e, :, i]) if filters and filters[i] else sim[e, :, i] for e in range(E)])
        m = s.mean(axis=0)
        d = sum(abs(m[t] - real[t, i]) ** p for t in range(N)) ** (1.0 / p)
        tot += d * (weights[i] if weights is not None else 1.0 / D)
    return tot


def ref_fourier(sim, real, f, kind, weights):
    E, N, D = sim.shape
    tot = 0.0
    for i in range(D):
        def filt(z):
            n = len(z)
            if kind == "ideal":
                keep = int(np.round(f * n))
                return np.array([z[k] if k < keep else 0.0 for k in range(n)])
            sigma = np.round(f * n)
            return np.array([z[k] * math.exp(-(k ** 2) / (2 * sigma ** 2)) for k in range(n)])
        fr = filt(np.fft.rfft(real[:, i]))
        fs = np.mean([filt(np.fft.rfft(sim[e, :, i])) for e in range(E)], axis=0)
        d = math.sqrt(sum(abs(fs[k] - fr[k]) ** 2 for k in range(len(fr))) / len(fr))
        tot += d * (weights[i] if weights is not None else 1.0 / D)
    return tot


def ref_msm(sim, real, cov, standardise, weights, calc=ref_moments):
    E, N, D = sim.shape
    tot = 0.0
    for i in range(D):
        ms = np.array([calc(sim[e, :, i]) for e in range(E)])
        mr = calc(real[:, i])
        if standardise:
            with np.errstate(all="ignore"):
                ms = ms / abs(mr)[None, :]
                mr = mr / abs(mr)
        g = mr - ms.mean(axis=0)
        if isinstance(cov, str) and cov == "identity":
            v = float(sum(x * x for x in g))
        elif isinstance(cov, str):
            with np.errstate(all="ignore"):
                var = np.mean((mr[None, :] - ms) ** 2, axis=0)
                v = float(sum(g[k] * g[k] / var[k] for k in range(len(g))))
        else:
            v = float(g @ cov @ g)
        tot += v * (weights[i] if weights is not None else 1.0 / D)
    return tot


def ref_likelihood(sim, real, h):
    R, S, D = sim.shape
    T = real.shape[0]
    if h == "silverman":
        hh = ((S * (D + 2)) / 4.0) ** (-1.0 / (D + 4))
    elif h == "scott":
        hh = S ** (-1.0 / (D + 4))
    else:
        hh = h
    tot = 0.0
    for r in range(R):
        for t in range(T):
            acc = 0.0
            for s in range(S):
                sq = sum((sim[r, s, d] - real[t, d]) ** 2 for d in range(D)) / D
                acc += math.exp(-sq / (2 * hh ** 2)) / (hh ** D * (2 * math.pi) ** (D / 2.0))
            v = acc / S          # (a positive denormal sum can still underflow to 0.0 here)
            tot += math.log(v) if v > 0 else float("-inf")
    return -tot / R


def ref_gsl(sim, real, nb_values, nb_word_lengths, weights):
    """GSL-div on symbol TUPLES (the published definition: words are sequences of symbols)."""
    E, N, D = sim.shape
    T = real.shape[0]
    tot = 0.0
    for i in range(D):
        b = int((T - 1) / 2.0) if nb_values is None else nb_values
        L = int((T - 1) / 2.0) if nb_word_lengths is None else nb_word_lengths

        def disc(x):
            lo, hi = np.float64(np.min(x)) - 1e-5, np.float64(np.max(x)) + 1e-5
            edges = np.linspace(lo, hi, b + 1)
            return [int(np.searchsorted(edges, v, side="left")) for v in x]

        def entropy(words, base):
            cnt = {}
            for w in words:
                cnt[w] = cnt.get(w, 0) + 1
            n = len(words)
            return -sum((c / n) * (math.log(c / n) / math.log(base)) for c in cnt.values()), len(cnt)
        obs = disc(real[:, i])
        acc = 0.0
        for e in range(E):
            sx = disc(sim[e, :, i])
            g, wgt = 0.0, 0.0
            for l in range(1, L + 1):
                sw = [tuple(sx[t:t + l]) for t in range(len(sx) + 1 - l)]
                ow = [tuple(obs[t:t + l]) for t in range(len(obs) + 1 - l)]
                base = float(b ** l)
                se, ns = entropy(sw, base)
                me, nm = entropy(sw + ow, base)
                wgt += 2.0 / (L * (L + 1))
                g += wgt * (2 * me - se + ((nm - 1) - (ns - 1)) / (2 * T))
            acc += g
        tot += (acc / E) * (weights[i] if weights is not None else 1.0 / D)
    return tot


# ------------------------------------------------------------------------------------------------ data

def _data(rnd, kind=None, D=None, N=None, E=None):
    D = D or rnd.choice([1, 2, 3])
    N = N or rnd.choice([8, 9, 12, 25, 40])
    E = E or rnd.choice([1, 2, 3])
    kind = kind or rnd.choice(["normal", "ties", "const", "walk", "scaled", "linear", "alt"])
    g = np.random.default_rng(rnd.randrange(10 ** 9))

    def series(shape):
        if kind == "ties":
            return g.integers(0, 4, size=shape).astype(float)
        if kind == "const":
            return np.full(shape, 2.5)
        if kind == "walk":
            return np.cumsum(g.normal(0, 1, size=shape), axis=-2 if len(shape) > 1 else 0)
        if kind == "scaled":
            return g.normal(1e4, 1e3, size=shape)
        if kind in ("linear", "alt"):
            n = shape[-2]
            base = (2.0 + 0.5 * np.arange(n)) if kind == "linear" else (5.0 + np.array([(-1.0) ** k for k in range(n)]))
            out = np.zeros(shape)
            out[...] = base.reshape((n, 1))
            return out + g.integers(0, 3, size=shape[:-2] + (1, shape[-1]))
        return g.normal(0, 1, size=shape)
    return series((E, N, D)), series((N, D)), kind


def shift_filter(x):
    return x - x[0]


def half_filter(x):
    return 0.5 * x


# ================================================================================================ C07

def _c07_cases(tier, seed):
    rnd = random.Random(seed + 7)
    n = 40 if tier == "quick" else 500
    kinds = ["mink", "fourier", "msm", "lik", "gsl"]
    yield {"loss": "gsl", "rs": 1, "fixed": {"N": 40, "nbv": None, "nwl": 3}}   # default symbol count >= 10
    # exactly constant series (every member and the real series): the discretisation puts them on the middle symbol
    for nbv_ in (3, 5, 9):
        yield {"loss": "gsl", "rs": rnd.randrange(10 ** 9), "fixed": {"N": 12, "nbv": nbv_, "nwl": 2, "kind": "const"}}
    # cut-offs that fall exactly half-way between two frequencies (f * n_freq = k + 0.5, k even and odd): the documented
    # rounding is numpy's (half to even)
    for N_ in (8, 9, 12, 16, 17, 25):
        for kindf in ("ideal", "gauss"):
            yield {"loss": "fourier", "rs": rnd.randrange(10 ** 9), "fixed": {"N": N_}, "fourier_opt": (0.5, kindf)}
    # every weighting x standardisation combination of the method of moments, systematically (two data sets each)
    for cov in ("identity", "matrix", "inverse_variance"):
        for std in (False, True):
            for _ in range(2):
                yield {"loss": "msm", "rs": rnd.randrange(10 ** 9), "msm_opt": (cov, std)}
    for i in range(n):
        yield {"loss": kinds[i % len(kinds)], "rs": rnd.randrange(10 ** 9)}


def _c07_check(reg, case):
    """Each case evaluates ONE loss object on data set A, then on a data set B of another shape, then on A again:
    every value is compared with the reference (an option resolved once and kept would show on B)."""
    cache = {}
    msgs = []
    for rep, salt in enumerate((0, 7919, 0)):
        c2 = dict(case)
        c2["rs"] = case["rs"] + salt
        m = _c07_eval(reg, c2, cache, case["rs"])
        if m:
            return m + (f" [evaluation #{rep + 1} on the same loss object]" if rep else "")
    return None


def _c07_eval(reg, case, cache, opt_seed):
    from black_it.loss_functions.fourier import FourierLoss, gaussian_low_pass_filter, ideal_low_pass_filter
    from black_it.loss_functions.gsl_div import GslDivLoss
    from black_it.loss_functions.likelihood import LikelihoodLoss
    from black_it.loss_functions.minkowski import MinkowskiLoss
    from black_it.loss_functions.msm import MethodOfMomentsLoss
    drnd = random.Random(case["rs"])
    fx = case.get("fixed") or {}
    ornd = random.Random(opt_seed)
    Dfix = cache.setdefault("D", ornd.choice([1, 2, 3]))
    sim, real, kind = _data(drnd, kind="normal" if fx else None, N=fx.get("N"), D=Dfix,
                            E=3 if fx.get("kind") == "const" else None)
    if fx.get("kind") == "const":
        sim[0] = 0.25               # one simulated member is exactly constant, the others and the real series are not
        kind = "one-constant-member"
    E, N, D = sim.shape
    rnd = random.Random(opt_seed + 1)
    weights = None if rnd.random() < 0.5 else np.array([rnd.choice([0.0, 0.5, 1.0, 2.0]) for _ in range(D)])
    filters = None if rnd.random() < 0.6 else [rnd.choice([None, shift_filter, half_filter]) for _ in range(D)]
    if fx:
        weights, filters = None, None

    def obj(key, make):
        if key not in cache:
            cache[key] = make()
        return cache[key]
    s0, r0 = sim.copy(), real.copy()
    with warnings.catch_warnings():
        warnings.simplefilter("ignore")
        if case["loss"] == "mink":
            p = rnd.choice([1, 2, 3])
            got = obj("L", lambda: MinkowskiLoss(p=p, coordinate_weights=weights, coordinate_filters=filters)).compute_loss(sim, real)
            exp = ref_minkowski(sim, real, p, weights, filters)
            what = f"Minkowski p={p} weights={weights} filters={'yes' if filters else None}"
        elif case["loss"] == "fourier":
            f = rnd.choice([0.3, 0.5, 0.8, 1.0])
            kindf = rnd.choice(["ideal", "gauss"])
            if "fourier_opt" in case:
                f, kindf = case["fourier_opt"]
            if kindf == "gauss" and np.round(f * (N // 2 + 1)) < 1:
                return None
            got = obj("L", lambda: FourierLoss(frequency_filter=ideal_low_pass_filter if kindf == "ideal" else
                                               gaussian_low_pass_filter, f=f, coordinate_weights=weights)).compute_loss(sim, real)
            exp = ref_fourier(sim, real, f, kindf, weights)
            what = f"Fourier {kindf} f={f} weights={weights}"
        elif case["loss"] == "msm":
            cov = rnd.choice(["identity", "inverse_variance", "matrix"])
            std = rnd.random() < 0.3
            if "msm_opt" in case:
                cov, std = case["msm_opt"]
            if kind == "const" and (cov != "identity" or std):
                return None  # 0/0 in the standardised / inverse-variance variants: outside 'finite, well-defined'
            W = cov
            if cov == "matrix":
                A = np.random.default_rng(opt_seed % (10 ** 6)).normal(size=(18, 18))
                W = A + A.T
            if cov == "inverse_variance" and E == 1:
                return None
            got = obj("L", lambda: MethodOfMomentsLoss(covariance_mat=W, coordinate_weights=weights,
                                                       standardise_moments=std)).compute_loss(sim, real)
            W = cache.setdefault("W", W)
            exp = ref_msm(sim, real, W, std, weights)
            what = f"MSM cov={cov} standardise={std} weights={weights}"
            if np.isfinite(exp) and not np.isfinite(got):
                return f"{what}: library returned {got!r}, the reference value is {exp!r} (data={kind}, N={N})"
            if not (np.isfinite(got) and np.isfinite(exp)):
                return None
            if not close(got, exp, 1e-6):
                return f"{what}: library {got!r}, reference {exp!r} (E={E}, N={N}, D={D}, data={kind})"
            return None
        elif case["loss"] == "lik":
            h = rnd.choice(["silverman", "scott", 0.7, 1.5])
            got = obj("L", lambda: LikelihoodLoss(h=h)).compute_loss(sim, real)
            exp = ref_likelihood(sim, real, h)
            what = f"Likelihood h={h}"
        else:
            nbv = rnd.choice([None, 2, 3, 5, 9, 12])
            nwl = rnd.choice([None, 1, 2, 3, 5])
            if fx:
                nbv, nwl = fx["nbv"], fx["nwl"]
            T = N
            if (nwl or int((T - 1) / 2)) > T:
                return None
            got = obj("L", lambda: GslDivLoss(nb_values=nbv, nb_word_lengths=nwl, coordinate_weights=weights)).compute_loss(sim, real)
            exp = ref_gsl(sim, real, nbv, nwl, weights)
            what = f"GSL-div nb_values={nbv} nb_word_lengths={nwl}"
            b = int((T - 1) / 2.0) if nbv is None else nbv
            if not close(got, exp, 1e-9) and b >= 10:
                return (f"[gsl-word-packing] {what}: library {got!r}, tuple-word reference {exp!r} "
                        f"(symbols >= 10 collide in the base-10 packing; N={N}, data={kind})")
    if not (np.array_equal(s0, sim) and np.array_equal(r0, real)):
        return f"{what}: input arrays were modified"
    if not (np.isfinite(got) or not np.isfinite(exp)):
        return f"{what}: library returned {got!r}, reference {exp!r}"
    if np.isfinite(exp) and not close(got, exp, 1e-8):
        return f"{what}: library {got!r}, reference {exp!r} (E={E}, N={N}, D={D}, data={kind})"
    return None


StandIn("C07/definitions", "C07",
        "systematic: every MSM weighting x standardisation combination, Fourier cut-offs exactly half-way between two "
        "frequencies, GSL-div with one exactly constant member; plus 40 seeded (loss, options, data) triples over Minkowski "
        "(p 1-3), Fourier (ideal/Gaussian, f in {.3,.5,.8,1}), "
        "method of moments (identity / inverse variance / given matrix, with/without standardisation), kernel likelihood "
        "(Silverman, Scott, numeric h), GSL-div (nb_values {None,2,3,5,9,12}, word lengths {None,1,2,3,5}); data: normal, "
        "ties, constant, random walk, scaled; 1-3 coordinates, 1-3 members, lengths 8-40; random weights / filters; "
        "compared with independent pure-Python references", "500 triples", _c07_cases, _c07_check)


# ================================================================================================ C08

def _c08_cases(tier, seed):
    rnd = random.Random(seed + 8)
    n = 30 if tier == "quick" else 300
    for i in range(n):
        yield {"rs": rnd.randrange(10 ** 9),
               "which": ["custom", "mink", "fourier", "msm_id", "msm_iv", "gsl", "lik", "msm_user"][i % 8]}


def _view_moments(ts):
    return ts[::3]


def _mk_loss(which, weights, filters):
    from black_it.loss_functions.base import BaseLoss
    from black_it.loss_functions.fourier import FourierLoss
    from black_it.loss_functions.gsl_div import GslDivLoss
    from black_it.loss_functions.likelihood import LikelihoodLoss
    from black_it.loss_functions.minkowski import MinkowskiLoss
    from black_it.loss_functions.msm import MethodOfMomentsLoss

    class Custom(BaseLoss):
        def compute_loss_1d(self, sim, real):
            return float(np.abs(sim.mean(axis=0) - real).sum() + 0.1 * np.abs(sim).max())
    if which == "custom":
        return Custom(weights, filters)
    if which == "mink":
        return MinkowskiLoss(coordinate_weights=weights, coordinate_filters=filters)
    if which == "fourier":
        return FourierLoss(coordinate_weights=weights, coordinate_filters=filters)
    if which == "msm_id":
        return MethodOfMomentsLoss(coordinate_weights=weights, coordinate_filters=filters)
    if which == "msm_iv":
        return MethodOfMomentsLoss(covariance_mat="inverse_variance", coordinate_weights=weights,
                                   coordinate_filters=filters)
    if which == "msm_user":
        # a user moment calculator that hands back a VIEW of the series it was given, with standardisation
        return MethodOfMomentsLoss(moment_calculator=_view_moments, standardise_moments=True,
                                   coordinate_weights=weights, coordinate_filters=filters)
    if which == "gsl":
        return GslDivLoss(nb_values=4, nb_word_lengths=3, coordinate_weights=weights, coordinate_filters=filters)
    return LikelihoodLoss(coordinate_weights=weights, coordinate_filters=filters)


def _c08_check(reg, case):
    rnd = random.Random(case["rs"])
    which = case["which"]
    sim, real, kind = _data(rnd, kind=rnd.choice(["normal", "walk", "ties"]), E=rnd.choice([2, 3]),
                            N=rnd.choice([12, 25]))
    E, N, D = sim.shape
    if which == "msm_user" and np.any(real[::3] == 0):
        return None     # standardised moments divide by the real moments (here: every third real value): inadmissible data
    weights = np.array([rnd.choice([0.0, 0.5, 1.0, 2.0]) for _ in range(D)])
    filters = [rnd.choice([None, shift_filter, half_filter]) for _ in range(D)]
    with warnings.catch_warnings():
        warnings.simplefilter("ignore")
        L = _mk_loss(which, weights if which != "lik" else None, filters)
        s0, r0, w0 = sim.copy(), real.copy(), weights.copy()
        v1 = L.compute_loss(sim, real)
        if not (np.array_equal(s0, sim) and np.array_equal(r0, real) and np.array_equal(w0, weights)):
            return f"{which}: evaluation modified its inputs"
        other_s, other_r, _ = _data(rnd, D=D, N=N, E=E)
        L.compute_loss(other_s, other_r)        # an unrelated evaluation in between
        v2 = L.compute_loss(sim, real)
        if not (v1 == v2 or (np.isnan(v1) and np.isnan(v2))):
            return f"{which}: the same evaluation gave {v1!r} then {v2!r} after an unrelated evaluation (state kept)"
        # the caller refills its real-data BUFFER in place (same object, same address, new content): the value must be the
        # one a fresh loss object gives on the new content
        buf = real.copy()
        L.compute_loss(sim, buf)
        buf[...] = other_r
        v3 = L.compute_loss(sim, buf)
        v3f = _mk_loss(which, weights if which != "lik" else None, filters).compute_loss(sim, other_r.copy())
        if not (v3 == v3f or (np.isnan(v3) and np.isnan(v3f))):
            return (f"{which}: after the caller refilled its real-data buffer in place the loss object returns {v3!r}, a "
                    f"fresh object returns {v3f!r} on the same data (state kept between evaluations)")
        # wrong lengths are rejected
        for bad_w, bad_f in ((np.ones(D + 1), None), (None, [None] * (D + 1))):
            try:
                _mk_loss(which, bad_w, bad_f).compute_loss(sim, real)
            except ValueError:
                continue
            except Exception as e:  # noqa: BLE001
                return f"{which}: wrong-length {'weights' if bad_w is not None else 'filters'} raise {type(e).__name__}, not ValueError"
            tag = "[likelihood-weights-ignored] " if (which == "lik" and bad_w is not None) else ""
            return f"{tag}{which}: a {'weight' if bad_w is not None else 'filter'} list of length {D + 1} for {D} coordinates is accepted"
        if which != "lik":
            # weighted sum of the single-coordinate values
            filt = L._filter_data(L._check_coordinate_filters(D), sim)  # noqa: SLF001
            exp = sum(L.compute_loss_1d(filt[i], real[:, i]) * weights[i] for i in range(D))
            if not close(v1, exp, 1e-9):
                return f"{which}: multi-coordinate value {v1!r} != weighted sum of 1-d values {exp!r}"
            # a zero weight removes the coordinate
            if D >= 2:
                wz = weights.copy()
                wz[0] = 0.0
                vz = _mk_loss(which, wz, filters).compute_loss(sim, real)
                vr = _mk_loss(which, wz[1:], filters[1:]).compute_loss(sim[:, :, 1:], real[:, 1:])
                if not close(vz, vr, 1e-9):
                    return f"{which}: zero weight does not remove coordinate 0 ({vz!r} vs {vr!r})"
                perm = list(range(D))
                rnd.shuffle(perm)
                vp = _mk_loss(which, weights[perm], [filters[j] for j in perm]).compute_loss(sim[:, :, perm], real[:, perm])
                if not close(vp, v1, 1e-9):
                    return f"{which}: permuting coordinates with their weights and filters changes the value ({v1!r} -> {vp!r})"
        if which != "custom":
            pe = list(range(E))
            rnd.shuffle(pe)
            ve = L.compute_loss(sim[pe], real)
            if not close(ve, v1, 1e-7):
                return f"{which}: reordering ensemble members changes the value ({v1!r} -> {ve!r})"
        if which in ("mink", "fourier", "msm_id", "msm_iv") and np.isfinite(v1) and v1 < 0:
            return f"{which}: negative value {v1!r}"
        if which in ("mink", "fourier", "msm_id"):
            same = np.repeat(real[None, :, :], E, axis=0)
            L0 = _mk_loss(which, weights, None)
            z = L0.compute_loss(same, real)
            if not (abs(z) <= 1e-12):
                return f"{which}: value {z!r} when every simulated member equals the real data"
    return None


StandIn("C08/base-class-laws", "C08",
        "30 seeded (loss, data, weights, filters) cases over a user-defined 1-d loss and every built-in loss: inputs "
        "unchanged, repeatable after an unrelated evaluation, wrong-length lists rejected, weighted-sum law, zero weight, "
        "coordinate permutation, ensemble permutation, non-negativity, zero at sim == real", "300 cases",
        _c08_cases, _c08_check)


# ================================================================================================ C20

def _dense_hp(y, lamb):
    n = len(y)
    K = np.zeros((n - 2, n))
    for r in range(n - 2):
        K[r, r], K[r, r + 1], K[r, r + 2] = 1.0, -2.0, 1.0
    A = np.eye(n) + lamb * K.T @ K
    return A, np.linalg.solve(A, y)


def _series(rnd, n, shape):
    g = np.random.default_rng(rnd.randrange(10 ** 9))
    if shape == "const":
        return np.full(n, 3.5)
    if shape == "const_inexact":      # a constant whose mean does not round-trip: std is ~1e-17, not 0.0
        return np.full(n, rnd.choice([0.3, 0.1, 1234.567]))
    if shape == "alt_inexact":        # numerically (not exactly) constant absolute first difference
        return np.array([0.1 if k % 2 == 0 else 0.4 for k in range(n)])
    if shape == "linear":
        return 2.0 + 0.5 * np.arange(n)
    if shape == "alt":
        return 5.0 + np.array([(-1.0) ** k for k in range(n)])
    if shape == "decr":
        return 100.0 - 0.25 * np.arange(n)
    return 50.0 + np.cumsum(g.normal(0, 1, n))


def _c20_cases(tier, seed):
    rnd = random.Random(seed + 20)
    lens = [3, 4, 5, 8, 50] if tier == "quick" else [3, 4, 5, 6, 8, 20, 50, 200, 500, 2000]
    lambs = [1e-3, 1.0, 1600.0, 1e7]
    for n in lens:
        for shape in ("const", "linear", "alt", "walk", "decr", "const_inexact", "alt_inexact"):
            # several lambdas on same-length series within ONE case (state shared between calls must not matter)
            yield {"n": n, "shape": shape, "lambs": rnd.sample(lambs, len(lambs)), "rs": rnd.randrange(10 ** 9)}


def _c20_check(reg, case):
    from black_it.utils.time_series import (diff_log_demean_filter, get_mom_ts_1d, hp_cycle_lamb1600_filter,
                                            hp_filter, log_and_hp_filter)
    rnd = random.Random(case["rs"])
    n = case["n"]
    y = _series(rnd, n, case["shape"])
    y0 = y.copy()
    scale = max(1.0, float(np.max(np.abs(y))))
    for lamb in case["lambs"]:
        cycle, trend = hp_filter(y, lamb)
        if len(cycle) != n or len(trend) != n:
            return f"hp_filter lengths {len(cycle)}, {len(trend)} for a series of {n}"
        if np.max(np.abs(cycle + trend - y)) > 1e-9 * scale:
            return f"cycle + trend != series (n={n}, lambda={lamb}, {case['shape']})"
        A, ref = _dense_hp(y, lamb)
        cond = np.linalg.cond(A)
        res = np.max(np.abs(A @ trend - y)) / scale
        if res > 1e-12 * cond + 1e-10:
            return (f"HP optimality condition violated: |(I + lambda K'K) trend - y| / |y| = {res:.3e} "
                    f"(n={n}, lambda={lamb}, shape={case['shape']})")
    if not np.array_equal(y, y0):
        return "hp_filter modified its input"
    _, t1600 = _dense_hp(y, 1600.0)
    got = hp_cycle_lamb1600_filter(y)
    if np.max(np.abs(got - (y - t1600))) > 1e-7 * scale:
        return f"hp_cycle_lamb1600_filter is not the cycle at lambda 1600 (n={n}, {case['shape']})"
    ly = np.log(y)
    _, tl = _dense_hp(ly, 1600.0)
    got = log_and_hp_filter(y)
    if np.max(np.abs(got - (ly - tl))) > 1e-7 * max(1.0, float(np.max(np.abs(ly)))):
        return f"log_and_hp_filter is not log minus the HP(1600) trend of the log (n={n}, {case['shape']})"
    d = diff_log_demean_filter(y)
    raw = np.concatenate(([0.0], np.diff(ly)))
    if len(d) != n or np.max(np.abs(d - (raw - raw.mean()))) > 1e-12 or abs(d.mean()) > 1e-12:
        return f"diff_log_demean_filter is not the de-meaned first difference of the log (n={n}, {case['shape']})"
    if n >= 8:
        with warnings.catch_warnings():
            warnings.simplefilter("ignore")
            m = get_mom_ts_1d(y)
        if m.shape != (18,) or not np.all(np.isfinite(m)):
            return f"moment summary not finite for a finite {case['shape']} series of length {n}: {m}"
        exp = ref_moments(y)
        if case["shape"] == "walk" and np.max(np.abs(m - exp)) > 1e-8 * max(1.0, float(np.max(np.abs(exp)))):
            return f"moment summary differs from the reference definitions: {m} vs {exp}"
    if not np.array_equal(y, y0):
        return "a filter modified its input"
    return None


StandIn("C20/filters-and-moments", "C20",
        "lengths {3,4,5,8,50} x shapes {constant (exact and inexact), linear, alternating (exact and inexact), random walk, decreasing}, each with lambdas "
        "{1e-3,1,1600,1e7} in seeded order on the same series: cycle+trend, HP optimality residual against a dense "
        "reference (tolerance scaled by the condition number), the three derived filters against their definitions, "
        "18 finite moments", "lengths up to 2000", _c20_cases, _c20_check)


def _c08n_cases(tier, seed):
    rnd = random.Random(seed + 88)
    for i in range(24 if tier == "quick" else 400):
        yield {"rs": rnd.randrange(10 ** 9), "which": ["msm_iv", "msm_iv_mean", "msm_id", "mink", "fourier"][i % 5],
               "level": rnd.choice([1e3, 1e5, 1e7]), "eps": rnd.choice([1e-2, 1e-3, 1e-5])}


def _mean_only(x):
    return np.array([np.mean(x)])


def _c08n_check(reg, case):
    """Non-negativity on ill-conditioned data: series at a large level with tiny fluctuations (the algebraically equal
    one-pass variance formula cancels catastrophically there)."""
    from black_it.loss_functions.msm import MethodOfMomentsLoss
    rng = np.random.default_rng(case["rs"])
    E, N = 6, 30
    real = case["level"] + case["eps"] * rng.standard_normal((N, 1))
    sim = case["level"] + case["eps"] * rng.standard_normal((E, N, 1)) + case["eps"] * rng.standard_normal()
    with warnings.catch_warnings():
        warnings.simplefilter("ignore")
        if case["which"] == "msm_iv_mean":
            L = MethodOfMomentsLoss(covariance_mat="inverse_variance", moment_calculator=_mean_only)
        else:
            L = _mk_loss(case["which"], None, None)
        v = L.compute_loss(sim, real)
    if np.isfinite(v) and v < 0:
        return (f"{case['which']}: negative value {v!r} on series at level {case['level']:g} with fluctuations "
                f"{case['eps']:g} (generator seed {case['rs']})")
    return None


StandIn("C08/non-negative-ill-conditioned", "C08",
        "24 seeded near-constant data sets (level 1e3-1e7, fluctuations 1e-2..1e-5, 6 members x 30 steps) through the "
        "identity / inverse-variance method of moments (default and mean-only moments), Minkowski and Fourier losses: "
        "no finite negative value", "400 data sets", _c08n_cases, _c08n_check)
