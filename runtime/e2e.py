"""End-to-end harness around the REAL Calibrator (bounded stand-ins for C01/C02/C05/C09/C11/C14/C18 and replays).

Everything here observes the library through its public API plus wrappers installed from outside (no repo hooks).
"""
from __future__ import annotations

import contextlib
import io
import os
import shutil
import tempfile
import threading

import numpy as np


def quiet():
    return contextlib.redirect_stdout(io.StringIO())


# ------------------------------------------------------------------------------------------------ components

class Model:
    """Deterministic model: series is a function of (theta, N, seed); logs its calls (n_jobs=1 only)."""

    def __init__(self, D=1, fail_at=None, kind="normal"):
        self.D, self.fail_at, self.kind = D, fail_at, kind
        self.calls = []
        self.__name__ = "model"

    def __call__(self, theta, N, seed):
        k = len(self.calls)
        self.calls.append((np.array(theta, dtype=float).copy(), int(N), int(seed)))
        if self.fail_at is not None and k == self.fail_at:
            raise RuntimeError(f"injected model failure at call {k}")
        out = self.run(theta, N, seed)
        if self.kind == "mutating":       # writes into the vector it was handed (after using it)
            theta[0] = -1.0
        return out

    def run(self, theta, N, seed):
        rng = np.random.default_rng(int(seed))
        if self.kind == "extreme":
            base = np.where(rng.random((N, self.D)) < 0.3, 1e300, rng.normal(theta[0], 1.0, (N, self.D)))
            return base
        return rng.normal(theta[0], 1.0 + abs(theta[-1]), (N, self.D))


def pure_model(theta, N, seed):
    rng = np.random.default_rng(int(seed))
    return rng.normal(theta[0], 1.0 + abs(theta[-1]), (N, 1))


def clamping_model(theta, N, seed):
    """A user model that normalises the parameter vector it is handed IN PLACE before simulating (legal: the vector is
    the model's own argument) - the recorded history must not depend on it, whatever n_jobs is."""
    theta[0] = min(theta[0], 0.5)
    rng = np.random.default_rng(int(seed))
    return rng.normal(theta[0], 1.0 + abs(theta[-1]), (N, 1))


from black_it.loss_functions.base import BaseLoss  # noqa: E402
from black_it.loss_functions.minkowski import MinkowskiLoss  # noqa: E402


class ScriptedLoss(BaseLoss):
    """Module-level (hence picklable) loss: scripted values and/or an injected failure."""

    def __init__(self, scripted=None, fail_at=None):
        super().__init__()
        self.n = 0
        self.scripted = scripted
        self.fail_at = fail_at
        self.inner = MinkowskiLoss()

    def compute_loss(self, sim, real):
        k = self.n
        self.n += 1
        if self.fail_at is not None and k == self.fail_at:
            raise RuntimeError(f"injected loss failure at call {k}")
        if self.scripted is not None:
            return float(self.scripted[k % len(self.scripted)])
        return self.inner.compute_loss(sim, real)

    def compute_loss_1d(self, a, b):  # noqa: ARG002
        return 0.0


def make_loss(name="minkowski", scripted=None, fail_at=None):  # noqa: ARG001
    if scripted is None and fail_at is None:
        return MinkowskiLoss()
    return ScriptedLoss(scripted, fail_at)


SAMPLER_KINDS = ["halton", "random", "rseq", "best", "pso", "rf", "xgb", "gp", "cors"]


def make_sampler(kind, batch_size, seed=None):
    if kind == "halton":
        from black_it.samplers.halton import HaltonSampler
        return HaltonSampler(batch_size, random_state=seed)
    if kind == "random":
        from black_it.samplers.random_uniform import RandomUniformSampler
        return RandomUniformSampler(batch_size, random_state=seed)
    if kind == "rseq":
        from black_it.samplers.r_sequence import RSequenceSampler
        return RSequenceSampler(batch_size, random_state=seed)
    if kind == "best":
        from black_it.samplers.best_batch import BestBatchSampler
        return BestBatchSampler(batch_size, random_state=seed)
    if kind == "pso":
        from black_it.samplers.particle_swarm import ParticleSwarmSampler
        return ParticleSwarmSampler(batch_size, random_state=seed)
    if kind == "rf":
        from black_it.samplers.random_forest import RandomForestSampler
        return RandomForestSampler(batch_size, random_state=seed, candidate_pool_size=4 * batch_size + 8, n_estimators=5)
    if kind == "xgb":
        from black_it.samplers.xgboost import XGBoostSampler
        return XGBoostSampler(batch_size, random_state=seed, candidate_pool_size=4 * batch_size + 8, n_estimators=3)
    if kind == "gp":
        from black_it.samplers.gaussian_process import GaussianProcessSampler
        return GaussianProcessSampler(batch_size, random_state=seed, candidate_pool_size=4 * batch_size + 8)
    if kind == "cors":
        from black_it.samplers.cors import CORSSampler
        return CORSSampler(batch_size, max_samples=200, random_state=seed)
    raise ValueError(kind)


class _WrappedSample:
    def __init__(self, log, orig, index):
        self.log, self.orig, self.index = log, orig, index

    def __call__(self, space, pts, losses):
        lg = self.log
        k = lg.counts.get(self.index, 0)
        lg.counts[self.index] = k + 1
        if lg.fail is not None and tuple(lg.fail) == (self.index, k):
            raise RuntimeError(f"injected sampler failure {lg.fail}")
        out = self.orig(space, pts, losses)
        lg.log.append((self.index, np.array(out, copy=True)))
        return out


class SampleLog:
    """Wraps sampler.sample from outside (picklable) to record what each designated sampler proposed."""

    def __init__(self, samplers, fail=None):
        self.log = []  # (sampler index, proposed array copy)
        self.fail = fail  # (sampler index, invocation index) -> raise
        self.counts = {}
        for i, s in enumerate(samplers):
            s.sample = _WrappedSample(self, s.sample, i)


def make_calibrator(cfg, model=None, loss=None, samplers=None, scheduler=None):
    from black_it.calibrator import Calibrator
    dims = cfg.get("dims", 2)
    lo = cfg.get("lo", [0.0] * dims)
    hi = cfg.get("hi", [1.0] * dims)
    pr = cfg.get("pr", [0.01] * dims)
    D = cfg.get("D", 1)
    N = cfg.get("N", 12)
    real = np.random.default_rng(12345).normal(0.5, 1.0, (N, D))
    model = model if model is not None else Model(D)
    loss = loss if loss is not None else make_loss()
    if samplers is None and scheduler is None and not cfg.get("no_default"):
        samplers = [make_sampler(k, b, seed=cfg.get("ctor_seed")) for k, b in cfg.get("lineup", [("halton", 3)])]
    with quiet():
        cal = Calibrator(loss_function=loss, real_data=real, model=model, parameters_bounds=[lo, hi],
                         parameters_precision=pr, ensemble_size=cfg.get("E", 2), samplers=samplers,
                         scheduler=scheduler, sim_length=cfg.get("sim_length"),
                         convergence_precision=cfg.get("conv"), verbose=cfg.get("verbose", False),
                         saving_folder=cfg.get("folder"), random_state=cfg.get("seed", 0), n_jobs=cfg.get("n_jobs", 1))
    return cal, model, loss, samplers


def history(cal):
    return {"params": cal.params_samp.copy(), "losses": cal.losses_samp.copy(), "series": cal.series_samp.copy(),
            "batch": cal.batch_num_samp.copy(), "method": cal.method_samp.copy(), "n": cal.n_sampled_params,
            "cbi": cal.current_batch_index}


def same_history(a, b, upto=None):
    for k in ("params", "losses", "series", "batch", "method"):
        x, y = a[k], b[k]
        if upto is not None:
            x, y = x[:upto], y[:upto]
        if x.shape != y.shape or not np.array_equal(x, y, equal_nan=True):
            return f"{k} differ"
    return None


def aligned(cal):
    n = cal.n_sampled_params
    lens = [len(cal.params_samp), len(cal.losses_samp), len(cal.series_samp), len(cal.batch_num_samp),
            len(cal.method_samp)]
    if any(l != n for l in lens):
        return f"record lengths {lens} != sample counter {n}"
    return None


@contextlib.contextmanager
def tmp_folder():
    d = tempfile.mkdtemp(prefix="blackit_verif_")
    try:
        yield d
    finally:
        shutil.rmtree(d, ignore_errors=True)


def live_threads():
    return [t for t in threading.enumerate() if t is not threading.main_thread() and t.is_alive()
            and not t.daemon]


def demean_filter(x):
    """A coordinate filter that returns a NEW array (module level: picklable)."""
    return x - np.mean(x)


def two_moments(x):
    return np.array([np.mean(x), np.std(x)])


class NameLog:
    """Picklable record of (class name, rows) of every sampler.sample call; install with watch()."""

    def __init__(self):
        self.rows = []

    def watch(self, sampler):
        sampler.sample = _NameLogged(self, sampler.sample, type(sampler).__name__)
        return sampler


class _NameLogged:
    def __init__(self, log, orig, name):
        self.log, self.orig, self.name = log, orig, name

    def __call__(self, space, pts, losses):
        out = self.orig(space, pts, losses)
        self.log.rows.append((self.name, len(out)))
        return out
