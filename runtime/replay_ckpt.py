"""Replay drivers for the ghost-disk obligations of C04: the solver's counter-model (arguments + the content the
checkpoint folder held BEFORE the call) is materialised in a scratch folder and the REAL function is run on it."""
from __future__ import annotations

import json
import tempfile
from pathlib import Path

import numpy as np

from runtime import rt
from runtime.scopes import REPLAY

JP = "black_it/utils/json_pandas_checkpointing.py"


def _arr(v, nd, dtype=float):
    a = np.array(rt.from_witness(v), dtype=dtype)
    if a.ndim != nd:
        a = a.reshape((a.shape[0] if a.ndim else 0,) + (0,) * (nd - 1)) if a.size == 0 else a
    return a


def _materialise(folder: Path, disk):
    """Write the PREVIOUS folder content named by the counter-model (only the files the execution looked at)."""
    import pickle

    import h5py
    for leaf, ent in (disk or {}).items():
        if not ent.get("exists", True):
            continue
        if leaf.endswith(".pickle"):
            with (folder / leaf).open("wb") as f:
                pickle.dump({"previous-content-of": leaf}, f)
        elif leaf.endswith((".json", ".csv")):
            (folder / leaf).write_text("previous content\n")
        if ent.get("kind") == "h5":
            for ds, data in ent.get("datasets", {}).items():
                a = _arr(data, 4)
                with h5py.File(folder / leaf, "w") as f:
                    f.create_dataset(ds, data=a, maxshape=(None, *a.shape[1:]), dtype="float64")


def replay_save(reg, key, witness):
    if isinstance(witness, dict) and "cut" in witness:
        # crash-prefix obligation of a FIRST save: the real save is interrupted in that file (cut in the middle and, for
        # the table, after each of its first lines) and the real restore is run on what is left
        from runtime import scopes_ckpt
        eff = {"calibration_params.json": "json", "scheduler_pickled.pickle": "sched", "loss_function_pickled.pickle": "loss",
               "calibration_results.csv": "csv", "series_samp.h5": "h5"}.get(witness["cut"])
        if eff is None:
            return None
        for cut in ([None] + (list(range(7)) if eff == "csv" else [])):
            case = {"backend": "json", "effect": eff, "mode": "truncate", "first": True}
            if cut is not None:
                case["cut_lines"] = cut
            msg = scopes_ckpt._c06_check(reg, case)  # noqa: SLF001
            if msg and "did not fire" not in msg:
                return msg
        return None
    c = reg["contracts"][key]
    func, _ = rt.resolve(key)
    kw = {}
    for name, t in c.params.items():
        v = witness.get(name)
        if t.startswith("arr"):
            kw[name] = _arr(v, int(t[3]), float if "real" in t else int)
        elif t.startswith("opaque"):
            kw[name] = {"stand-in-for": name}     # any picklable / json-able object
        elif t.startswith("opt["):
            kw[name] = None if v is None else rt.from_witness(v)
        else:
            kw[name] = rt.from_witness(v)
    for s in ("saving_file", "model_name"):
        if not isinstance(kw.get(s), (str, type(None))) or (isinstance(kw.get(s), str) and kw[s].startswith("$")):
            kw[s] = "x"
    kw["random_generator_state"] = np.random.default_rng(0).bit_generator.state
    disk = ((witness.get("$ghost") or {}).get("disk") or {}).get("$disk", {})
    with tempfile.TemporaryDirectory(prefix="pyvc_replay_") as d:
        folder = Path(d) / "ckpt"
        folder.mkdir()
        _materialise(folder, disk)
        kw["checkpoint_path"] = folder
        before = {p.name for p in folder.iterdir()}
        try:
            func(**kw)
        except Exception as e:  # noqa: BLE001
            return (f"save_calibrator_state raised {type(e).__name__}: {e} with the folder previously holding "
                    f"{sorted(before)} (series of shape {kw['series_samp'].shape})")
        import pickle

        import h5py
        import pandas as pd
        for leaf, arg in (("scheduler_pickled.pickle", "scheduler"), ("loss_function_pickled.pickle", "loss_function")):
            with (folder / leaf).open("rb") as f:
                got = pickle.load(f)
            if got != kw[arg]:
                return f"after save_calibrator_state {leaf} holds {got!r}, not the {arg} handed in; folder previously held {sorted(before)}"
        cp = json.loads((folder / "calibration_params.json").read_text())
        for k_ in ("ensemble_size", "N", "D", "verbose", "current_batch_index", "n_sampled_params", "n_jobs", "model_name",
                   "convergence_precision", "saving_file", "initial_random_seed"):
            if cp.get(k_) != kw[k_]:
                return f"after save_calibrator_state calibration_params.json has {k_}={cp.get(k_)!r}, handed in {kw[k_]!r}"
        cr = pd.read_csv(folder / "calibration_results.csv", float_precision="round_trip")
        for col in ("losses_samp", "batch_num_samp", "method_samp"):
            if not np.array_equal(cr[col].to_numpy(), kw[col]):
                return f"after save_calibrator_state the csv column {col} is {cr[col].tolist()}, handed in {kw[col].tolist()}"
        for d_ in range(kw["params_samp"].shape[1]):
            if not np.array_equal(cr[f"params_samp_{d_}"].to_numpy(), kw["params_samp"][:, d_]):
                return f"after save_calibrator_state the csv column params_samp_{d_} differs from column {d_} of the parameters"
        with h5py.File(folder / "series_samp.h5", "r") as f:
            got = f["data"][:]
        want = kw["series_samp"]
        if got.shape != want.shape or not np.array_equal(got, want):
            return (f"after save_calibrator_state the file series_samp.h5 holds an array of shape {got.shape}, the series "
                    f"handed in has shape {want.shape}; folder previously held {sorted(before)} "
                    f"(old dataset {json.dumps({k: np.shape(rt.from_witness(v)) for k, v in disk.get('series_samp.h5', {}).get('datasets', {}).items()})})")
    return None


REPLAY[f"{JP}::save_calibrator_state"] = replay_save


SQ = "black_it/utils/sqlite3_checkpointing.py"


def replay_sqlite_save(reg, key, witness):
    """The exception-safety obligation of the SQLite save: the solver's counter-model is a PATH (which statement fails),
    so the replay enumerates the fault positions on the real function: after a failed save the previous checkpoint must
    still load and be the previous one."""
    from runtime import scopes_ckpt
    for eff in ("user_version", "ddl", "delete", "insert", "commit"):
        msg = scopes_ckpt._c06_sqlite({"mode": "fault", "effect": eff})
        if msg and "did not fire" not in msg:
            return f"fault injected at '{eff}': {msg}"
    return None


REPLAY[f"{SQ}::save_calibrator_state"] = replay_sqlite_save
