"""Bounded stand-ins for checkpointing (C04 round trip, C06 interrupted save, C05 resume, C01 determinism).
Labelled `bounded`; never counted as proved."""
from __future__ import annotations

import os
import pickle
import random
import shutil
import struct
import warnings

import numpy as np

from runtime import e2e
from runtime.scopes import StandIn
from runtime.scopes_e2e import CHEAP, _lineup


def _bits(a):
    a = np.asarray(a)
    return (a.dtype.kind, a.shape, a.tobytes())


def same_array(a, b):
    a, b = np.asarray(a), np.asarray(b)
    return a.shape == b.shape and (a.tobytes() == b.tobytes() or np.array_equal(a, b, equal_nan=True) and
                                   a.dtype.kind != "f")


def deep_state(obj, depth=0):
    """Comparable snapshot of an object graph (attributes, numpy arrays bit-wise, generators by state)."""
    if depth > 6:
        return "..."
    if isinstance(obj, np.ndarray):
        return ("nd", obj.dtype.str, obj.shape, obj.tobytes())
    if isinstance(obj, np.random.Generator):
        return ("rng", repr(obj.bit_generator.state))
    if isinstance(obj, (int, float, str, bool, type(None), np.integer, np.floating)):
        return ("v", repr(obj))
    if isinstance(obj, (list, tuple)):
        return ("seq", tuple(deep_state(x, depth + 1) for x in obj))
    if isinstance(obj, dict):
        return ("map", tuple(sorted((str(k), deep_state(v, depth + 1)) for k, v in obj.items())))
    if callable(obj) and not hasattr(obj, "__dict__"):
        return ("fn", getattr(obj, "__name__", "?"))
    d = getattr(obj, "__dict__", None)
    if d is None:
        return ("o", type(obj).__name__)
    skip = ("_xg_regressor", "_classifier", "_gpmodel", "log", "sample")
    return ("obj", type(obj).__name__, tuple(sorted((k, deep_state(v, depth + 1)) for k, v in d.items()
                                                    if k not in skip)))


ATTRS = ["params_samp", "losses_samp", "series_samp", "batch_num_samp", "method_samp"]
SCALARS = ["n_sampled_params", "current_batch_index", "ensemble_size", "N", "D", "convergence_precision", "verbose",
           "saving_folder", "random_state", "n_jobs"]


def compare_calibrators(a, b):
    for k in ATTRS:
        x, y = getattr(a, k), getattr(b, k)
        if np.asarray(x).shape != np.asarray(y).shape:
            return f"{k}: shape {np.asarray(x).shape} saved, {np.asarray(y).shape} restored"
        if np.asarray(x, dtype=float).tobytes() != np.asarray(y, dtype=float).tobytes():
            xa, ya = np.asarray(x, dtype=float).ravel(), np.asarray(y, dtype=float).ravel()
            i = int(np.flatnonzero(~((xa == ya) | (np.isnan(xa) & np.isnan(ya))))[0]) if xa.shape == ya.shape and \
                np.any(~((xa == ya) | (np.isnan(xa) & np.isnan(ya)))) else -1
            if i >= 0:
                tag = "[csv-float-parse] " if k in ("params_samp", "losses_samp") and \
                    abs(xa[i] - ya[i]) <= 4 * np.spacing(abs(xa[i])) else ""
                return f"{tag}{k}[{i}]: saved {xa[i]!r}, restored {ya[i]!r}"
    for k in SCALARS:
        if getattr(a, k) != getattr(b, k):
            return f"{k}: saved {getattr(a, k)!r}, restored {getattr(b, k)!r}"
    if repr(a.random_generator.bit_generator.state) != repr(b.random_generator.bit_generator.state):
        return "random generator state differs"
    for k in ("parameters_bounds", "parameters_precision"):
        if not same_array(getattr(a.param_grid, k), getattr(b.param_grid, k)):
            return f"search space {k} differs"
    if not same_array(a.real_data, b.real_data):
        return "real data differ"
    if deep_state(a.scheduler) != deep_state(b.scheduler):
        return "scheduler / sampler internal state differs"
    if deep_state(a.loss_function) != deep_state(b.loss_function):
        return "loss configuration differs"
    return None


def nasty_floats(rnd, n):
    out = []
    for _ in range(n):
        c = rnd.random()
        if c < 0.5:
            out.append(struct.unpack("<d", struct.pack("<Q", rnd.getrandbits(62) | (rnd.getrandbits(1) << 63)))[0])
        elif c < 0.7:
            out.append(rnd.choice([5e-324, 2.2250738585072014e-308, 1.7976931348623157e308, 0.1, 0.3, 1 / 3, 2 / 3,
                                   9007199254740993.0, 0.30000000000000004, 1e23, 8.41e21, 2.2250738585072011e-308]))
        else:
            out.append(rnd.uniform(-1, 1) * 10 ** rnd.randint(-20, 20))
    return [x for x in out if np.isfinite(x)]


# ================================================================================================ C04

def _c04f_cases(tier, seed):
    rnd = random.Random(seed + 4)
    for i in range(6 if tier == "quick" else 60):
        # (every third tuple: a 12-parameter space - column names params_samp_10, _11 sort before params_samp_2)
        yield {"rs": rnd.randrange(10 ** 9), "n": 300 if tier == "quick" else 3000, "P": 12 if i % 3 == 1 else 2}


def _c04f_check(reg, case):
    """load(save(x)) on both back-ends, bit-wise, with adversarial doubles in parameters / losses / series."""
    from black_it.utils import json_pandas_checkpointing as jp
    from black_it.utils import sqlite3_checkpointing as sq
    rnd = random.Random(case["rs"])
    n = case["n"]
    P = case.get("P", 2)
    params = np.array(nasty_floats(rnd, P * n + 50)[: P * n]).reshape(n, P)
    losses = np.array(nasty_floats(rnd, n + 50)[:n])
    # losses of a diverging model / an undefined loss: NaN, +-inf (and the negative zero) are values like any other
    for v in (np.nan, np.inf, -np.inf, -0.0, np.nan):
        losses[rnd.randrange(n)] = v
    series = np.array(nasty_floats(rnd, n * 2 * 3 + 50)[: n * 6]).reshape(n, 2, 3, 1)
    for v in (np.nan, np.inf, -np.inf, -0.0):
        series[rnd.randrange(n), rnd.randrange(2), rnd.randrange(3), 0] = v
    batch = np.arange(n) // 3
    method = np.arange(n) % 2
    sched, loss = {"k": 1}, {"l": 2}
    rng_state = np.random.default_rng(rnd.randrange(1000)).bit_generator.state
    args = [np.array([[0.0] * P, [1.0] * P]), np.array([0.01] * P), np.array([[1.0], [2.0], [3.0]]), 2, 3, 1, 3,
            True, "folder", 7, rng_state, "model", sched, loss, 5, n, 2, params, losses, series, batch, method]
    with e2e.tmp_folder() as d:
        jp.save_calibrator_state(d, *args)
        out = jp.load_calibrator_state(d, 0)
        for idx, name in ((17, "params_samp"), (18, "losses_samp"), (19, "series_samp"), (20, "batch_num_samp"),
                          (21, "method_samp")):
            x, y = np.asarray(args[idx]), np.asarray(out[idx])
            if x.shape != y.shape:
                return f"json back-end {name}: shape {x.shape} -> {y.shape}"
            if x.astype(float).tobytes() != y.astype(float).tobytes():
                xa, ya = x.astype(float).ravel(), y.astype(float).ravel()
                i = int(np.flatnonzero(xa != ya)[0])
                tag = "[csv-float-parse] " if name in ("params_samp", "losses_samp") else ""
                return f"{tag}json back-end {name}[{i}]: saved {xa[i]!r} ({xa[i].hex()}), loaded {ya[i]!r} ({ya[i].hex()})"
        for idx in (3, 4, 5, 6, 7, 8, 9, 11, 14, 15, 16):
            if out[idx] != args[idx]:
                return f"json back-end component {idx}: saved {args[idx]!r}, loaded {out[idx]!r}"
        if repr(out[10]) != repr(rng_state):
            return "json back-end: generator state differs"
    with e2e.tmp_folder() as d:
        sargs = args[:15] + args[17:]
        # the folder already holds an earlier (different) checkpoint: load must return the LATEST saved state
        earlier = list(sargs)
        earlier[11], earlier[14] = "earlier-model", 1
        earlier[15:] = [a[:3] for a in sargs[15:]]
        sq.save_calibrator_state(d, *earlier)
        sq.save_calibrator_state(d, *sargs)
        out = sq.load_calibrator_state(d)
        for k, (x, y) in enumerate(zip(sargs, out)):
            if isinstance(x, np.ndarray):
                if np.asarray(y).shape != x.shape or np.asarray(y).tobytes() != x.tobytes():
                    return f"sqlite back-end component {k}: array differs after load"
            elif isinstance(x, dict):
                if repr(x) != repr(y) and x != y:
                    return f"sqlite back-end component {k}: {x!r} -> {y!r}"
            elif x != y:
                return f"sqlite back-end component {k}: saved {x!r}, loaded {y!r}"
    return None


StandIn("C04/codec-roundtrip", "C04",
        "6 seeded tuples with 300 adversarial doubles each in parameters / losses / series (random bit patterns, "
        "subnormals, 17-digit boundary cases, scales 1e-20..1e20; NaN, +-inf and -0.0 among losses and series) through save/load of the JSON/CSV/HDF5 and the SQLite "
        "back-end, compared bit-wise component by component", "60 tuples x 3000 doubles", _c04f_cases, _c04f_check)


def _c04c_cases(tier, seed):
    rnd = random.Random(seed + 40)
    kinds = ["halton", "random", "rseq", "best", "pso", "rf", "xgb", "gp", "cors"]
    n = 9 if tier == "quick" else 45
    for i in range(n):
        k = kinds[i % len(kinds)]
        lineup = [("halton", 3)] + [(k, rnd.randint(1, 3))] + \
            ([(rnd.choice(CHEAP), rnd.randint(1, 2))] if rnd.random() < 0.5 else [])
        yield {"lineup": lineup, "E": rnd.choice([1, 2]), "seed": rnd.randrange(1000), "batches": rnd.randint(0, 3),
               "prior": ["nothing", "same-run", "other-run-longer", "other-run-shorter"][i % 4], "dims": 2,
               # every third calibrator is restored from the checkpoint calibrate() itself wrote at its last batch
               "explicit": i % 3 != 1}


def _c04c_check(reg, case):
    from black_it.calibrator import Calibrator
    with e2e.tmp_folder() as d, warnings.catch_warnings():
        warnings.simplefilter("ignore")
        if case["prior"].startswith("other-run"):
            from black_it.loss_functions.minkowski import MinkowskiLoss
            other = {"lineup": [("random", 3), ("rseq", 1)], "E": case["E"], "seed": 999, "folder": d, "dims": 2}
            oc, *_ = e2e.make_calibrator(other, model=e2e.pure_model, loss=MinkowskiLoss(p=1, coordinate_weights=np.array([2.0])))
            with e2e.quiet():
                oc.calibrate(4 if "longer" in case["prior"] else 1)
        cfg = dict(case)
        cfg["folder"] = d
        cal, *_ = e2e.make_calibrator(cfg, model=e2e.pure_model)
        with e2e.quiet():
            if case["prior"] == "same-run":
                cal.calibrate(1)
            if case["batches"]:
                cal.calibrate(case["batches"])
            if case.get("explicit", True) or not case["batches"]:
                cal.create_checkpoint(d)
            r = Calibrator.restore_from_checkpoint(d, model=e2e.pure_model)
        msgs = []
        msg = compare_calibrators(cal, r)
        if msg and "series_samp" in msg and case["prior"].startswith("other-run"):
            msgs.append("[stale-series-file] " + msg)
            # known limitation: keep looking at everything else with the series put aside
            r.series_samp = cal.series_samp
            msg = compare_calibrators(cal, r)
        if msg:
            msgs.insert(0, msg)
        if msgs:
            return f"{msgs[0]} (line-up {case['lineup']}, {case['batches']} batches, folder held: {case['prior']})"
    return None


StandIn("C04/calibrator-roundtrip", "C04",
        "9 seeded calibrators (one per built-in sampler kind in the line-up, 0-3 batches) checkpointed into a folder that "
        "held nothing / an earlier checkpoint of the same run / a longer or shorter checkpoint of another run (explicit "
        "create_checkpoint, or - every third - the checkpoint calibrate() wrote when it returned), restored and "
        "compared attribute by attribute (arrays bit-wise, generator state, scheduler + sampler object graph, loss)",
        "45 calibrators", _c04c_cases, _c04c_check)


def _c04r_cases(tier, seed):
    yield {"seed": 1}


def _c04r_check(reg, case):
    from black_it.calibrator import Calibrator
    from runtime.scopes_e2e import _build
    with e2e.tmp_folder() as d:
        c = {"lineup": [("halton", 2), ("random", 2)], "E": 1, "dims": 2, "seed": case["seed"], "nb": 2, "site": "model",
             "k": 0, "rl": True, "folder": True}
        cal = _build(c, d, None)
        try:
            with e2e.quiet():
                cal.calibrate(2)
                r = Calibrator.restore_from_checkpoint(d, model=cal.model)
        except Exception as e:  # noqa: BLE001
            return f"[rl-scheduler-not-picklable] a calibrator with the RL scheduler and a saving folder cannot checkpoint: {type(e).__name__}: {e}"
        return compare_calibrators(cal, r)


StandIn("C04/rl-scheduler-checkpoint", "C04", "one RL-scheduler calibrator with a saving folder, 2 batches", "same",
        _c04r_cases, _c04r_check)


# ================================================================================================ C06

class Fault(Exception):
    pass


def _c06_cases(tier, seed):
    # effects of the JSON back-end save, in order; each one may fail before / in the middle of its write
    for eff in ("json", "sched", "loss", "csv", "h5"):
        for mode in ("raise-before", "truncate"):
            yield {"backend": "json", "effect": eff, "mode": mode}
    for stmt in ("user_version", "ddl", "adapter", "insert", "commit"):
        yield {"backend": "sqlite", "effect": stmt, "mode": "raise"}
    # fault SEQUENCES: an interrupted save followed by a complete one must restore exactly the latest state
    for eff in ("json", "sched", "loss", "csv", "h5", "h5resize"):
        # ("h5resize": the series file is open, the failure comes when the dataset is to be extended - e.g. disk full)
        yield {"backend": "json", "effect": eff, "mode": "raise-before", "then_complete": True}
    # the FIRST save into an empty folder, interrupted in each file (cut in the middle / the results table cut at every
    # line end): nothing complete is on disk, the restore must fail
    for eff in ("json", "sched", "loss", "csv", "h5"):
        yield {"backend": "json", "effect": eff, "mode": "truncate", "first": True}
    for k in range(0, 7):
        yield {"backend": "json", "effect": "csv", "mode": "truncate", "first": True, "cut_lines": k}
    # a large previous checkpoint (several MB, beyond SQLite's page cache) and a process that DIES inside the save
    yield {"backend": "sqlite", "effect": "adapter", "mode": "raise", "big": True}
    yield {"backend": "sqlite", "effect": "adapter", "mode": "die", "big": True}


def _snapshot(cal):
    return {k: np.array(getattr(cal, k), copy=True) for k in ATTRS} | \
        {k: getattr(cal, k) for k in ("n_sampled_params", "current_batch_index")} | \
        {"rng": repr(cal.random_generator.bit_generator.state), "sched": deep_state(cal.scheduler)}


def _snap_equal(a, b):
    for k in ATTRS:
        if np.asarray(a[k]).shape != np.asarray(b[k]).shape or not np.array_equal(a[k], b[k], equal_nan=True):
            return False
    return all(a[k] == b[k] for k in ("n_sampled_params", "current_batch_index", "rng", "sched"))


def _c06_check(reg, case):
    if case["backend"] == "sqlite":
        return _c06_sqlite(case)
    import json as _json

    import h5py
    import pandas as pd
    from black_it.calibrator import Calibrator
    from black_it.utils import json_pandas_checkpointing as jp
    with e2e.tmp_folder() as d:
        first = bool(case.get("first"))
        cfg = {"lineup": [("halton", 2), ("random", 3)], "E": 1, "seed": 5, "folder": None if first else d, "dims": 2}
        cal, *_ = e2e.make_calibrator(cfg, model=e2e.pure_model)
        with e2e.quiet():
            cal.calibrate(2)                      # complete checkpoint S_old on disk (not for a FIRST save)
        old = _snapshot(cal)
        cal.saving_folder = None
        with e2e.quiet():
            cal.calibrate(2)                      # state S_new in memory only
        new = _snapshot(cal)
        eff, mode = case["effect"], case["mode"]
        files = {"json": "calibration_params.json", "sched": "scheduler_pickled.pickle",
                 "loss": "loss_function_pickled.pickle", "csv": "calibration_results.csv", "h5": "series_samp.h5"}
        orig = {"json": _json.dump, "pickle": pickle.dump, "csv": pd.DataFrame.to_csv, "h5": h5py.File}
        count = {"pickle": 0}

        def boom(path):
            if mode == "truncate" and path and os.path.exists(path):
                size = os.path.getsize(path)
                keep = max(1, size // 2)
                if case.get("cut_lines") is not None:     # the text file cut after its k-th line
                    data = open(path, "rb").read()
                    ends = [i + 1 for i, b in enumerate(data) if b == 10]
                    keep = ends[min(case["cut_lines"], len(ends) - 1)] if ends else keep
                    if keep >= size:
                        keep = ends[-2] if len(ends) >= 2 else 1
                with open(path, "r+b") as f:
                    f.truncate(keep)
            raise Fault(f"injected crash at {eff}/{mode}")

        def j(obj, f, **kw):
            if eff == "json":
                if mode == "truncate":
                    orig["json"](obj, f, **kw)
                    f.flush()
                    boom(os.path.join(d, files["json"]))
                boom(None)
            return orig["json"](obj, f, **kw)

        def p(obj, f, *a, **kw):
            count["pickle"] += 1
            which = "sched" if count["pickle"] == 1 else "loss"
            if eff == which:
                if mode == "truncate":
                    orig["pickle"](obj, f, *a, **kw)
                    f.flush()
                    boom(os.path.join(d, files[which]))
                boom(None)
            return orig["pickle"](obj, f, *a, **kw)

        def c(self, path, *a, **kw):
            if eff == "csv":
                if mode == "truncate":
                    orig["csv"](self, path, *a, **kw)
                    boom(str(path))
                boom(None)
            return orig["csv"](self, path, *a, **kw)

        class H5(h5py.File):
            def __init__(self, name, mode="r", **kw):
                if eff == "h5" and mode in ("a", "w"):
                    if case["mode"] == "truncate":
                        super().__init__(name, mode=mode, **kw)
                        if "data" in self:
                            ds = self["data"]
                            ds.resize((ds.shape[0] + 2,) + ds.shape[1:])   # resized but the new rows never written
                        self.close()                                       # (a first save: created, dataset never written)
                    raise Fault("injected crash at h5")
                super().__init__(name, mode=mode, **kw)
        _json.dump, pickle.dump, pd.DataFrame.to_csv, h5py.File = j, p, c, H5
        jp.json.dump, jp.pickle.dump, jp.h5py.File = j, p, H5
        orig_resize = h5py.Dataset.resize
        if eff == "h5resize":
            def failing_resize(self, *a, **kw):  # noqa: ARG001
                raise Fault("injected crash at h5 resize")
            h5py.Dataset.resize = failing_resize
        try:
            try:
                cal.create_checkpoint(d)
                return "the injected fault did not fire"
            except Fault:
                pass
        finally:
            _json.dump, pickle.dump, pd.DataFrame.to_csv, h5py.File = orig["json"], orig["pickle"], orig["csv"], orig["h5"]
            jp.json.dump, jp.pickle.dump, jp.h5py.File = orig["json"], orig["pickle"], orig["h5"]
            h5py.Dataset.resize = orig_resize
        if case.get("then_complete"):
            with e2e.quiet():
                cal.create_checkpoint(d)          # the next, complete, save of the current state
            with e2e.quiet():
                r = Calibrator.restore_from_checkpoint(d, model=e2e.pure_model)
            got = _snapshot(r)
            if not _snap_equal(got, new):
                lens = [len(got[k]) for k in ATTRS]
                return (f"a complete save after a save interrupted at {eff} does not restore the saved state: counters "
                        f"n={got['n_sampled_params']} batch={got['current_batch_index']} record lengths {lens}, saved "
                        f"n={new['n_sampled_params']}")
            return None
        try:
            with e2e.quiet():
                r = Calibrator.restore_from_checkpoint(d, model=e2e.pure_model)
        except Exception:  # noqa: BLE001
            return None  # restore fails with an error: acceptable
        got = _snapshot(r)
        if (not first and _snap_equal(got, old)) or _snap_equal(got, new):
            return None
        lens = [len(got[k]) for k in ATTRS]
        if first:
            return (f"FIRST save into an empty folder interrupted at {eff} ({mode}, cut_lines={case.get('cut_lines')}): the "
                    f"restore succeeds although no complete checkpoint was ever written - counters "
                    f"n={got['n_sampled_params']}, batch={got['current_batch_index']}, record lengths {lens} "
                    f"(the interrupted save was of n={new['n_sampled_params']})")
        return (f"[json-backend-hybrid] save interrupted at {eff} ({mode}): restore succeeds with a mixture - counters "
                f"n={got['n_sampled_params']}, batch={got['current_batch_index']}, record lengths {lens} "
                f"(old checkpoint: n={old['n_sampled_params']}, new: n={new['n_sampled_params']})")


def _c06_sqlite(case):
    import sqlite3

    from black_it.utils import sqlite3_checkpointing as sq
    rng_state = np.random.default_rng(1).bit_generator.state

    big = case.get("big")

    def args(n, tag):
        series = np.zeros((n, 2, 3, 1))
        if big:   # incompressible, several MB
            series = np.random.default_rng(n).normal(size=(n, 2, 200000 if n == 2 else 3, 1))
        return [np.array([[0.0], [1.0]]), np.array([0.1]), np.ones((3, 1)), 2, 3, 1, 3, True, "f", 7, rng_state, tag,
                {"s": n}, {"l": n}, n, np.full((n, 1), 0.5), np.arange(n, dtype=float), series,
                np.arange(n), np.arange(n) % 2]
    if case["mode"] == "die":
        return _c06_sqlite_die(args)
    with e2e.tmp_folder() as d:
        sq.save_calibrator_state(d, *args(2, "old"))
        eff = case["effect"]
        real_connect = sqlite3.connect

        class Cur:
            def __init__(self, cur):
                self.c = cur

            def execute(self, sql, *a):
                s = sql.upper()
                if (eff == "user_version" and "USER_VERSION=" in s.replace(" ", "")) or (eff == "insert" and "INSERT" in s) \
                        or (eff == "delete" and "DELETE" in s):
                    raise Fault(eff)
                return self.c.execute(sql, *a)

            def executescript(self, sql):
                if eff == "ddl":
                    raise Fault(eff)
                return self.c.executescript(sql)

            def __getattr__(self, k):
                return getattr(self.c, k)

        class Conn:
            def __init__(self, conn):
                self.k = conn

            def cursor(self):
                return Cur(self.k.cursor())

            def commit(self):
                if eff == "commit":
                    raise Fault(eff)
                return self.k.commit()

            def __getattr__(self, k):
                return getattr(self.k, k)
        bad_series = args(4, "new")
        if eff == "adapter":
            class Evil(np.ndarray):
                pass
            # an array whose serialisation raises inside the INSERT (adapter failure)
            orig_adapter = sq.npndarray_to_sqlite_binary

            def failing(a):
                raise MemoryError("injected adapter failure")
            sqlite3.register_adapter(np.ndarray, failing)
        sq.sqlite3.connect = lambda *a, **k: Conn(real_connect(*a, **k))
        try:
            try:
                sq.save_calibrator_state(d, *bad_series)
                return "the injected fault did not fire"
            except (Fault, MemoryError):
                pass
        finally:
            sq.sqlite3.connect = real_connect
            if eff == "adapter":
                sqlite3.register_adapter(np.ndarray, orig_adapter)
        try:
            out = sq.load_calibrator_state(d)
        except Exception as e:  # noqa: BLE001
            return (f"[sqlite-delete-outside-transaction] after a save that failed at '{eff}' the previous checkpoint is "
                    f"no longer loadable: {type(e).__name__}: {e}")
        if out[11] != "old" or out[14] != 2 or len(out[16]) != 2:
            return f"after a failed save at '{eff}' the table holds model={out[11]!r}, batch={out[14]!r}, {len(out[16])} rows"
    return None


def _c06_sqlite_die(args):
    """The writing PROCESS dies (os._exit) inside the INSERT of the second save; the previous checkpoint must load."""
    import subprocess
    import sys as _sys
    import textwrap

    from black_it.utils import sqlite3_checkpointing as sq
    with e2e.tmp_folder() as d:
        sq.save_calibrator_state(d, *args(2, "old"))
        code = textwrap.dedent(f"""
            import os, sys, sqlite3
            sys.path.insert(0, {os.environ.get('PYVC_REPO', '/repo')!r})
            import numpy as np
            from black_it.utils import sqlite3_checkpointing as sq
            calls = [0]
            orig = sq.npndarray_to_sqlite_binary
            def dying(a):
                calls[0] += 1
                if calls[0] >= 4:
                    os._exit(9)
                return orig(a)
            sqlite3.register_adapter(np.ndarray, dying)
            rng_state = np.random.default_rng(1).bit_generator.state
            n = 4
            sq.save_calibrator_state({d!r}, np.array([[0.0], [1.0]]), np.array([0.1]), np.ones((3, 1)), 2, 3, 1, 3, True,
                "f", 7, rng_state, "new", {{"s": n}}, {{"l": n}}, n, np.full((n, 1), 0.5), np.arange(n, dtype=float),
                np.zeros((n, 2, 3, 1)), np.arange(n), np.arange(n) % 2)
        """)
        rc = subprocess.run([_sys.executable, "-c", code], capture_output=True, text=True, timeout=120).returncode
        if rc != 9:
            return None   # the child did not die where intended: nothing to judge
        try:
            out = sq.load_calibrator_state(d)
        except Exception as e:  # noqa: BLE001
            return f"after the writing process died inside a save the previous checkpoint cannot be loaded: {type(e).__name__}: {e}"
        if out[11] != "old" or out[14] != 2:
            return f"after the writing process died the table holds model={out[11]!r}, batch={out[14]!r}"
    return None


StandIn("C06/interrupted-save", "C06",
        "JSON back-end: a crash injected before / in the middle of each of the 5 file writes (10 cases) on top of a "
        "complete earlier checkpoint, then restore: error, or exactly the old or the new state; SQLite back-end: an "
        "exception at each of 5 statements (user_version, DDL script, adapter, INSERT, commit), then the previous "
        "checkpoint must load - also with a multi-MB previous checkpoint and with the writing process killed inside the "
        "INSERT; fault sequences: an interrupted save followed by a complete save restores exactly the latest state",
        "same (the effect list is finite and enumerated completely)", _c06_cases, _c06_check)


# ================================================================================================ C01 / C05

ALL9 = ["halton", "random", "rseq", "best", "pso", "rf", "xgb", "gp", "cors"]


def _mixed_lineup(rnd, i, n_extra=None):
    """First sampler history-free with >= 3 rows, then a line-up that contains sampler kind i and random others."""
    k = ALL9[i % len(ALL9)]
    extra = [rnd.choice(ALL9 if rnd.random() < 0.3 else CHEAP) for _ in range(rnd.randint(0, 2) if n_extra is None else n_extra)]
    out = [("halton", 3)]
    have = 3
    for kk in [k] + extra:
        b = rnd.randint(1, 3)
        if kk == "best":
            b = min(b, have)
        out.append((kk, b))
        have += b
    return out


def _run(case, seed, *, ctor_seed=None, n_jobs=1, verbose=False, folder=None, segments=None, restore=(), rl=False):
    """Run one calibration life; segments = list of batch counts; restore = indices of boundaries crossed by
    checkpoint/restore instead of a plain second calibrate() call."""
    from black_it.calibrator import Calibrator
    samplers = [e2e.make_sampler(k, b, seed=ctor_seed) for k, b in case["lineup"]]
    scheduler = None
    if rl:
        from black_it.schedulers.rl.agents.epsilon_greedy import MABEpsilonGreedy
        from black_it.schedulers.rl.envs.mab import MABCalibrationEnv
        from black_it.schedulers.rl.rl_scheduler import RLScheduler
        scheduler = RLScheduler(samplers, MABEpsilonGreedy(len(samplers), 0.2, 0.3, random_state=ctor_seed),
                                MABCalibrationEnv(len(samplers)), random_state=ctor_seed)
    cfg = {"E": case["E"], "dims": case.get("dims", 2), "seed": seed, "n_jobs": n_jobs, "verbose": verbose,
           "folder": folder, "N": 8}
    loss = None
    if case.get("loss") == "msm":
        from black_it.loss_functions.msm import MethodOfMomentsLoss
        loss = MethodOfMomentsLoss()
    elif case.get("loss") == "fourier":
        from black_it.loss_functions.fourier import FourierLoss
        loss = FourierLoss()
    cal, *_ = e2e.make_calibrator(cfg, model=e2e.clamping_model if case.get("model") == "clamp" else e2e.pure_model,
                                  loss=loss, samplers=None if rl else samplers, scheduler=scheduler)
    ret = None
    segments = segments or [case["nb"]]
    with warnings.catch_warnings():
        warnings.simplefilter("ignore")
        for i, nb in enumerate(segments):
            if i > 0 and (i - 1) in restore:
                with e2e.quiet():
                    cal = Calibrator.restore_from_checkpoint(folder, model=e2e.pure_model)
            with e2e.quiet():
                ret = cal.calibrate(nb)
    return e2e.history(cal), ret


def _c01_cases(tier, seed):
    rnd = random.Random(seed + 1)
    n = 9 if tier == "quick" else 54
    for i in range(n):
        yield {"lineup": _mixed_lineup(rnd, i), "E": rnd.choice([1, 2]), "nb": rnd.randint(3, 5), "seed": rnd.randrange(10 ** 6),
               "dims": rnd.choice([1, 2, 3]), "loss": rnd.choice([None, None, "msm", "fourier"]),
               "variant": ["twin", "ctor_seed", "verbose", "folder", "n_jobs", "rl"][i % 6]}
    # a model that writes into the parameter vector it is handed: n_jobs = 1 (same process) against workers
    for E in (1, 2):
        yield {"lineup": [("halton", 3), ("random", 2), ("best", 2)], "E": E, "nb": 3, "seed": rnd.randrange(10 ** 6),
               "dims": 2, "loss": None, "variant": "n_jobs", "model": "clamp"}
    # boundary seed 0 with differing constructor seeds, and sampler OBJECTS reused by a second calibrator
    yield {"lineup": [("halton", 3), ("best", 2), ("random", 2)], "E": 1, "nb": 4, "seed": 0, "dims": 2, "loss": None,
           "variant": "ctor_seed"}
    yield {"lineup": [("halton", 3), ("best", 2), ("rseq", 2)], "E": 1, "nb": 4, "seed": 0, "dims": 2, "loss": None,
           "variant": "twin"}
    for i in range(3 if tier == "quick" else 9):
        yield {"lineup": _mixed_lineup(rnd, [3, 4, 8, 0, 2, 5, 6, 1, 7][i]), "E": 1, "nb": 4, "seed": rnd.randrange(10 ** 6),
               "dims": 2, "loss": None, "variant": "reuse"}


def _c01_reuse(case):
    """The same sampler objects serve a first calibration, then a second one with the same seed: the second must equal
    a run on fresh objects (a reseed erases everything a sampler kept from its previous life that depends on seeds)."""
    samplers = [e2e.make_sampler(k, b, seed=3) for k, b in case["lineup"]]
    fresh, _ = _run(case, case["seed"], ctor_seed=4)
    out = []
    for _life in range(2):
        for smp in samplers:      # samplers that document an explicit reset() are reset between lives
            if hasattr(smp, "reset"):
                smp.reset()
            if hasattr(smp, "_batch_id"):
                smp._batch_id = 0   # noqa: SLF001  (CORS keeps a batch counter: a new life starts at 0)
        cfg = {"E": case["E"], "dims": case.get("dims", 2), "seed": case["seed"], "N": 8}
        cal, *_ = e2e.make_calibrator(cfg, model=e2e.pure_model, samplers=samplers)
        with warnings.catch_warnings():
            warnings.simplefilter("ignore")
            with e2e.quiet():
                cal.calibrate(case["nb"])
        out.append(e2e.history(cal))
    m = e2e.same_history(fresh, out[1])
    if m:
        return f"a second calibration re-using the sampler objects (same seed) differs from a run on fresh objects: {m}; line-up {case['lineup']}"
    return None


def _c01_check(reg, case):
    v = case["variant"]
    if v == "reuse":
        return _c01_reuse(case)
    with e2e.tmp_folder() as d:
        rl = v == "rl"
        if rl and any(k in ("pso", "cors", "gp") for k, _ in case["lineup"]):
            case = dict(case, lineup=[("halton", 3), ("random", 2), ("best", 2)])
        base, bret = _run(case, case["seed"], ctor_seed=1, rl=rl)
        kw = {"ctor_seed": 1, "rl": rl}
        if v == "ctor_seed":
            kw["ctor_seed"] = 2
        elif v == "verbose":
            kw["verbose"] = True
        elif v == "folder":
            kw["folder"] = d
        elif v == "n_jobs":
            kw["n_jobs"] = 2
        other, oret = _run(case, case["seed"], **kw)
        m = e2e.same_history(base, other)
        if m:
            return f"two runs with the same configuration and seed differ ({v}): {m}; line-up {case['lineup']}"
        if not (np.array_equal(bret[0], oret[0]) and np.array_equal(bret[1], oret[1], equal_nan=True)):
            return f"return values differ ({v})"
    return None


StandIn("C01/determinism", "C01",
        "9 seeded configurations (every built-in sampler once in a line-up of 2-4, 1-3 parameters, ensemble 1-2, three "
        "losses, 3-5 batches), each run twice with one thing varied: nothing / sampler constructor seeds / verbose / saving "
        "folder / n_jobs 1 vs 2 / RL scheduler (single session); histories and return values compared bit-wise",
        "54 configurations", _c01_cases, _c01_check)


def _compositions(n):
    if n == 0:
        yield []
        return
    for first in range(1, n + 1):
        for rest in _compositions(n - first):
            yield [first] + rest


def _c05_cases(tier, seed):
    rnd = random.Random(seed + 5)
    kinds = ALL9 if tier != "quick" else ["halton", "best", "pso", "cors", "xgb", "rseq"]
    n = 6   # with two samplers every one of them runs three times: state carried across TWO of its own batches
    for _k in kinds:
        lineups = [[("halton", 3), (_k, rnd.randint(1, 3))]]
        if _k == "pso":
            lineups.append([("pso", 4), ("random", 2)])
        for lineup in lineups:
            if lineup[1][0] == "best":
                lineup[1] = ("best", min(lineup[1][1], 3))
            # every single cut position as a restore boundary, plus seeded multi-cut compositions
            cuts = [[k, n - k] for k in range(1, n)]
            chosen = [(c, [0]) for c in (cuts if tier != "quick" else rnd.sample(cuts, 3))]
            comps = [c for c in _compositions(n) if len(c) > 2]
            for comp in rnd.sample(comps, 2 if tier == "quick" else 12):
                nb = len(comp) - 1
                chosen.append((comp, [j for j in range(nb) if rnd.random() < 0.6]))
                chosen.append((comp, []))            # plain repeated calibrate() calls on the live object
            for comp, mask in chosen:
                yield {"lineup": lineup, "E": 1, "nb": n, "seed": rnd.randrange(10 ** 6), "segments": comp,
                       "restore": mask, "dims": 2}


def _c05_check(reg, case):
    with e2e.tmp_folder() as d, e2e.tmp_folder() as d2:
        full, _ = _run(case, case["seed"], folder=d2, segments=[case["nb"]])
        cut, _ = _run(case, case["seed"], folder=d, segments=case["segments"], restore=tuple(case["restore"]))
        m = e2e.same_history(full, cut)
        if m:
            return (f"{case['nb']} batches cut as {case['segments']} (restore at boundaries {case['restore']}) differ from "
                    f"the uninterrupted run: {m}; line-up {case['lineup']}")
    return None


StandIn("C05/resume", "C05",
        "7 two-sampler line-ups (Halton + one of halton/best/pso/cors/xgb/rseq, and pso + random), 6 batches (each sampler "
        "runs three times): 3 seeded single cuts crossed by checkpoint/restore plus 2 seeded multi-cut compositions, each "
        "with seeded restore boundaries and with plain repeated calibrate() calls; history compared bit-wise with the "
        "uninterrupted run", "10 line-ups (all nine samplers), every single cut, 12 multi-cut compositions",
        _c05_cases, _c05_check)
