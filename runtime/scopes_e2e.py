"""Bounded stand-ins at the level of the real Calibrator (labelled `bounded`; never counted as proved)."""
from __future__ import annotations

import random

import numpy as np

from runtime import e2e
from runtime.scopes import StandIn

CHEAP = ["halton", "random", "rseq", "best"]


def _lineup(rnd, n=None, kinds=CHEAP, first_history_free=True):
    n = n or rnd.randint(1, 4)
    out = []
    for i in range(n):
        k = rnd.choice(kinds)
        if i == 0 and first_history_free and k in ("best", "pso", "rf", "xgb", "gp", "cors"):
            k = "halton"
        out.append((k, rnd.randint(1, 4)))
    return out


# ================================================================================================ C02 / C09

def _c02_cases(tier, seed):
    rnd = random.Random(seed)
    n = 10 if tier == "quick" else 80
    for _ in range(n):
        yield {"lineup": _lineup(rnd), "E": rnd.choice([1, 2, 3]), "N": rnd.choice([5, 12]), "dims": rnd.choice([1, 2, 3]),
               "seed": rnd.randrange(1000), "calls": [rnd.randint(1, 3) for _ in range(rnd.randint(1, 3))],
               "kind": rnd.choice(["normal", "normal", "extreme"])}


def _c02_check(reg, case):
    model = e2e.Model(D=1, kind=case["kind"])
    cfg = dict(case)
    cfg["pr"] = [0.01] * case["dims"]
    cal, model, loss, samplers = e2e.make_calibrator(cfg, model=model)
    slog = e2e.SampleLog(samplers)
    table = dict(cal.samplers_id_table)
    prev = None
    total_batches = 0
    for nb in case["calls"]:
        with e2e.quiet():
            ret = cal.calibrate(nb)
        total_batches += nb
        msg = e2e.aligned(cal)
        if msg:
            return msg
        h = e2e.history(cal)
        if prev is not None:
            m = e2e.same_history(prev, h, upto=prev["n"])
            if m:
                return f"recorded rows changed after a later calibrate(): {m}"
        prev = h
        # return value: recorded pairs by increasing loss
        rp, rl = ret
        if len(rl) != h["n"] or any(rl[i] > rl[i + 1] for i in range(len(rl) - 1) if not np.isnan(rl[i + 1])):
            return "returned losses are not sorted / wrong length"
        got = sorted((float(l), tuple(p)) for p, l in zip(rp, rl))
        exp = sorted((float(l), tuple(p)) for p, l in zip(h["params"], h["losses"]))
        if got != exp and not any(np.isnan(x[0]) for x in exp):
            return "returned pairs are not the recorded (parameter, loss) pairs"
    h = prev
    if len(slog.log) != total_batches:
        return f"{len(slog.log)} sampler invocations for {total_batches} batches"
    E, N = cal.ensemble_size, cal.N
    row = 0
    call = 0
    n_s = len(samplers)
    for b, (si, proposed) in enumerate(slog.log):
        if si != b % n_s:
            return f"batch {b} was produced by sampler {si}, expected {b % n_s} (round robin)"
        if len(proposed) != samplers[si].batch_size:
            return f"batch {b} has {len(proposed)} rows, sampler batch size is {samplers[si].batch_size}"
        for r in range(len(proposed)):
            if not np.array_equal(h["params"][row], proposed[r]):
                return f"row {row}: stored parameters are not what the sampler proposed"
            if h["batch"][row] != b:
                return f"row {row}: batch label {h['batch'][row]} != {b}"
            if h["method"][row] != table[type(samplers[si]).__name__]:
                return f"row {row}: sampler id {h['method'][row]} does not identify {type(samplers[si]).__name__}"
            for e in range(E):
                theta, n_arg, sd = model.calls[call]
                call += 1
                if not np.array_equal(theta, proposed[r]):
                    return f"row {row} member {e}: model was run on {theta}, not on the stored vector {proposed[r]}"
                if n_arg != N:
                    return f"simulation length {n_arg} != configured {N}"
                if not np.array_equal(h["series"][row, e], model.run(theta, n_arg, sd), equal_nan=True):
                    return f"row {row} member {e}: stored series is not the model output for that vector/seed"
            exp_loss = loss.compute_loss(h["series"][row], cal.real_data)
            if not (h["losses"][row] == exp_loss or (np.isnan(exp_loss) and np.isnan(h["losses"][row]))):
                return f"row {row}: stored loss {h['losses'][row]!r} != loss of the stored series {exp_loss!r}"
            row += 1
    if row != h["n"] or call != len(model.calls):
        return "history has rows / model calls not accounted for by the batches"
    return None


StandIn("C02/history", "C02",
        "10 seeded configurations: round-robin line-ups of 1-4 cheap samplers (batch sizes 1-4), ensemble 1-3, "
        "1-3 parameters, normal / extreme(1e300) models, 1-3 successive calibrate(1..3) calls; every row re-derived "
        "(sampler proposal, model re-run with the logged seed, loss recomputed, labels)", "80 configurations",
        _c02_cases, _c02_check)
StandIn("C09/round-robin-e2e", "C09", "same runs as C02/history: batch i produced by sampler i mod n with its batch size",
        "80 configurations", _c02_cases, _c02_check)


def _c09v_cases(tier, seed):
    for a in (False, True):
        for b in (False, True):
            yield {"samplers": a, "scheduler": b}


def _c09v_check(reg, case):
    from black_it.schedulers.round_robin import RoundRobinScheduler
    s = [e2e.make_sampler("halton", 2)] if case["samplers"] else None
    sch = RoundRobinScheduler([e2e.make_sampler("random", 2)]) if case["scheduler"] else None
    try:
        e2e.make_calibrator({"no_default": True}, samplers=s, scheduler=sch)
    except ValueError:
        return None if case["samplers"] == case["scheduler"] else "ValueError raised although exactly one was given"
    except Exception as e:  # noqa: BLE001
        return f"{type(e).__name__} instead of ValueError for samplers={case['samplers']} scheduler={case['scheduler']}"
    return None if case["samplers"] != case["scheduler"] else "both-or-neither accepted"


StandIn("C09/constructor", "C09", "all four combinations of the samplers / scheduler arguments", "same",
        _c09v_cases, _c09v_check)


# ================================================================================================ C11

def _c11_cases(tier, seed):
    rnd = random.Random(seed + 11)
    n = 12 if tier == "quick" else 120
    for _ in range(n):
        lineup = _lineup(rnd, n=rnd.randint(1, 3))
        nb = rnd.randint(1, 5)
        site = rnd.choice(["model", "loss", "sampler"])
        rl = rnd.random() < 0.4
        # RL scheduler + saving folder cannot checkpoint at all (known finding under C04: scheduler not picklable)
        yield {"lineup": lineup, "E": rnd.choice([1, 2]), "dims": 2, "seed": rnd.randrange(100), "nb": nb,
               "site": site, "k": rnd.randrange(0, 12), "rl": rl, "folder": (rnd.random() < 0.3) and not rl}


def _build(case, folder, fail):
    model = e2e.Model(1, fail_at=fail if case["site"] == "model" else None)
    loss = e2e.make_loss(fail_at=fail if case["site"] == "loss" else None)
    samplers = [e2e.make_sampler(k, b) for k, b in case["lineup"]]
    scheduler = None
    if case["rl"]:
        from black_it.schedulers.rl.agents.epsilon_greedy import MABEpsilonGreedy
        from black_it.schedulers.rl.envs.mab import MABCalibrationEnv
        from black_it.schedulers.rl.rl_scheduler import RLScheduler
        from black_it.samplers.halton import HaltonSampler
        n = len(samplers) + (0 if any(isinstance(s, HaltonSampler) for s in samplers) else 1)
        scheduler = RLScheduler(samplers, MABEpsilonGreedy(n, 0.1, 0.3, random_state=1), MABCalibrationEnv(n), random_state=2)
        samplers_arg = None
    else:
        samplers_arg = samplers
    cfg = dict(case)
    cfg["folder"] = folder
    cal, model, loss, _ = e2e.make_calibrator(cfg, model=model, loss=loss, samplers=samplers_arg, scheduler=scheduler)
    all_samplers = list(cal.scheduler.samplers)
    slog = e2e.SampleLog(all_samplers, fail=(case["k"] % len(all_samplers), case["k"] // len(all_samplers))
                         if (case["site"] == "sampler" and fail is not None) else None)
    return cal


def _c11_check(reg, case):
    with e2e.tmp_folder() as d1, e2e.tmp_folder() as d2:
        ref = _build(case, d1 if case["folder"] else None, None)
        with e2e.quiet():
            ref.calibrate(case["nb"])
        href = e2e.history(ref)
        cal = _build(case, d2 if case["folder"] else None, case["k"])
        before = len(e2e.live_threads())
        raised = None
        try:
            with e2e.quiet():
                cal.calibrate(case["nb"])
        except RuntimeError as e:
            raised = e
        except Exception as e:  # noqa: BLE001
            return f"a different exception escaped: {type(e).__name__}: {e}"
        if len(e2e.live_threads()) > before:
            # give a dying thread a moment
            import time
            time.sleep(0.2)
            if len(e2e.live_threads()) > before:
                return "a background thread started by the calibration is still running after calibrate() returned/raised"
        msg = e2e.aligned(cal)
        if msg:
            return "after failure: " + msg
        if raised is None:
            return None  # injection point beyond the run: nothing to check
        if "injected" not in str(raised):
            return f"the propagated exception is not the injected one: {raised}"
        h = e2e.history(cal)
        if set(np.unique(h["batch"]).tolist()) != set(range(h["cbi"])):
            return "history does not consist of exactly the completed batches"
        if not case["rl"]:
            m = e2e.same_history(href, h, upto=h["n"]) if h["n"] <= href["n"] else "longer than the fault-free run"
            if m:
                return f"history is not the prefix of the fault-free run: {m}"
        try:
            with e2e.quiet():
                cal.model.fail_at = None
                cal.calibrate(1)
        except RuntimeError as e:
            if "injected" not in str(e):
                return f"a subsequent calibrate() fails: {e}"
        except Exception as e:  # noqa: BLE001
            return f"a subsequent calibrate() fails: {type(e).__name__}: {e}"
        return e2e.aligned(cal)


StandIn("C11/fault-injection", "C11",
        "12 seeded runs: exception injected at a seeded invocation index (0-11) of the model / loss / a sampler, "
        "1-5 batches, round-robin and RL schedulers, with and without saving folder; compared with a fault-free twin",
        "120 runs", _c11_cases, _c11_check)


# ================================================================================================ C14

def _c14_cases(tier, seed):
    rnd = random.Random(seed + 14)
    n = 14 if tier == "quick" else 150
    for _ in range(n):
        p = rnd.choice([0, 1, 2, 4, 12])
        nb = rnd.randint(1, 5)
        bs = rnd.randint(1, 3)
        vals = [rnd.choice([3.0, 0.7, 0.04, 0.004, 4e-5, 4e-13, 0.0, 0.5, 0.06]) for _ in range(nb * bs)]
        yield {"p": rnd.choice([p, p, None]), "nb": nb, "bs": bs, "losses": vals, "verbose": rnd.random() < 0.5,
               "folder": rnd.random() < 0.5, "seed": rnd.randrange(50)}


def _c14_check(reg, case):
    from black_it.calibrator import Calibrator
    with e2e.tmp_folder() as d:
        loss = e2e.make_loss(scripted=case["losses"])
        cfg = {"lineup": [("random", case["bs"])], "E": 1, "conv": case["p"], "verbose": case["verbose"],
               "folder": d if case["folder"] else None, "seed": case["seed"], "dims": 2}
        cal, model, loss, samplers = e2e.make_calibrator(cfg, model=e2e.pure_model, loss=loss)
        with e2e.quiet():
            cal.calibrate(case["nb"])
        # expected stopping batch from the property statement
        exp = case["nb"]
        if case["p"] is not None:
            for b in range(1, case["nb"] + 1):
                best = min(case["losses"][: b * case["bs"]])
                if np.round(best, case["p"]) == 0:
                    exp = b
                    break
        if cal.current_batch_index != exp:
            return (f"ran {cal.current_batch_index} batches, expected {exp} (precision={case['p']}, "
                    f"verbose={case['verbose']}, losses={case['losses']})")
        if cal.n_sampled_params != exp * case["bs"]:
            return "the triggering batch is not part of the returned history"
        if case["folder"]:
            with e2e.quiet():
                r = Calibrator.restore_from_checkpoint(d, model=e2e.pure_model)
            if r.current_batch_index != exp or r.n_sampled_params != exp * case["bs"] or \
                    len(r.losses_samp) != exp * case["bs"]:
                return (f"checkpoint holds batch {r.current_batch_index} / {len(r.losses_samp)} rows but calibrate() "
                        f"returned with batch {exp} / {exp * case['bs']} rows")
    return None


StandIn("C14/scripted-losses", "C14",
        "14 seeded runs with scripted loss sequences, precisions {None,0,1,2,4,12}, verbose on/off, with/without "
        "saving folder, 1-5 batches of 1-3 rows; stop batch, history length and restored checkpoint compared",
        "150 runs", _c14_cases, _c14_check)


# ================================================================================================ C18

def _c18_cases(tier, seed):
    rnd = random.Random(seed + 18)
    n = 8 if tier == "quick" else 60
    for _ in range(n):
        steps = []
        for _s in range(rnd.randint(1, 4)):
            steps.append((rnd.choice(["calibrate", "set_samplers", "set_scheduler"]), _lineup(rnd, n=rnd.randint(1, 3))))
        yield {"lineup": _lineup(rnd, n=rnd.randint(1, 3)), "steps": steps, "seed": rnd.randrange(100)}


def _c18_check(reg, case):
    from black_it.plot.plot_results import _get_samplers_names
    from black_it.schedulers.round_robin import RoundRobinScheduler
    with e2e.tmp_folder() as d:
        cfg = {"lineup": case["lineup"], "E": 1, "seed": case["seed"], "folder": d, "dims": 2}
        cal, *_ = e2e.make_calibrator(cfg, model=e2e.pure_model)
        seen = {}
        produced = {}  # row index -> class name

        def run_batch():
            n0 = cal.n_sampled_params
            cur = cal.scheduler.get_next_sampler() if False else None
            with e2e.quiet():
                cal.calibrate(1)
            return n0

        def note_table():
            for k, v in cal.samplers_id_table.items():
                if k in seen and seen[k] != v:
                    return f"id of {k} was reassigned from {seen[k]} to {v}"
                seen[k] = v
            if len(set(cal.samplers_id_table.values())) != len(cal.samplers_id_table):
                return "two classes share an id"
            return None
        m = note_table()
        if m:
            return m
        n0 = run_batch()
        for op, lu in case["steps"]:
            if op == "calibrate":
                run_batch()
            elif op == "set_samplers":
                cal.set_samplers([e2e.make_sampler(k, b) for k, b in lu])
            else:
                cal.set_scheduler(RoundRobinScheduler([e2e.make_sampler(k, b) for k, b in lu]))
            m = note_table()
            if m:
                return m
        run_batch()
        inv = {v: k for k, v in cal.samplers_id_table.items()}
        for mid in np.unique(cal.method_samp):
            if int(mid) not in inv:
                return f"stored label {mid} is not an id of the calibrator's table"
        # recoverability from the checkpoint the calibrator itself wrote
        ids = [int(x) for x in np.unique(cal.method_samp)]
        try:
            names = _get_samplers_names(d, ids)
        except KeyError as e:
            return (f"[plot-table-recomputed] the table rebuilt from the checkpointed line-up has no entry for stored "
                    f"id {e} (ids {ids}, calibrator table {cal.samplers_id_table})")
        except Exception as e:  # noqa: BLE001
            return f"[plot-table-from-checkpoint] plotting utilities cannot map ids back: {type(e).__name__}: {e}"
        exp = [inv[i] for i in ids]
        if names != exp:
            return f"[plot-table-recomputed] checkpoint maps ids {ids} to {names}, the calibrator meant {exp}"
    return None


StandIn("C18/labels-e2e", "C18",
        "8 seeded histories of calibrate / set_samplers / set_scheduler (1-4 steps, line-ups of 1-3 cheap samplers); "
        "id stability, label validity and id->name recovery from the checkpoint through black_it.plot",
        "60 histories", _c18_cases, _c18_check)
