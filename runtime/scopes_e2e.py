"""Bounded stand-ins at the level of the real Calibrator (labelled `bounded`; never counted as proved)."""
from __future__ import annotations

import random

import numpy as np

from runtime import e2e
from runtime import rt
from runtime.scopes import REPLAY, StandIn

CHEAP = ["halton", "random", "rseq", "best"]


def _lineup(rnd, n=None, kinds=CHEAP, first_history_free=True):
    n = n or rnd.randint(1, 4)
    out = []
    have = 0   # history rows available when the i-th sampler first runs
    for i in range(n):
        k = rnd.choice(kinds)
        if i == 0 and first_history_free and k in ("best", "pso", "rf", "xgb", "gp", "cors"):
            k = "halton"
        b = rnd.randint(1, 4)
        if k == "best":
            b = min(b, max(have, 1))   # best-batch needs at least batch_size history rows (admissible line-ups only)
        out.append((k, b))
        have += b
    return out


# ================================================================================================ C02 / C09

def _c02_cases(tier, seed):
    rnd = random.Random(seed)
    n = 10 if tier == "quick" else 80
    for _ in range(n):
        yield {"lineup": _lineup(rnd), "E": rnd.choice([1, 2, 3]), "N": rnd.choice([5, 12]), "dims": rnd.choice([1, 2, 3]),
               "seed": rnd.randrange(1000), "calls": [rnd.randint(1, 3) for _ in range(rnd.randint(1, 3))],
               "kind": rnd.choice(["normal", "normal", "extreme", "mutating"]), "filters": rnd.random() < 0.4,
               # simulated series shorter / longer than the real ones (legal: a warning only)
               "sim_length": rnd.choice([None, None, 4, 30])}


def _c02_check(reg, case):
    model = e2e.Model(D=1, kind=case["kind"])
    cfg = dict(case)
    cfg["pr"] = [0.01] * case["dims"]
    loss = None
    if case.get("filters") and case["kind"] == "normal":
        from black_it.loss_functions.msm import MethodOfMomentsLoss
        loss = MethodOfMomentsLoss(coordinate_filters=[e2e.demean_filter], moment_calculator=e2e.two_moments)
    elif case.get("sim_length") is not None:
        from black_it.loss_functions.msm import MethodOfMomentsLoss
        loss = MethodOfMomentsLoss(moment_calculator=e2e.two_moments)     # (a loss that accepts differing lengths)
    cal, model, loss, samplers = e2e.make_calibrator(cfg, model=model, loss=loss)
    slog = e2e.SampleLog(samplers)
    table = dict(cal.samplers_id_table)
    prev = None
    total_batches = 0
    for nb in case["calls"]:
        with e2e.quiet():
            ret = cal.calibrate(nb)
        total_batches += nb
        msg = e2e.aligned(cal)
        if msg:
            return msg
        h = e2e.history(cal)
        if prev is not None:
            m = e2e.same_history(prev, h, upto=prev["n"])
            if m:
                return f"recorded rows changed after a later calibrate(): {m}"
        prev = h
        # return value: recorded pairs by increasing loss
        rp, rl = ret
        if len(rl) != h["n"] or any(rl[i] > rl[i + 1] for i in range(len(rl) - 1) if not np.isnan(rl[i + 1])):
            return "returned losses are not sorted / wrong length"
        got = sorted((float(l), tuple(p)) for p, l in zip(rp, rl))
        exp = sorted((float(l), tuple(p)) for p, l in zip(h["params"], h["losses"]))
        if got != exp and not any(np.isnan(x[0]) for x in exp):
            return "returned pairs are not the recorded (parameter, loss) pairs"
    h = prev
    if len(slog.log) != total_batches:
        return f"{len(slog.log)} sampler invocations for {total_batches} batches"
    E, N = cal.ensemble_size, cal.N
    row = 0
    call = 0
    n_s = len(samplers)
    for b, (si, proposed) in enumerate(slog.log):
        if si != b % n_s:
            return f"batch {b} was produced by sampler {si}, expected {b % n_s} (round robin)"
        if len(proposed) != samplers[si].batch_size:
            return f"batch {b} has {len(proposed)} rows, sampler batch size is {samplers[si].batch_size}"
        for r in range(len(proposed)):
            if not np.array_equal(h["params"][row], proposed[r]):
                return f"row {row}: stored parameters are not what the sampler proposed"
            if h["batch"][row] != b:
                return f"row {row}: batch label {h['batch'][row]} != {b}"
            if h["method"][row] != table[type(samplers[si]).__name__]:
                return f"row {row}: sampler id {h['method'][row]} does not identify {type(samplers[si]).__name__}"
            for e in range(E):
                theta, n_arg, sd = model.calls[call]
                call += 1
                if not np.array_equal(theta, proposed[r]):
                    return f"row {row} member {e}: model was run on {theta}, not on the stored vector {proposed[r]}"
                if n_arg != N:
                    return f"simulation length {n_arg} != configured {N}"
                if not np.array_equal(h["series"][row, e], model.run(theta, n_arg, sd), equal_nan=True):
                    return f"row {row} member {e}: stored series is not the model output for that vector/seed"
            exp_loss = loss.compute_loss(h["series"][row], cal.real_data)
            if not (h["losses"][row] == exp_loss or (np.isnan(exp_loss) and np.isnan(h["losses"][row]))):
                return f"row {row}: stored loss {h['losses'][row]!r} != loss of the stored series {exp_loss!r}"
            row += 1
    if row != h["n"] or call != len(model.calls):
        return "history has rows / model calls not accounted for by the batches"
    return None


StandIn("C02/history", "C02",
        "10 seeded configurations: round-robin line-ups of 1-4 cheap samplers (batch sizes 1-4), ensemble 1-3, "
        "1-3 parameters, normal / extreme(1e300) models, 1-3 successive calibrate(1..3) calls; every row re-derived "
        "(sampler proposal, model re-run with the logged seed, loss recomputed, labels)", "80 configurations",
        _c02_cases, _c02_check)
StandIn("C09/round-robin-e2e", "C09", "same runs as C02/history: batch i produced by sampler i mod n with its batch size",
        "80 configurations", _c02_cases, _c02_check)


def _c09r_cases(tier, seed):
    rnd = random.Random(seed + 909)
    for i in range(8 if tier == "quick" else 80):
        n_s = rnd.randint(2, 4)
        kinds = [rnd.choice(["halton", "random", "rseq"]) for _ in range(n_s)]
        yield {"lineup": [(k, b + 1) for b, k in enumerate(kinds)],     # pairwise different batch sizes
               "segments": [rnd.randint(1, 3) for _ in range(rnd.randint(2, 4))], "seed": rnd.randrange(1000)}


def _c09r_check(reg, case):
    """Round robin over a whole life: calibrate(k1); restore; calibrate(k2); restore; ... - batch i (counted over all
    segments) must have the batch size of sampler i mod n and carry its label."""
    import warnings

    from black_it.calibrator import Calibrator
    with e2e.tmp_folder() as d, warnings.catch_warnings():
        warnings.simplefilter("ignore")
        cfg = {"lineup": case["lineup"], "E": 1, "dims": 2, "seed": case["seed"], "folder": d, "N": 6}
        cal, _m, _l, samplers = e2e.make_calibrator(cfg, model=e2e.pure_model)
        table = dict(cal.samplers_id_table)
        for k, nb in enumerate(case["segments"]):
            if k > 0:
                with e2e.quiet():
                    cal = Calibrator.restore_from_checkpoint(d, model=e2e.pure_model)
            with e2e.quiet():
                cal.calibrate(nb)
        total = sum(case["segments"])
        if cal.current_batch_index != total:
            return f"{cal.current_batch_index} batches counted after segments {case['segments']}"
        n_s = len(samplers)
        for b in range(total):
            rows = np.flatnonzero(cal.batch_num_samp == b)
            exp = samplers[b % n_s]
            if len(rows) != exp.batch_size:
                return (f"batch {b} (segments {case['segments']}, restored in between) has {len(rows)} rows, sampler "
                        f"{b % n_s} ({type(exp).__name__}) has batch size {exp.batch_size}")
            if any(cal.method_samp[r] != table[type(exp).__name__] for r in rows):
                return f"batch {b} is labelled {set(cal.method_samp[rows])}, sampler {b % n_s} is {type(exp).__name__}"
    return None


StandIn("C09/round-robin-restore", "C09",
        "8 seeded lives of 2-4 history-free samplers with pairwise different batch sizes, 2-4 segments of 1-3 batches with "
        "a restore from the checkpoint between consecutive segments: batch i (over the whole life) has the batch size "
        "and the label of sampler i mod n", "80 lives", _c09r_cases, _c09r_check)


def _c09v_cases(tier, seed):
    for a in (False, True):
        for b in (False, True):
            yield {"samplers": a, "scheduler": b}


def _c09v_check(reg, case):
    from black_it.schedulers.round_robin import RoundRobinScheduler
    s = [e2e.make_sampler("halton", 2)] if case["samplers"] else None
    sch = RoundRobinScheduler([e2e.make_sampler("random", 2)]) if case["scheduler"] else None
    try:
        e2e.make_calibrator({"no_default": True}, samplers=s, scheduler=sch)
    except ValueError:
        return None if case["samplers"] == case["scheduler"] else "ValueError raised although exactly one was given"
    except Exception as e:  # noqa: BLE001
        return f"{type(e).__name__} instead of ValueError for samplers={case['samplers']} scheduler={case['scheduler']}"
    return None if case["samplers"] != case["scheduler"] else "both-or-neither accepted"


StandIn("C09/constructor", "C09", "all four combinations of the samplers / scheduler arguments", "same",
        _c09v_cases, _c09v_check)


# ================================================================================================ C11

def _c11_cases(tier, seed):
    rnd = random.Random(seed + 11)
    # exhaustive part: every invocation index of a small run, every site, both scheduler kinds
    nb, bs, E = 3, 2, 1
    for rl in (False, True):
        for site, top in (("model", nb * bs * E + 1), ("loss", nb * bs + 1), ("sampler", 2 * nb)):
            for k in range(0, top if tier != "quick" else min(top, 5)):
                yield {"lineup": [("halton", bs), ("random", bs)], "E": E, "dims": 2, "seed": 3, "nb": nb, "site": site,
                       "k": k, "rl": rl, "folder": False}
    yield {"lineup": [("halton", 2)], "E": 1, "dims": 2, "seed": 3, "nb": 0, "site": "model", "k": 0, "rl": True,
           "folder": False}
    n = 6 if tier == "quick" else 100
    for _ in range(n):
        lineup = _lineup(rnd, n=rnd.randint(1, 3))
        rl = rnd.random() < 0.4
        if rl:
            # under the RL scheduler ANY sampler may run right after the bootstrap batch: an admissible line-up gives
            # best-batch a batch size that one earlier batch always covers
            lineup = [(k, 1 if k == "best" else b) for k, b in lineup]
        # RL scheduler + saving folder cannot checkpoint at all (known finding under C04: scheduler not picklable)
        yield {"lineup": lineup, "E": rnd.choice([1, 2]), "dims": 2, "seed": rnd.randrange(100), "nb": rnd.randint(1, 6),
               "site": rnd.choice(["model", "loss", "sampler"]), "k": rnd.randrange(0, 12), "rl": rl,
               "folder": (rnd.random() < 0.3) and not rl}


def _build(case, folder, fail):
    model = e2e.Model(1, fail_at=fail if case["site"] == "model" else None)
    loss = e2e.make_loss(fail_at=fail if case["site"] == "loss" else None)
    samplers = [e2e.make_sampler(k, b) for k, b in case["lineup"]]
    scheduler = None
    if case["rl"]:
        from black_it.schedulers.rl.agents.epsilon_greedy import MABEpsilonGreedy
        from black_it.schedulers.rl.envs.mab import MABCalibrationEnv
        from black_it.schedulers.rl.rl_scheduler import RLScheduler
        from black_it.samplers.halton import HaltonSampler
        n = len(samplers) + (0 if any(isinstance(s, HaltonSampler) for s in samplers) else 1)
        scheduler = RLScheduler(samplers, MABEpsilonGreedy(n, 0.1, 0.3, random_state=1), MABCalibrationEnv(n), random_state=2)
        samplers_arg = None
    else:
        samplers_arg = samplers
    cfg = dict(case)
    cfg["folder"] = folder
    cal, model, loss, _ = e2e.make_calibrator(cfg, model=model, loss=loss, samplers=samplers_arg, scheduler=scheduler)
    all_samplers = list(cal.scheduler.samplers)
    slog = e2e.SampleLog(all_samplers, fail=(case["k"] % len(all_samplers), case["k"] // len(all_samplers))
                         if (case["site"] == "sampler" and fail is not None) else None)
    return cal


def _c11_check(reg, case):
    with e2e.tmp_folder() as d1, e2e.tmp_folder() as d2:
        ref = _build(case, d1 if case["folder"] else None, None)
        with e2e.quiet():
            ref.calibrate(case["nb"])
        href = e2e.history(ref)
        cal = _build(case, d2 if case["folder"] else None, case["k"])
        before = len(e2e.live_threads())
        raised = None
        try:
            with e2e.quiet():
                cal.calibrate(case["nb"])
        except RuntimeError as e:
            raised = e
        except Exception as e:  # noqa: BLE001
            return f"a different exception escaped: {type(e).__name__}: {e}"
        if len(e2e.live_threads()) > before:
            # give a dying thread a moment
            import time
            time.sleep(0.2)
            if len(e2e.live_threads()) > before:
                return "a background thread started by the calibration is still running after calibrate() returned/raised"
        msg = e2e.aligned(cal)
        if msg:
            return "after failure: " + msg
        if raised is None:
            return None  # injection point beyond the run: nothing to check
        if "injected" not in str(raised):
            return f"the propagated exception is not the injected one: {raised}"
        h = e2e.history(cal)
        if set(np.unique(h["batch"]).tolist()) != set(range(h["cbi"])):
            return "history does not consist of exactly the completed batches"
        if not case["rl"]:
            m = e2e.same_history(href, h, upto=h["n"]) if h["n"] <= href["n"] else "longer than the fault-free run"
            if m:
                return f"history is not the prefix of the fault-free run: {m}"
        try:
            with e2e.quiet():
                cal.model.fail_at = None
                cal.calibrate(2)        # (two batches: the retried one and one more - the RL exchange must get going again)
        except RuntimeError as e:
            if "injected" not in str(e):
                return f"a subsequent calibrate() fails: {e}"
        except Exception as e:  # noqa: BLE001
            return f"a subsequent calibrate() fails: {type(e).__name__}: {e}"
        if not case["rl"]:
            # "works": the retried batch is the batch that failed - produced by the sampler whose turn it was (the
            # scheduler must not have moved on while the failed batch was never completed)
            lineup = list(cal.scheduler.samplers)
            for b in range(cal.current_batch_index):
                exp = lineup[b % len(lineup)]
                rows = np.flatnonzero(cal.batch_num_samp == b)
                if len(rows) != exp.batch_size or any(
                        cal.method_samp[r] != cal.samplers_id_table[type(exp).__name__] for r in rows):
                    return (f"after the fault, batch {b} was produced by another sampler than the one whose turn it was "
                            f"({type(exp).__name__}, batch size {exp.batch_size}): {len(rows)} rows labelled "
                            f"{sorted(set(cal.method_samp[rows].tolist()))}")
        return e2e.aligned(cal)


StandIn("C11/fault-injection", "C11",
        "exhaustive for a 3-batch run (2 samplers, batch 2): exception at invocation index 0-4 of the model / the loss / "
        "a sampler, round-robin and RL schedulers (+ calibrate(0) with RL), plus 6 seeded larger runs (1-6 batches, "
        "with/without saving folder); compared with a fault-free twin; live threads, alignment, reuse checked",
        "all invocation indices of the 3-batch run + 100 seeded runs", _c11_cases, _c11_check)


# ================================================================================================ C14

def _c14_cases(tier, seed):
    rnd = random.Random(seed + 14)
    n = 24 if tier == "quick" else 250
    vals = [3.0, 0.7, 0.04, 0.004, 4e-5, 6e-9, 4e-9, 4e-13, 0.0, 0.5, 0.06, 0.49, 0.51]
    for i in range(n):
        p = rnd.choice([0, 0, 1, 2, 4, 8, 9, 12])
        bs = rnd.randint(1, 3)
        calls = [rnd.randint(1, 4) for _ in range(rnd.choice([1, 1, 2, 3]))]
        tot = sum(calls) * bs
        losses = [rnd.choice(vals) for _ in range(tot)]
        if i % 3 == 0:   # make sure some runs converge early and are then continued
            losses[rnd.randrange(0, max(1, tot // 2))] = rnd.choice([0.0, 4e-13, 0.004, 0.04, 4e-9])
        yield {"p": rnd.choice([p, p, p, None]), "calls": calls, "bs": bs, "losses": losses,
               "verbose": rnd.random() < 0.5, "folder": rnd.random() < 0.5, "seed": rnd.randrange(50),
               "restore_between": rnd.random() < 0.3}


def _c14_check(reg, case):
    from black_it.calibrator import Calibrator
    with e2e.tmp_folder() as d:
        loss = e2e.make_loss(scripted=case["losses"])
        folder = d if (case["folder"] or case["restore_between"]) else None
        cfg = {"lineup": [("random", case["bs"])], "E": 1, "conv": case["p"], "verbose": case["verbose"],
               "folder": folder, "seed": case["seed"], "dims": 2}
        cal, model, loss, samplers = e2e.make_calibrator(cfg, model=e2e.pure_model, loss=loss)
        done = 0   # batches over the whole life
        for ci, nb in enumerate(case["calls"]):
            if ci > 0 and case["restore_between"]:
                with e2e.quiet():
                    cal = Calibrator.restore_from_checkpoint(d, model=e2e.pure_model)
            with e2e.quiet():
                cal.calibrate(nb)
            # expected number of batches of THIS call, from the property statement
            exp = nb
            if case["p"] is not None:
                for b in range(1, nb + 1):
                    best = min(case["losses"][: (done + b) * case["bs"]])
                    if np.round(best, case["p"]) == 0:
                        exp = b
                        break
            done += exp
            if cal.current_batch_index != done:
                return (f"call {ci} (calibrate({nb})) ended at batch {cal.current_batch_index}, expected {done} "
                        f"(precision={case['p']}, verbose={case['verbose']}, losses={case['losses']})")
            if cal.n_sampled_params != done * case["bs"]:
                return "the triggering batch is not part of the returned history"
            if folder:
                with e2e.quiet():
                    r = Calibrator.restore_from_checkpoint(d, model=e2e.pure_model)
                if r.current_batch_index != done or r.n_sampled_params != done * case["bs"] or \
                        len(r.losses_samp) != done * case["bs"]:
                    return (f"checkpoint holds batch {r.current_batch_index} / {len(r.losses_samp)} rows but "
                            f"calibrate() returned with batch {done} / {done * case['bs']} rows")
    return None


StandIn("C14/scripted-losses", "C14",
        "24 seeded lives of 1-3 successive calibrate(1..4) calls (optionally restored from the checkpoint in between) "
        "with scripted loss sequences incl. 0, 4e-13, 4e-9, 6e-9, .49/.51; precisions {None,0,1,2,4,8,9,12}, verbose "
        "on/off, with/without saving folder; stop batch of every call, history length and restored checkpoint compared",
        "250 lives", _c14_cases, _c14_check)


# ================================================================================================ C18

def _c18_cases(tier, seed):
    rnd = random.Random(seed + 18)
    # systematic: repeated classes before another class, then a replacement introducing a new class
    fixed = [
        ([("random", 1), ("random", 2), ("halton", 1)], [("set_samplers", [("random", 1), ("halton", 1), ("best", 1)]), ("calibrate", [])]),
        ([("halton", 1), ("rseq", 1)], [("set_samplers", [("rseq", 1), ("best", 1)]), ("calibrate", [])]),
        ([("halton", 2), ("halton", 1), ("random", 1)], [("calibrate", []), ("set_scheduler", [("best", 1), ("rseq", 1)]), ("calibrate", [])]),
        ([("random", 1), ("halton", 1)], [("set_samplers", [("random", 1), ("halton", 1), ("rseq", 2)]), ("calibrate", []), ("calibrate", [])]),
        # no replacement at all, a class repeated before other classes first appear (ids are first-seen ranks)
        ([("halton", 1), ("halton", 2), ("random", 1), ("rseq", 1)], [("calibrate", []), ("calibrate", []), ("calibrate", [])]),
        # a replacement that REPEATS a class not yet in the table, then a further replacement with another new class
        ([("halton", 1), ("random", 1)], [("set_samplers", [("rseq", 1), ("halton", 1), ("rseq", 2)]), ("calibrate", []),
                                          ("set_scheduler", [("best", 1), ("random", 1)]), ("calibrate", [])]),
        ([("random", 2)], [("set_scheduler", [("halton", 1), ("halton", 2), ("random", 1)]), ("calibrate", []),
                           ("set_samplers", [("rseq", 1), ("rseq", 1), ("best", 1)]), ("calibrate", []),
                           ("set_samplers", [("halton", 1)]), ("calibrate", [])]),
    ]
    for lu, steps in fixed:
        yield {"lineup": lu, "steps": steps, "seed": 1}
    n = 6 if tier == "quick" else 60
    for _ in range(n):
        steps = []
        for _s in range(rnd.randint(1, 4)):
            # replacement line-ups take over at an arbitrary round-robin position with whatever history there is: only
            # best-batch samplers of batch size 1 are admissible everywhere (C18 is about labels, not sizes)
            steps.append((rnd.choice(["calibrate", "set_samplers", "set_scheduler"]),
                          [(k, 1 if k == "best" else b) for k, b in _lineup(rnd, n=rnd.randint(1, 3))]))
        yield {"lineup": _lineup(rnd, n=rnd.randint(1, 3)), "steps": steps, "seed": rnd.randrange(100)}


def _c18_check(reg, case):
    from black_it.calibrator import Calibrator
    from black_it.plot.plot_results import _get_samplers_names
    from black_it.schedulers.round_robin import RoundRobinScheduler
    with e2e.tmp_folder() as d:
        cfg = {"lineup": case["lineup"], "E": 1, "seed": case["seed"], "folder": d, "dims": 2}
        nlog = e2e.NameLog()
        first = [nlog.watch(e2e.make_sampler(k, b)) for k, b in case["lineup"]]
        cal, *_ = e2e.make_calibrator(cfg, model=e2e.pure_model, samplers=first)
        seen = {}

        def run_batch():
            with e2e.quiet():
                cal.calibrate(1)

        def note_table():
            for k, v in cal.samplers_id_table.items():
                if k in seen and seen[k] != v:
                    return f"id of {k} was reassigned from {seen[k]} to {v}"
                seen[k] = v
            if len(set(cal.samplers_id_table.values())) != len(cal.samplers_id_table):
                return f"two classes share an id: {cal.samplers_id_table}"
            return None
        m = note_table()
        if m:
            return m
        run_batch()
        # the folder is also read EARLY (a plot of the run so far): reading a checkpoint must not influence what a later
        # read of the same folder returns
        try:
            _get_samplers_names(d, [int(x) for x in cal.method_samp])
        except Exception:  # noqa: BLE001
            pass
        for op, lu in case["steps"]:
            if op == "calibrate":
                run_batch()
            elif op == "set_samplers":
                cal.set_samplers([nlog.watch(e2e.make_sampler(k, b)) for k, b in lu])
            else:
                cal.set_scheduler(RoundRobinScheduler([nlog.watch(e2e.make_sampler(k, b)) for k, b in lu]))
            m = note_table()
            if m:
                return m
        run_batch()
        m = note_table()
        if m:
            return m
        row_class = [name for name, n in nlog.rows for _ in range(n)]
        if len(row_class) != len(cal.method_samp):
            return "sampler invocations do not account for the recorded rows"
        inv = {v: k for k, v in cal.samplers_id_table.items()}
        for i, mid in enumerate(cal.method_samp):
            if inv.get(int(mid)) != row_class[i]:
                return f"row {i} was produced by {row_class[i]} but carries id {mid} ({inv.get(int(mid))})"
        # recoverability from the checkpoint the calibrator itself wrote: ids in row order (not sorted, with repeats)
        ids = [int(x) for x in cal.method_samp][::-1]
        exp = [inv[i] for i in ids]
        # what a table rebuilt from the line-up current at save time would say (the known, recorded limitation)
        rebuilt = Calibrator._construct_samplers_id_table(list(cal.scheduler.samplers))  # noqa: SLF001
        rinv = {v: k for k, v in rebuilt.items()}
        try:
            names = _get_samplers_names(d, ids)
        except KeyError as e:
            if any(i not in rinv for i in ids):
                return (f"[plot-table-recomputed] the table rebuilt from the checkpointed line-up has no entry for "
                        f"stored id {e} (ids {sorted(set(ids))}, calibrator table {cal.samplers_id_table})")
            return f"plotting utilities cannot map ids back although the current line-up covers them: KeyError {e}"
        except Exception as e:  # noqa: BLE001
            return f"[plot-table-from-checkpoint] plotting utilities cannot map ids back: {type(e).__name__}: {e}"
        if names != exp:
            if all(i in rinv for i in ids) and names == [rinv[i] for i in ids] and rebuilt != cal.samplers_id_table:
                return (f"[plot-table-recomputed] checkpoint maps ids {sorted(set(ids))} through the rebuilt table "
                        f"{rebuilt}, the calibrator meant {cal.samplers_id_table}")
            return f"checkpoint maps ids {ids} to {names}, the calibrator meant {exp}"
    return None


StandIn("C18/labels-e2e", "C18",
        "7 systematic histories (repeated classes before other classes first appear with and without replacement, a "
        "replacement repeating a new class followed by another new class; the folder is also read early) + 6 seeded histories of "
        "calibrate / set_samplers / set_scheduler; id stability and uniqueness, every row's id names the class that "
        "produced it (spied at the scheduler), id->name recovery from the checkpoint in row order through black_it.plot",
        "60 histories", _c18_cases, _c18_check)


# ================================================================================================ C16 / C03

ALL_KINDS = ["halton", "random", "rseq", "best", "pso", "rf", "xgb", "gp", "cors"]
F32MAX = float(np.finfo(np.float32).max)


def _space(rnd, dims, aligned=False):
    from black_it.search_space import SearchSpace
    lo, hi, pr = [], [], []
    for _ in range(dims):
        scale = rnd.choice([1.0, 1.0, 10.0, 1e-3, 250.0])
        a = rnd.choice([0.0, -1.0, 0.37, -12.5]) * scale
        p = rnd.choice([0.01, 0.1, 0.3, 0.07, 0.25]) * scale
        steps = rnd.randint(3, 40)
        b = a + steps * p if (aligned or rnd.random() < 0.4) else a + (steps + rnd.choice([0.3, 0.5, 0.9])) * p
        lo.append(a); hi.append(b); pr.append(p)
    return SearchSpace([lo, hi], pr, verbose=False), lo, hi, pr


def _history(rnd, space, n, loss_kind):
    pts = np.column_stack([rnd.choices(list(g), k=n) for g in space.param_grid]).astype(float).reshape(n, space.dims)
    if loss_kind == "ties":
        losses = np.array([rnd.choice([1.0, 2.0, 2.0, 3.0]) for _ in range(n)])
    elif loss_kind == "extreme":
        losses = np.array([rnd.choice([1e-300, 1.0, 1e300, F32MAX * 10, -F32MAX * 10, 5.0]) for _ in range(n)])
    elif loss_kind == "inf":
        losses = np.array([rnd.choice([np.inf, 1.0, 2.5, 0.1]) for _ in range(n)])
    else:
        losses = np.array([rnd.uniform(0, 10) for _ in range(n)])
    return pts, losses.astype(float)


def _on_grid(space, batch, k):
    if batch.shape != (k, space.dims):
        return f"shape {batch.shape}, expected {(k, space.dims)}"
    for c in range(space.dims):
        g = space.param_grid[c]
        for v in batch[:, c]:
            if not np.any(g == v):
                return f"coordinate {v!r} of parameter {c} is not an element of its grid (nearest {g[np.argmin(abs(g - v))]!r})"
    return None


def _c16_cases(tier, seed):
    rnd = random.Random(seed + 16)
    reps = 2 if tier == "quick" else 12
    for kind in ALL_KINDS:
        for rep in range(reps):
            yield {"kind": kind, "dims": rnd.choice([1, 2, 3]) if kind not in ("cors",) else 2,
                   "bs": rnd.randint(1, 3), "n_hist": rnd.randint(4, 9), "seed": rnd.randrange(10 ** 6),
                   "loss_kind": ["plain", "ties", "extreme", "inf"][(rep + ALL_KINDS.index(kind)) % 4],
                   "calls": rnd.randint(1, 3), "space_seed": rnd.randrange(10 ** 6)}


def _c16_check(reg, case):
    import warnings
    rnd = random.Random(case["space_seed"])
    space, lo, hi, pr = _space(rnd, case["dims"])
    kind = case["kind"]
    loss_kind = case["loss_kind"]
    if kind in ("gp", "cors", "rf") and loss_kind in ("inf", "extreme"):
        loss_kind = "ties"  # sklearn / SLSQP reject non-finite or overflowing targets: outside the admissible inputs
    s = e2e.make_sampler(kind, case["bs"], seed=case["seed"])
    pts, losses = _history(rnd, space, max(case["n_hist"], case["bs"]), loss_kind)
    for _call in range(case["calls"]):
        p0, l0 = pts.copy(), losses.copy()
        with warnings.catch_warnings():
            warnings.simplefilter("ignore")
            with e2e.quiet():
                out = s.sample(space, pts, losses)
        if not (np.array_equal(p0, pts, equal_nan=True) and np.array_equal(l0, losses, equal_nan=True)):
            bad = np.flatnonzero(~((l0 == losses) | (np.isnan(l0) & np.isnan(losses))))
            return (f"[history-written] {type(s).__name__}.sample modified the history arrays it was lent "
                    f"(losses before {l0[bad][:3]}, after {losses[bad][:3]})")
        k = s.batch_size
        msg = _on_grid(space, out, k)
        if msg:
            tag = "[best-batch-off-grid] " if kind == "best" else ""
            return f"{tag}{type(s).__name__}: {msg} (bounds {lo}..{hi}, precision {pr})"
        # continue the history with the proposed points (finite made-up losses)
        pts = np.vstack((pts, out))
        losses = np.hstack((losses, [rnd.uniform(0, 10) for _ in range(len(out))]))
    return None


StandIn("C16/no-modification+on-grid", "C16",
        "9 built-in samplers x 2 seeded (space, history) pairs: 1-3 parameters, non-aligned bounds of several scales, "
        "histories of 4-9 on-grid points with plain / tied / extreme (float32-overflowing) / infinite losses, 1-3 "
        "successive sample() calls; history arrays compared bit-wise before/after, output shape and grid membership",
        "9 samplers x 12 pairs", _c16_cases, _c16_check)
StandIn("C03/all-samplers", "C03", "same runs as C16/no-modification+on-grid (shape and exact grid membership of every "
        "returned coordinate)", "9 samplers x 12 pairs", _c16_cases, _c16_check)


def _c16s_cases(tier, seed):
    rnd = random.Random(seed + 161)
    # tiny spaces whose grid is largely (or fully) covered by the history, pools barely larger than the batch
    for bs in (1, 2, 3):
        for cover in (2, 4, 5):
            yield {"dims": 1, "bs": bs, "pool": bs + rnd.randint(0, 2), "n_hist": cover, "seed": rnd.randrange(10 ** 6),
                   "space_seed": -1, "pred_kind": rnd.choice(["random", "ties"])}
    for _ in range(12 if tier == "quick" else 150):
        yield {"dims": rnd.choice([1, 2, 3]), "bs": rnd.randint(1, 4), "pool": rnd.randint(4, 12),
               "n_hist": rnd.randint(1, 6), "seed": rnd.randrange(10 ** 6), "space_seed": rnd.randrange(10 ** 6),
               "pred_kind": rnd.choice(["random", "ties", "const"])}


def _c16s_check(reg, case):
    from black_it.samplers.surrogate import MLSurrogateSampler
    rnd = random.Random(case["space_seed"])
    if case["space_seed"] == -1:
        from black_it.search_space import SearchSpace
        space = SearchSpace([[0.0], [1.0]], [0.25], verbose=False)     # 5 grid points
    else:
        space, *_ = _space(rnd, case["dims"])
    seen = {}

    class Stub(MLSurrogateSampler):
        def fit(self, X, y):  # noqa: N803
            seen["fit"] = (X, y, X.copy(), y.copy())

        def predict(self, X):  # noqa: N803
            seen["pool"] = X.copy()
            if case["pred_kind"] == "const":
                p = np.zeros(len(X))
            elif case["pred_kind"] == "ties":
                p = np.array([float(rnd.randrange(3)) for _ in range(len(X))])
            else:
                p = np.array([rnd.uniform(-5, 5) for _ in range(len(X))])
            seen["pred"] = p.copy()
            return p
    pool = max(case["pool"], case["bs"])
    s = Stub(case["bs"], random_state=case["seed"], candidate_pool_size=pool, max_deduplication_passes=0)
    pts, losses = _history(rnd, space, case["n_hist"], "plain")
    if case["space_seed"] == -1:
        pts = np.array(list(space.param_grid[0])[: case["n_hist"]], dtype=float).reshape(-1, 1)
        losses = np.arange(len(pts), dtype=float)
    if case["space_seed"] != -1:
        # the same sampler object has already served ANOTHER history of the same size (another calibration, recomputed
        # losses): what it is trained on now must be the history it is given now
        pts0, losses0 = _history(rnd, space, case["n_hist"], "plain")
        s.sample(space, pts0, losses0)
        seen.clear()
    out = s.sample(space, pts, losses)
    if "fit" not in seen:
        return "the surrogate was not trained at all on the history it was given (fit was not called)"
    X, y, Xc, yc = seen["fit"]
    if not (np.array_equal(X, pts) and np.array_equal(y, losses)):
        return "the surrogate was not trained on exactly the given history"
    if len(seen["pool"]) != pool:
        return f"pool of {len(seen['pool'])} candidates, configured {pool}"
    msg = _on_grid(space, out, case["bs"])
    if msg:
        return msg
    pred, poolpts = seen["pred"], seen["pool"]
    chosen_pred = []
    used = set()
    for row in out:
        idx = [i for i in range(pool) if np.array_equal(poolpts[i], row) and i not in used]
        if not idx:
            return f"returned point {row} is not a candidate of the pool"
        best = min(idx, key=lambda i: pred[i])
        used.add(best)
        chosen_pred.append(pred[best])
    rest = sorted(pred[i] for i in range(pool) if i not in used)
    if rest and max(chosen_pred) > rest[0]:
        return f"a returned candidate has prediction {max(chosen_pred)} although an unchosen one has {rest[0]}"
    return None


StandIn("C03/surrogate-rows", "C03", "same stub surrogates as C16/surrogate-stub incl. 9 tiny 5-point spaces whose grid is "
        "mostly or fully in the history with pools of batch_size..batch_size+2: exactly batch_size on-grid rows",
        "150 stubs", _c16s_cases, _c16s_check)
StandIn("C16/surrogate-stub", "C16",
        "12 seeded stub surrogates (arbitrary / tied / constant predictions, pool 4-12, batch 1-4): trained on exactly "
        "the history, returns pool candidates, none of the unchosen has a lower prediction", "150 stubs",
        _c16s_cases, _c16s_check)


def _c16b_cases(tier, seed):
    rnd = random.Random(seed + 162)
    for i in range(24 if tier == "quick" else 240):
        c = {"dims": rnd.choice([1, 2, 3, 4]), "bs": rnd.randint(1, 4), "n_hist": rnd.randint(4, 12),
             "range": rnd.choice([2, 3, 6]), "seed": rnd.randrange(10 ** 6), "space_seed": rnd.randrange(10 ** 6),
             "loss_kind": rnd.choice(["plain", "ties", "inf"]), "dups": i % 3 == 2}
        if c["dups"]:   # distinct losses, the best vector recorded several times among the best entries
            c.update(loss_kind="plain", bs=rnd.randint(2, 4), n_hist=rnd.randint(8, 14), dims=rnd.choice([2, 3, 4]))
        yield c


def _c16b_check(reg, case):
    from black_it.samplers.best_batch import BestBatchSampler
    rnd = random.Random(case["space_seed"])
    space, lo, hi, pr = _space(rnd, case["dims"], aligned=True)
    pts, losses = _history(rnd, space, max(case["n_hist"], case["bs"]), case["loss_kind"])
    if case.get("dups"):
        # the same parameter vector recorded more than once among the best (a stochastic model re-evaluated at a point,
        # deduplication passes exhausted): the lowest-loss ENTRIES are the parents, repeated or not
        order = np.argsort(losses, kind="stable")
        for k in range(1, min(len(order), case["bs"] + 1)):
            if rnd.random() < 0.7:
                pts[order[k]] = pts[order[0]]
    s = BestBatchSampler(case["bs"], random_state=case["seed"], perturbation_range=case["range"],
                         max_deduplication_passes=0)
    # the same sampler object first sees ANOTHER history of the same length (state kept between calls must not matter)
    pts0, losses0 = _history(rnd, space, len(pts), "plain")
    s.sample(space, pts0, losses0)
    out = s.sample(space, pts, losses)
    order = np.argsort(losses, kind="stable")
    kth = np.sort(losses)[case["bs"] - 1]
    parents = [pts[i] for i in range(len(pts)) if losses[i] <= kth]   # ties at the cut: any of them is admissible
    for row in out:
        ok = False
        for par in parents:
            moved = 0
            good = True
            for c in range(space.dims):
                if row[c] == par[c]:
                    continue
                steps = (row[c] - par[c]) / pr[c]
                near = round(steps)
                within = abs(steps - near) < 1e-6 and 1 <= abs(near) <= case["range"] - 1
                clipped = (row[c] in (lo[c], hi[c]) or abs(row[c] - hi[c]) < pr[c] or abs(row[c] - lo[c]) < pr[c]) \
                    and abs(steps) <= case["range"] - 1 + 1e-6
                if within or clipped:
                    moved += 1
                else:
                    good = False
                    break
            if good and (moved >= 1 or True):
                ok = True
                break
        if not ok:
            return (f"proposal {row} is not one of the {case['bs']} lowest-loss points displaced by 1..{case['range'] - 1} "
                    f"precision steps (then confined to the space)")
    return None


StandIn("C16/best-batch", "C16",
        "24 seeded runs: 1-4 parameters (grid-aligned bounds), histories of 4-14 points with plain / tied / infinite "
        "losses (every third: the best vector recorded several times), perturbation ranges 2/3/6: every proposal descends from one of the batch_size lowest-loss points by "
        "whole steps within range (or is confined at a bound)", "240 runs", _c16b_cases, _c16b_check)


# ================================================================================================ C09 (RL clause)

from black_it.schedulers.rl.agents.base import Agent  # noqa: E402


class ScriptedAgent(Agent):
    """Scripted policy (module level: picklable)."""

    def __init__(self, actions):
        super().__init__(random_state=0)
        self.actions = list(actions)
        self.k = 0
        self.learned = []

    def policy(self, state):  # noqa: ARG002
        a = self.actions[self.k % len(self.actions)]
        self.k += 1
        return int(a)

    def learn(self, state, action, reward, next_state):  # noqa: ARG002
        self.learned.append((int(action), float(reward)))


def _c09rl_cases(tier, seed):
    rnd = random.Random(seed + 9)
    n = 10 if tier == "quick" else 100
    for i in range(n):
        with_halton = rnd.random() < 0.5
        kinds = [rnd.choice(["random", "rseq", "best"]) for _ in range(rnd.randint(1, 3))]
        if with_halton:
            kinds.insert(rnd.randrange(len(kinds) + 1), "halton")
        nb = rnd.randint(2, 5)
        n_s = len(kinds) + (0 if with_halton else 1)
        losses = [rnd.choice([5.0, 3.0, 1.0, 0.5, 0.0, 2.0]) for _ in range(40)]
        if i % 3 == 0:
            losses[0] = 0.0   # a perfect first batch
        yield {"kinds": kinds, "bs": [1 if k == "best" else rnd.randint(1, 3) for k in kinds], "nb": nb,
               "actions": [rnd.randrange(n_s) for _ in range(nb + 2)], "losses": losses, "seed": rnd.randrange(100)}


def _c09rl_check(reg, case):
    from black_it.samplers.halton import HaltonSampler
    from black_it.schedulers.rl.envs.mab import MABCalibrationEnv
    from black_it.schedulers.rl.rl_scheduler import RLScheduler
    samplers = [e2e.make_sampler(k, b) for k, b in zip(case["kinds"], case["bs"])]
    has_h = any(isinstance(x, HaltonSampler) for x in samplers)
    n_s = len(samplers) + (0 if has_h else 1)
    agent = ScriptedAgent(case["actions"])
    sched = RLScheduler(samplers, agent, MABCalibrationEnv(n_s), random_state=case["seed"])
    all_s = list(sched.samplers)
    if not all(any(x is y for y in all_s) for x in samplers) or len(all_s) != n_s:
        return "the scheduler's sampler set is not the supplied set (plus a bootstrap Halton if absent)"
    cfg = {"E": 1, "dims": 2, "seed": case["seed"]}
    cal, *_ = e2e.make_calibrator(cfg, model=e2e.pure_model, loss=e2e.make_loss(scripted=case["losses"]),
                                  scheduler=sched)
    slog = e2e.SampleLog(all_s)
    with e2e.quiet():
        cal.calibrate(case["nb"])
    used = [i for i, _ in slog.log]
    if len(used) != case["nb"]:
        return f"{len(used)} batches produced for calibrate({case['nb']})"
    if not isinstance(all_s[used[0]], HaltonSampler):
        return f"the first batch was produced by {type(all_s[used[0]]).__name__}, not by the bootstrap Halton sampler"
    exp = [int(a) for a in case["actions"][: case["nb"] - 1]]
    if used[1:] != exp:
        return f"batches 1.. were produced by samplers {used[1:]}, the agent chose {exp} (losses {case['losses'][:6]})"
    # the agent's indices are indices into the SUPPLIED line-up (an added bootstrap sampler takes the next free index)
    for b, a in enumerate(exp, start=1):
        if a < len(samplers) and all_s[used[b]] is not samplers[a]:
            return (f"batch {b}: the agent chose index {a}, i.e. the supplied {type(samplers[a]).__name__}, but the batch "
                    f"was produced by {type(all_s[used[b]]).__name__}")
    for b, (si, out) in enumerate(slog.log):
        if len(out) != all_s[si].batch_size:
            return f"batch {b} has {len(out)} rows, its sampler's batch size is {all_s[si].batch_size}"
    return None


StandIn("C09/rl-e2e", "C09",
        "10 seeded RL runs with a scripted agent and scripted losses (exact zeros included), line-ups of 1-4 samplers "
        "with or without a Halton sampler, 2-5 batches: bootstrap batch by a Halton sampler, every later batch by the "
        "sampler whose index the agent chose, only supplied samplers (+bootstrap) used, batch sizes",
        "100 runs", _c09rl_cases, _c09rl_check)


def _replay_bootstrap(reg, key, witness):
    """RLScheduler._add_or_get_bootstrap_sampler on every line-up of 0-3 samplers (Halton / non-Halton at every position)
    under its executable contract."""
    import itertools

    from black_it.samplers.halton import HaltonSampler
    from black_it.samplers.random_uniform import RandomUniformSampler
    from black_it.schedulers.rl.rl_scheduler import RLScheduler
    for n in range(4):
        for kinds in itertools.product([0, 1], repeat=n):
            samplers = [HaltonSampler(batch_size=2) if k else RandomUniformSampler(batch_size=3) for k in kinds]
            try:
                rt.check_call(reg, key, RLScheduler._add_or_get_bootstrap_sampler, None, {"samplers": samplers})  # noqa: SLF001
            except rt.ContractViolation as e:
                return (f"RLScheduler._add_or_get_bootstrap_sampler({[type(x).__name__ for x in samplers]}) -> {e}")
    return None


REPLAY["black_it/schedulers/rl/rl_scheduler.py::RLScheduler._add_or_get_bootstrap_sampler"] = _replay_bootstrap


def _replay_calibrate(reg, key, witness):
    """Calibrator.calibrate: the counter-model fixes the CONFIGURATION (n_batches, convergence precision, saving folder
    or not, ensemble size, verbosity, empty or non-empty history); abstract components (scheduler, samplers, model, loss)
    are instantiated by real ones - round-robin over cheap samplers, a pure model, scripted losses that hit the
    convergence threshold at different batches - and the real method is run under its executable contract clauses
    (post-conditions over the recorded history and the return value, class invariant at exit, frame)."""
    import warnings

    w = witness if isinstance(witness, dict) else {}
    ws = w.get("self") if isinstance(w.get("self"), dict) else {}

    def _int(v, default):
        try:
            return int(v)
        except (TypeError, ValueError):
            return default
    nb = max(0, min(_int(w.get("n_batches"), 2), 4))
    E = max(1, min(_int(ws.get("ensemble_size"), 1), 3))
    folder = ws.get("saving_folder") is not None
    conv = ws.get("convergence_precision")
    conv = None if conv is None else max(0, min(_int(conv, 2), 6))
    func, _cls = rt.resolve(key)
    scripts = [None, [3.0, 2.0, 1.0, 0.004, 2.0, 0.0004, 5.0] * 6, [0.0] * 40, [5.0, 0.04] * 20]
    for nbv in sorted({nb, 1, 3}):
        for convv in ([conv] if conv is not None else [None, 2]):
            for script in scripts:
                for warm in (0, 1):
                    with e2e.tmp_folder() as d, warnings.catch_warnings():
                        warnings.simplefilter("ignore")
                        cfg = {"lineup": [("halton", 2), ("random", 1), ("rseq", 3)], "E": E, "dims": 2, "seed": 5,
                               "conv": convv, "folder": d if folder else None, "verbose": bool(ws.get("verbose", False))}
                        cal, *_ = e2e.make_calibrator(cfg, model=e2e.pure_model,
                                                      loss=e2e.make_loss(scripted=script) if script else None)
                        what = (f"calibrate({nbv}) with convergence_precision={convv}, saving folder={'yes' if folder else 'no'}, "
                                f"ensemble_size={E}, scripted losses={script[:7] if script else None}, "
                                f"{'after a first calibrate(1)' if warm else 'on a fresh calibrator'}")
                        try:
                            with e2e.quiet():
                                if warm:
                                    cal.calibrate(1)
                                rt.check_call(reg, key, func, cal, {"n_batches": nbv})
                                rt.check_invariant(reg, "Calibrator", cal)
                        except rt.ContractViolation as e:
                            return f"{what} -> {e}"
    return None


REPLAY["black_it/calibrator.py::Calibrator.calibrate"] = _replay_calibrate
