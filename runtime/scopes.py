"""Bounded stand-ins (labelled `bounded`, never counted as proved) and replay drivers for solver counter-models.

Each stand-in runs the REAL function on an enumerated / seeded scope and checks either the executable form of the
same sidecar contract (rt.check_call) or a property-level oracle written independently of the code.
"""
from __future__ import annotations

import itertools
import math
import random
from fractions import Fraction

import numpy as np

from runtime import rt

import os
import signal  # noqa: E402

CASE_TIMEOUT_S = 120


class _CaseTimeout(BaseException):
    pass


def _case_timeout():
    """Wall-clock watchdog per case, stretched on a loaded machine (a slow case is not a hang)."""
    try:
        f = max(1.0, min(8.0, os.getloadavg()[0] / (os.cpu_count() or 1)))
    except OSError:
        f = 1.0
    return CASE_TIMEOUT_S * f


def _on_alarm(signum, frame):  # noqa: ARG001
    raise _CaseTimeout


STANDINS: dict[str, list] = {}
STANDINS_BY_NAME: dict[str, object] = {}
REPLAY: dict[str, object] = {}


def enc(v):
    if isinstance(v, np.ndarray):
        return {"$nd": v.tolist(), "dtype": str(v.dtype), "shape": list(v.shape)}
    if isinstance(v, (np.floating, np.integer)):
        return v.item()
    if isinstance(v, float):
        return {"$f": v.hex()}
    if isinstance(v, (list, tuple)):
        return [enc(x) for x in v]
    if isinstance(v, dict):
        return {k: enc(x) for k, x in v.items()}
    return v


def dec(v):
    if isinstance(v, dict):
        if "$nd" in v:
            return np.array(v["$nd"], dtype=v["dtype"]).reshape(v["shape"])
        if "$f" in v:
            return float.fromhex(v["$f"])
        return {k: dec(x) for k, x in v.items()}
    if isinstance(v, list):
        return [dec(x) for x in v]
    return v


class StandIn:
    """name, prop, bound text, cases(tier, seed) -> iterable of case dicts, check(reg, case) -> None | message."""

    def __init__(self, name, prop, bound_q, bound_t, cases, check):
        self.name, self.prop = name, prop
        self._bq, self._bt = bound_q, bound_t
        self.cases, self.check = cases, check
        STANDINS.setdefault(prop, []).append(self)
        STANDINS_BY_NAME[name] = self

    def bound(self, tier):
        return self._bq if tier == "quick" else self._bt

    def run(self, reg, tier, seed):
        n, fails, seen_tags = 0, [], set()
        self.stats = {}
        for case in self.cases(tier, seed):
            n += 1
            try:
                signal.signal(signal.SIGALRM, _on_alarm)
                # a REPEATING timer: the clean-up code the first interruption runs through (`with scheduler.session()`
                # -> end_session) may block again on the very defect that caused the hang
                signal.setitimer(signal.ITIMER_REAL, _case_timeout(), 3)
                try:
                    msg = self.check(reg, case)
                finally:
                    while True:
                        try:
                            signal.setitimer(signal.ITIMER_REAL, 0)
                            break
                        except _CaseTimeout:
                            continue
            except rt.ContractViolation as e:
                msg = str(e)
            except _CaseTimeout:
                msg = f"[hang] the real code did not return within {_case_timeout():.0f}s on this case (deadlock / endless loop)"
            except Exception as e:  # noqa: BLE001
                # the real code raised on an admissible input of the scope: the specified result was not produced
                import traceback
                tb = traceback.extract_tb(e.__traceback__)
                where = next((f"{f.filename.split('black_it/')[-1]}:{f.lineno}" for f in reversed(tb)
                              if "black_it/" in f.filename), "?")
                msg = f"unexpected {type(e).__name__}: {e} (raised at {where})"
            for k_, v_ in list(case.items()) if isinstance(case, dict) else []:
                if isinstance(k_, str) and k_.startswith("$stat_"):
                    self.stats[k_[6:]] = self.stats.get(k_[6:], 0) + v_
            if msg:
                msg = str(msg)
                tag = msg[1:msg.index("]")] if msg.startswith("[") and "]" in msg else ""
                if tag in seen_tags and tag:
                    continue  # one representative per classified failure class
                seen_tags.add(tag)
                fails.append({"case": enc(case), "message": msg[:500], "tag": tag})
                if tag == "hang":
                    break       # decisive, and the interrupted code may have left threads / queues in any state
                if len([f for f in fails if not f["tag"]]) >= 3:
                    break
        res = {"cases": n, "failures": fails}
        if self.stats:
            res["stats"] = dict(self.stats)
        return res

    def replay(self, reg, failure):
        case = dec(failure["case"])
        try:
            return self.check(reg, case)
        except rt.ContractViolation as e:
            return str(e)
        except Exception as e:  # noqa: BLE001
            return f"unexpected {type(e).__name__}: {e}"


def contract_check(key, build=None):
    """check-function evaluating the executable sidecar contract of `key` on the real function."""
    def check(reg, case):
        func, cls = rt.resolve(key)
        selfv = build(case) if build else None
        kwargs = {k: v for k, v in case.items() if not k.startswith("$")}
        status, res = rt.check_call(reg, key, func, selfv, kwargs)
        return None
    return check


# ------------------------------------------------------------------------------------------------ value alphabets

def ulp_neighbours(x):
    return [np.nextafter(x, -np.inf), x, np.nextafter(x, np.inf)]


SCALES = [1.0, 1e-9, 1e5, 1e12]


# ================================================================================================ C17

def _exact_nearest_ok(grid, v, r):
    """r is an element of grid at minimal EXACT distance from v (rational arithmetic)."""
    if not any(r == g for g in grid):
        return f"result {r!r} is not an element of the grid"
    fv, fr = Fraction(float(v)), Fraction(float(r))
    d = abs(fv - fr)
    for g in grid:
        if abs(fv - Fraction(float(g))) < d:
            # classify: do the two distances coincide once computed in float64 (the code's own arithmetic)?
            tie = abs(float(v) - float(r)) == abs(float(v) - float(g)) and grid[0] <= v <= grid[-1]
            tag = "[float-tie-inside-range] " if tie else ""
            return f"{tag}grid element {g!r} is strictly closer to {v!r} than the result {r!r}"
    return None


def _grids(tier, rnd):
    sizes = [1, 2, 3, 5, 11] if tier == "quick" else [1, 2, 3, 4, 5, 7, 11, 50, 200]
    for n in sizes:
        for scale in SCALES:
            for lo in (0.0, -3.0 * scale, 7.0 * scale):
                yield lo + scale * np.arange(n, dtype=float)                      # uniform
                if n >= 3:
                    g = np.sort(lo + scale * np.cumsum(np.array([rnd.choice([0.5, 1.0, 2.5, 4.0]) for _ in range(n)])))
                    yield g                                                     # non-uniform
                    u = np.linspace(g[0], g[-1], n)                              # same ends and size, uniform
                    yield u
                    g2 = g.copy()
                    g2[1:-1] = np.sort(g[0] + (g[-1] - g[0]) * np.array(sorted(rnd.random() for _ in range(n - 2))))
                    yield g2                                                    # same ends and size, other interior
                if n >= 4:
                    yield _semi_regular(rnd, n, lo, scale)                      # first step = mean step, irregular inside


def _semi_regular(rnd, n, lo, scale):
    """A NON-uniform grid whose first spacing equals its mean spacing (an O(1) look at the ends and the first step takes
    it for evenly spaced): the uniform grid with its interior points from index 2 on displaced."""
    g = lo + scale * np.arange(n, dtype=float)
    for k in range(2, n - 1):
        g[k] += scale * rnd.choice([-0.45, -0.3, 0.3, 0.45])
    return np.sort(g)


def _probe_values(grid, rnd):
    vals = []
    for g in grid[: min(len(grid), 12)]:
        vals += ulp_neighbours(g)
    for a, b in zip(grid[:11], grid[1:12]):
        m = (a + b) / 2
        vals += ulp_neighbours(m)
    span = (grid[-1] - grid[0]) or 1.0
    vals += [grid[0] - span, grid[-1] + span, grid[0] - 1e25, grid[-1] + 1e25, -1e300, 1e300, 0.0]
    vals += [grid[0] + span * rnd.random() for _ in range(5)]
    return np.array(vals, dtype=float)


def _c17_cases(tier, seed):
    rnd = random.Random(seed)
    for g in _grids(tier, rnd):
        yield {"sorted_array": g, "values": _probe_values(g, rnd)}


def _c17_check(reg, case):
    from black_it.utils.base import get_closest
    g, v = case["sorted_array"], case["values"]
    g0, v0 = g.copy(), v.copy()
    r = get_closest(g, v)
    if r.shape != v.shape:
        return f"shape {r.shape} != {v.shape}"
    if not (np.array_equal(g, g0) and np.array_equal(v, v0)):
        return "an input array was modified"
    for x, y in zip(v, r):
        msg = _exact_nearest_ok(g, x, y)
        if msg:
            return msg
    r2 = get_closest(g, r)
    if not np.array_equal(r, r2):
        return "snapping is not idempotent"
    return None


StandIn("C17/get_closest", "C17",
        "grids of sizes {1,2,3,5,11} x 4 scales x 3 offsets x {uniform, non-uniform, same-ends variants}; values: every "
        "grid element, mid-point and +-1ulp neighbours, out-of-range incl. 1e25/1e300; exact rational distances",
        "as quick with grid sizes up to 200", _c17_cases, _c17_check)


def _c17d_cases(tier, seed):
    rnd = random.Random(seed + 1)
    gl = list(_grids("quick", rnd))
    nc = [1, 2, 3] if tier == "quick" else [1, 2, 3, 4, 6]
    for d in nc:
        for rep in range(6 if tier == "quick" else 30):
            grids = [gl[rnd.randrange(len(gl))] for _ in range(d)]
            if d >= 2 and rep % 2 == 0:
                # nearly equal grids in neighbouring columns (relative 1e-6 / tiny absolute scale)
                base = grids[0]
                grids[1] = base * (1 + 1e-6) + (1e-9 if abs(base[0]) < 1e-6 else 0.0) if len(base) > 1 else base + 1e-9
                if rep % 4 == 0:
                    grids[0] = np.array([1e-9, 2e-9, 3e-9, 4e-9])
                    grids[1] = np.array([2e-9, 4e-9, 6e-9, 8e-9])
            if d >= 2 and rep % 2 == 1:
                # different grids that agree in first element, last element and length (only the interior differs)
                base = next(g for g in gl[rnd.randrange(len(gl)):] + gl if len(g) >= 4)
                for c in range(d):
                    g2 = base.copy()
                    g2[1:-1] = np.sort(base[0] + (base[-1] - base[0]) * np.array(sorted(rnd.random() for _ in range(len(base) - 2))))
                    grids[c] = g2 if c else base
            if d >= 2 and rep % 6 == 1:
                # every entry is an element of SOME column's grid, but not of its own
                ga, gb = np.array([0.0, 1.0, 2.0, 3.0]), np.array([0.0, 0.5, 1.0, 1.5])
                grids = [ga, gb] + [ga] * (d - 2)
                data = np.array([[0.5, 1.0] + [1.0] * (d - 2), [1.5, 0.0] + [3.0] * (d - 2), [1.0, 3.0] + [0.0] * (d - 2)])
                yield {"data": data, "param_grid": grids}
                continue
            if rep % 3 == 2:
                for c in range(d):
                    grids[c] = _semi_regular(rnd, rnd.choice([4, 5, 9]), rnd.choice([0.0, -3.0, 7.0]), rnd.choice(SCALES))
            rows = rnd.choice([1, 2, 5])
            data = np.column_stack([rnd.choice(list(_probe_values(g, rnd))) * np.ones(rows) if rows == 1 else
                                    np.array([rnd.choice(list(_probe_values(g, rnd))) for _ in range(rows)])
                                    for g in grids]).astype(float).reshape(rows, d)
            yield {"data": data, "param_grid": grids}


def _c17d_check(reg, case):
    from black_it.utils.base import digitize_data
    data, grids = case["data"], case["param_grid"]
    d0 = data.copy()
    r = digitize_data(data, grids)
    if r.shape != data.shape:
        return f"shape {r.shape} != {data.shape}"
    if r is data or not np.array_equal(d0, data):
        return "input data was modified / aliased"
    for c in range(data.shape[1]):
        for x, y in zip(data[:, c], r[:, c]):
            msg = _exact_nearest_ok(grids[c], x, y)
            if msg:
                if msg.startswith("["):
                    tag, rest = msg.split("] ", 1)
                    return f"{tag}] column {c}: {rest}"
                return f"column {c}: {msg}"
    return None


StandIn("C17/digitize_data", "C17",
        "1-3 columns, 6 random line-ups of the get_closest grids per column count incl. nearly-equal neighbouring grids and "
        "grids that agree in both end-points and length but not in between; "
        "1/2/5 rows", "1-6 columns, 30 line-ups", _c17d_cases, _c17d_check)


# ================================================================================================ C12

def _rows(alphabet, d):
    return [np.array(t, dtype=float) for t in itertools.product(alphabet, repeat=d)]


def _isdup_oracle(new, old):
    out = []
    for p in range(len(new)):
        dup = any(q != p and np.array_equal(new[q], new[p]) for q in range(len(new))) or \
            any(np.array_equal(old[h], new[p]) for h in range(len(old)))
        if dup:
            out.append(p)
    return out


def _c12f_cases(tier, seed):
    rnd = random.Random(seed)
    alph = [[0.0, 1.0], [5e5, 5e5 + 1, 5e5 + 2], [1e-9, 2e-9, 1.0], [1e15, 1e15 + 2, -1e15]]
    for d in (1, 2):
        for A in alph:
            rows = _rows(A, d)
            maxn = 3 if tier == "quick" else 4
            for n_old in range(0, maxn + 1):
                for n_new in range(0, maxn + 1):
                    reps = 6 if tier == "quick" else 30
                    for _ in range(reps):
                        old = np.array([rows[rnd.randrange(len(rows))] for _ in range(n_old)]).reshape(n_old, d)
                        new = np.array([rows[rnd.randrange(len(rows))] for _ in range(n_new)]).reshape(n_new, d)
                        yield {"new_points": new, "existing_points": old}


def _c12f_check(reg, case):
    from black_it.samplers.base import BaseSampler
    new, old = case["new_points"], case["existing_points"]
    n0, o0 = new.copy(), old.copy()
    res = BaseSampler.find_and_get_duplicates(new, old)
    if not (np.array_equal(new, n0) and np.array_equal(old, o0)):
        return "inputs modified"
    exp = _isdup_oracle(new, old)
    got = [int(x) for x in res]
    if sorted(got) != exp:
        return f"reported positions {sorted(got)} but the repeated positions are {exp}"
    if len(set(got)) != len(got):
        return f"a position is reported twice: {got}"
    return None


StandIn("C12/find_and_get_duplicates", "C12",
        "dims 1-2, four 2-3 value alphabets (unit, 5e5+k, 1e-9 scale, 1e15+k), 0-3 history rows x 0-3 new rows, "
        "6 seeded draws per shape", "0-4 x 0-4 rows, 30 draws per shape", _c12f_cases, _c12f_check)


def _scripted_sampler(script, batch_size, passes, dims):
    from black_it.samplers.base import BaseSampler

    class Scripted(BaseSampler):
        def __init__(self):
            super().__init__(batch_size, random_state=0, max_deduplication_passes=passes)
            self.calls = []
            self.pos = 0

        def sample_batch(self, batch_size, search_space, existing_points, existing_losses):  # noqa: ARG002
            self.calls.append(batch_size)
            out = np.array(script[self.pos:self.pos + batch_size], dtype=float).reshape(batch_size, dims)
            self.pos += batch_size
            return out
    return Scripted()


def _c12s_cases(tier, seed):
    rnd = random.Random(seed + 2)
    n = 150 if tier == "quick" else 1500
    for _ in range(n):
        dims = rnd.choice([1, 2])
        k = rnd.choice([1, 2, 3, 4])
        vals = rnd.choice([2, 3, 5])
        passes = rnd.randrange(0, 7)
        n_old = rnd.randrange(0, 5)
        old = np.array([[float(rnd.randrange(vals)) for _ in range(dims)] for _ in range(n_old)]).reshape(n_old, dims)
        script = [[float(rnd.randrange(vals)) for _ in range(dims)] for _ in range(k * (passes + 2))]
        yield {"dims": dims, "batch_size": k, "passes": passes, "existing_points": old, "script": script}


def _c12s_check(reg, case):
    dims, k, passes, old, script = (case["dims"], case["batch_size"], case["passes"], case["existing_points"],
                                    case["script"])
    s = _scripted_sampler(script, k, passes, dims)
    old0 = old.copy()
    losses = np.zeros(len(old))
    res = s.sample(None, old, losses)
    if not np.array_equal(old, old0):
        return "history modified"
    # reference semantics written from the property statement
    pos = 0
    cur = [list(r) for r in script[pos:pos + k]]
    pos += k
    asked = [k]
    redraws = 0
    for _n in range(passes):
        dups = _isdup_oracle(np.array(cur, dtype=float).reshape(len(cur), dims), old)
        if not dups:
            break
        new = script[pos:pos + len(dups)]
        pos += len(dups)
        asked.append(len(dups))
        redraws += 1
        # substitution: the multiset of redrawn rows replaces the repeated positions, other rows untouched
        for j, p in enumerate(sorted(dups)):
            cur[p] = None
        exp_untouched = [(p, r) for p, r in enumerate(cur) if r is not None]
        got_now = None  # order of substitution among repeated positions is an implementation detail
        cur_known = cur
        break_after = False
        # we cannot know the position order used by the implementation: compare as multisets on the repeated slots
        cur = _subst_multiset(cur_known, new)
    if s.calls != asked:
        return f"generator was asked for {s.calls}, expected {asked}"
    if res.shape != (k, dims):
        return f"shape {res.shape}"
    return _compare_with_reference(script, k, passes, dims, old, res)


def _subst_multiset(cur, new):
    out, it = [], iter(new)
    for r in cur:
        out.append(list(next(it)) if r is None else r)
    return out


def _compare_with_reference(script, k, passes, dims, old, res):
    """Replay the spec with the SAME position order the real duplicate finder reports (it is part of the observable
    behaviour only through the multiset), checking: untouched rows identical, repeated slots = the redraw multiset."""
    pos = 0
    cur = np.array(script[pos:pos + k], dtype=float).reshape(k, dims)
    pos += k
    for _n in range(passes):
        dups = _isdup_oracle(cur, old)
        if not dups:
            break
        new = np.array(script[pos:pos + len(dups)], dtype=float).reshape(len(dups), dims)
        pos += len(dups)
        # all assignments of the redraw rows to the repeated slots are admissible; pick the one matching `res`
        # lazily: we only track the multiset on repeated slots
        nxt = cur.copy()
        remaining = [tuple(r) for r in new]
        for p in dups:
            nxt[p] = np.nan
        cur = nxt
        cur_slots = dups
        # fill deterministically when |dups| == 1 or all redraw rows equal; else defer to the result
        for p in cur_slots:
            cand = tuple(res[p]) if _n == passes - 1 or True else None
            if cand in remaining and not np.isnan(cur[p]).any() is False:
                pass
        # choose assignment consistent with the real result where possible, otherwise arbitrary
        for p in cur_slots:
            pick = None
            for r in remaining:
                pick = r
                break
            cur[p] = pick
            remaining.remove(pick)
    # final comparison as multisets per "slot class": exact equality is demanded when no ambiguity arose
    ref_dups = _isdup_oracle(cur, old)
    got_dups = _isdup_oracle(res, old)
    if sorted(map(tuple, cur.tolist())) != sorted(map(tuple, res.tolist())):
        return f"returned multiset {res.tolist()} differs from first draw with repeats substituted {cur.tolist()}"
    return None


StandIn("C12/sample-scripted", "C12",
        "150 seeded scripted generators: dims 1-2, batch 1-4, 2-5 distinct values (forcing collisions), budgets 0-6, "
        "0-4 history rows; oracle: reference semantics from the property (asked sizes, shape, multiset)",
        "1500 seeded scripts", _c12s_cases, _c12s_check)


# ================================================================================================ C15

LATTICE = [-2.0, -1e-9, 0.0, 1e-9, 0.5, 1.0, 3.0, 1e12]


def _c15_cases(tier, seed):
    rnd = random.Random(seed)
    # malformed outer shapes
    for nb in (0, 1, 3):
        yield {"parameters_bounds": [[0.0, 1.0]] * nb, "parameters_precision": [0.1, 0.1]}
    yield {"parameters_bounds": [[0.0], [1.0, 2.0]], "parameters_precision": [0.1]}
    yield {"parameters_bounds": [[0.0, 1.0], [1.0]], "parameters_precision": [0.1]}
    yield {"parameters_bounds": [[0.0, 1.0], [1.0, 2.0]], "parameters_precision": [0.1]}
    yield {"parameters_bounds": [[0.0], [1.0]], "parameters_precision": [0.1, 0.2]}
    one = [(l, u, p) for l in LATTICE for u in LATTICE for p in LATTICE]
    for (l, u, p) in one:
        yield {"parameters_bounds": [[l], [u]], "parameters_precision": [p]}
    # one-decimal specifications whose precision is (nearly) the whole range: `precision > upper - lower` is decided in
    # doubles exactly as written (an algebraically equal rearrangement rounds differently)
    dec = [x / 10 for x in range(-30, 31, 3)]
    for l in dec:
        for u in dec:
            if u > l:
                for p_ in (round(u - l, 1), round(u - l - 0.1, 1), round(u - l + 0.1, 1), 2.1, 0.3):
                    if p_ > 0:
                        yield {"parameters_bounds": [[l], [u]], "parameters_precision": [p_]}
    yield {"parameters_bounds": [[1e20], [1e20 + 16384]], "parameters_precision": [20000.0]}
    n2 = 400 if tier == "quick" else 6000
    for _ in range(n2):
        d = rnd.choice([2, 3])
        t = [rnd.choice(one) for _ in range(d)]
        yield {"parameters_bounds": [[x[0] for x in t], [x[1] for x in t]], "parameters_precision": [x[2] for x in t]}


StandIn("C15/_check_bounds", "C15",
        "value lattice {-2,-1e-9,0,1e-9,.5,1,3,1e12}: exhaustive for 1 parameter (512), one-decimal bounds in [-3, 3] with "
        "precisions at / next to the range (the comparison is decided in doubles as written), 400 seeded draws for 2-3 "
        "parameters, 7 malformed outer shapes; oracle: executable sidecar contract",
        "exhaustive for 1 parameter, 6000 seeded draws for 2-3 parameters", _c15_cases,
        contract_check("black_it/search_space.py::SearchSpace._check_bounds"))


def _c15g_cases(tier, seed):
    rnd = random.Random(seed + 5)
    n = 300 if tier == "quick" else 5000
    nice = [(0.0, 1.0, 0.1), (0.0, 0.3, 0.1), (0.0, 0.7, 0.1), (0.0, 0.03, 0.01), (-1.0, 1.0, 0.25), (0.0, 1.0, 0.3),
            (2.0, 10.0, 2.0), (0.0, 100.0, 1.0), (-5.0, 5.0, 0.01), (1e6, 1e6 + 10, 0.5), (0.0, 1e-3, 1e-4),
            (0.0, 10.0, 1e-4),
            # upper bound exactly 0, negative ranges, large upper bounds (a tolerance relative to |upper| fails here)
            (-1.0, 0.0, 0.25), (-1.0, 0.0, 0.5), (-0.6, 0.0, 0.2), (-3.0, -1.0, 0.5), (0.0, 999999.95, 10.0),
            (0.0, 1e6, 250.0), (5e5, 1e6 - 0.05, 10.0)]
    for t in nice:
        yield {"lo": [t[0]], "hi": [t[1]], "pr": [t[2]]}
    for _ in range(n):
        d = rnd.choice([1, 2, 3, 4])
        lo, hi, pr = [], [], []
        for _k in range(d):
            scale = 10 ** rnd.uniform(-3, 4)
            a = rnd.uniform(-1, 1) * scale
            steps = rnd.randint(1, 2000)
            p = scale * rnd.choice([1.0, 0.1, 0.01, 0.3, 0.7, 2.0]) / 10
            if rnd.random() < 0.5:
                b = a + steps * p            # range is (nominally) a multiple of the precision
            else:
                b = a + (steps + rnd.random()) * p
            if p > b - a or p < 1e-6 * 1.01:
                continue
            lo.append(a); hi.append(b); pr.append(p)
        if lo:
            yield {"lo": lo, "hi": hi, "pr": pr}
    # many parameters: the size is a product of the grid lengths (python int, unbounded)
    yield {"lo": [0.0] * 10, "hi": [100.0] * 10, "pr": [1.0] * 10}
    yield {"lo": [0.0] * 4, "hi": [1e5] * 4, "pr": [1.0] * 4}


def _c15g_check(reg, case):
    from black_it.search_space import SearchSpace
    lo, hi, pr = case["lo"], case["hi"], case["pr"]
    s = SearchSpace([lo, hi], pr, verbose=False)
    if s.dims != len(pr):
        return "dims"
    size = 1
    for i, g in enumerate(s.param_grid):
        n = len(g)
        size *= n
        if n < 1 or g[0] != lo[i]:
            return f"grid {i} does not start at the lower bound"
        # evenly spaced: lower + k*precision up to rounding of one multiplication/addition
        k = np.arange(n)
        if not np.allclose(g, lo[i] + k * pr[i], rtol=0, atol=8 * n * np.finfo(float).eps * max(abs(lo[i]), abs(hi[i]), 1.0)):
            return f"grid {i} is not lower + k*precision"
        # end-point rule (exact rational arithmetic on the given doubles, 1e-7 tolerance as documented)
        L, U, P = Fraction(lo[i]), Fraction(hi[i]), Fraction(pr[i])
        tol = Fraction(1, 10 ** 7)
        kmax = (U + tol - L) / P
        exp_n = math.ceil(kmax)  # number of k >= 0 with L + k*P < U + tol
        if abs(exp_n - n) > 0 and abs(kmax - round(kmax)) > Fraction(1, 10 ** 6):
            return f"grid {i}: {n} points, expected {exp_n} (lower={lo[i]}, upper={hi[i]}, precision={pr[i]})"
        if abs(exp_n - n) > 1:
            return f"grid {i}: {n} points, expected about {exp_n}"
        # "the bound itself when the range is a multiple of the precision" (in decimal terms, as a user writes it)
        q = (hi[i] - lo[i]) / pr[i]
        if abs(q - round(q)) < 1e-9 and abs(g[-1] - hi[i]) > 1e-7 + 1e-9 * abs(hi[i]):
            return f"grid {i} ends at {g[-1]!r}, not at the upper bound {hi[i]!r} although range/precision = {q!r}"
        if g[-1] > hi[i] + 1e-7 + 4 * np.finfo(float).eps * abs(hi[i]):
            return f"grid {i} exceeds the upper bound by more than the tolerance"
    if s.space_size != size or not isinstance(s.space_size, int):
        return f"space_size {s.space_size!r} != product of grid lengths {size}"
    return None


StandIn("C15/grid", "C15",
        "19 hand-picked (lower, upper, precision) incl. 0.3/0.1, 0.7/0.1, 0.03/0.01, upper bound exactly 0, negative ranges, "
        "upper bounds near 1e6; 300 seeded specs of 1-4 parameters, "
        "scales 1e-3..1e4, up to 2000 steps, precision >= 1e-6; two many-parameter specs (size > 2^63); oracle: grid "
        "start/spacing/end-point rule in exact rationals, size == product",
        "5000 seeded specs", _c15g_cases, _c15g_check)


StandIn("C03/grid-within-bounds", "C03", "same specs as C15/grid: the grid every sampler snaps onto never exceeds the "
        "upper bound by more than the 1e-7 tolerance", "5000 seeded specs", _c15g_cases, _c15g_check)


# ================================================================================================ C19

def _mk_agent(case):
    from black_it.schedulers.rl.agents.epsilon_greedy import MABEpsilonGreedy
    a = MABEpsilonGreedy(n_actions=case["$n"], alpha=case["$alpha"], eps=case["$eps"], initial_values=case["$init"],
                         random_state=case["$seed"])
    a.Q = list(case["$Q"]) if not isinstance(a.Q, np.ndarray) else np.array(case["$Q"], dtype=a.Q.dtype)
    a.actions_count = list(case["$cnt"]) if not isinstance(a.actions_count, np.ndarray) else np.array(case["$cnt"])
    return a


def _c19_learn_cases(tier, seed):
    rnd = random.Random(seed)
    n = 300 if tier == "quick" else 5000
    for _ in range(n):
        k = rnd.randint(1, 6)
        init = rnd.choice([0.0, 1.0, 5, 0, 1, -2.5])
        yield {"$n": k, "$alpha": rnd.choice([-1, 0.1, 0.5, 1.0]), "$eps": rnd.choice([0.0, 0.3, 1.0]),
               "$init": init, "$seed": rnd.randrange(100),
               "$Q": [rnd.choice([init, rnd.uniform(-2, 2), 0.25]) for _ in range(k)],
               "$cnt": [rnd.randrange(0, 4) for _ in range(k)],
               "state": 0, "action": rnd.randrange(k), "reward": rnd.choice([0.0, 0.5, 1.0, rnd.uniform(-1, 1)]),
               "next_state": 0}


StandIn("C19/learn", "C19", "300 seeded agent states (1-6 actions, int and float initial values, alpha in {-1,.1,.5,1})",
        "5000 seeded agent states", _c19_learn_cases,
        contract_check("black_it/schedulers/rl/agents/epsilon_greedy.py::MABEpsilonGreedy.learn", _mk_agent))


def _c19_seq_cases(tier, seed):
    rnd = random.Random(seed + 3)
    n = 60 if tier == "quick" else 600
    for _ in range(n):
        k = rnd.randint(1, 5)
        yield {"k": k, "alpha": rnd.choice([-1, 0.2, 1.0]), "eps": rnd.choice([0.0, 0.0, 0.4, 1.0]),
               "init": rnd.choice([0.0, 1, 0, 2.5]), "seed": rnd.randrange(50),
               "rewards": [rnd.choice([0.0, 0.0, 0.5, 1.0, rnd.random()]) for _ in range(rnd.randint(1, 25))]}


def _c19_seq_check(reg, case):
    """Whole histories: update rule against an independent float replay, valid indices, greedy at eps 0, determinism."""
    from black_it.schedulers.rl.agents.epsilon_greedy import MABEpsilonGreedy
    runs = []
    for _rep in range(2):
        np.random.seed(_rep)  # a dependence on the global RNG shows up as a difference between the two replays
        a = MABEpsilonGreedy(case["k"], case["alpha"], case["eps"], case["init"], random_state=case["seed"])
        q = [float(case["init"])] * case["k"]
        cnt = [0] * case["k"]
        acts = []
        for r in case["rewards"]:
            act = a.policy(0)
            if not (isinstance(act, int) and 0 <= act < case["k"]):
                return f"policy returned {act!r}"
            if case["eps"] == 0 and float(a.Q[act]) != max(float(x) for x in a.Q):
                return f"eps=0 but action {act} is not of maximal estimate {list(a.Q)}"
            a.learn(0, act, r, 0)
            cnt[act] += 1
            step = 1 / cnt[act] if case["alpha"] == -1 else case["alpha"]
            q[act] = q[act] + step * (r - q[act])
            if [float(x) for x in a.Q] != q:
                return f"estimates {list(a.Q)} differ from the update rule {q}"
            if [int(x) for x in a.actions_count] != cnt:
                return f"counts {list(a.actions_count)} != {cnt}"
            acts.append(act)
        runs.append(acts)
    if runs[0] != runs[1]:
        return f"same seed and rewards, different choices: {runs}"
    return None


StandIn("C19/histories", "C19",
        "60 seeded (agent, reward sequence of 1-25 steps) pairs, each replayed twice under different global-RNG states",
        "600 pairs", _c19_seq_cases, _c19_seq_check)


def _c19_env_cases(tier, seed):
    rnd = random.Random(seed + 4)
    n = 100 if tier == "quick" else 2000
    for _ in range(n):
        if rnd.random() < 0.3:
            # losses need not be positive (a log-likelihood): zero and negative references
            yield {"first": rnd.choice([0.0, -1.0, -2.5, 3.0]),
                   "losses": [rnd.choice([0.0, -1.0, -2.0, -0.5, 1.0, -7.0, 4.0]) for _ in range(rnd.randint(1, 8))]}
            continue
        if rnd.random() < 0.25:
            # tiny relative improvements and losses of tiny magnitude are improvements like any other
            yield {"first": rnd.choice([2.0, 5e-9]),
                   "losses": [rnd.choice([1.999998, 1.9999979, 1.99999789, 3.0, 5e-9, 4e-9, 1e-9, 1.0])
                              for _ in range(rnd.randint(1, 8))]}
            continue
        yield {"first": rnd.choice([10.0, 1.0, 0.5, 1e-3, 7.0]),
               "losses": [rnd.choice([12.0, 9.0, 8.0, 0.4, 0.2, 1e-4, 6.5, 20.0]) for _ in range(rnd.randint(1, 8))]}


def _c19_env_check(reg, case):
    from black_it.schedulers.rl.envs.mab import MABCalibrationEnv
    env = MABCalibrationEnv(nb_samplers=3)
    env._curr_best_loss = case["first"]  # noqa: SLF001
    best = case["first"]
    for l in case["losses"]:
        if best == 0 and l < best:
            return None     # O-19: an improvement on a reference of exactly 0 has no relative size (stated precondition)
        r = env.get_reward(None, l)
        exp = (best - l) / best if l < best else 0.0
        if l < best:
            best = l
        if r != exp:
            return f"reward {r!r} != {exp!r} for loss {l} against best so far"
        if env._curr_best_loss != best:  # noqa: SLF001
            return f"reference best {env._curr_best_loss!r} != {best!r}"  # noqa: SLF001
    return None


StandIn("C19/reward-histories", "C19", "100 seeded loss histories (improving and non-improving; 30% with zero / negative references) of 1-8 observations",
        "2000 histories", _c19_env_cases, _c19_env_check)


# ================================================================================================ replay drivers

def _replay_contract(reg, key, witness):
    """Generic: call the real function on the concretised counter-model under its executable contract."""
    c = reg["contracts"][key]
    func, cls = rt.resolve(key)
    kwargs = {}
    for name, t in c.params.items():
        if name in witness:
            kwargs[name] = rt.from_witness(witness[name], t)
    selfv = None
    if "self" in witness and cls is not None:
        selfv = cls.__new__(cls)
        for f, v in witness["self"].items():
            if f.startswith("$"):
                continue
            val = rt.from_witness(v)
            if isinstance(val, dict) and val.get("$obj") == "rng":
                val = np.random.default_rng(0)
            setattr(selfv, f, val)
    try:
        rt.check_call(reg, key, func, selfv, kwargs)
    except rt.ContractViolation as e:
        return f"{key}({ {k: (v.tolist() if hasattr(v, 'tolist') else v) for k, v in kwargs.items()} }) -> {e}"
    return None


for _k in ["black_it/search_space.py::SearchSpace._check_bounds",
           "black_it/schedulers/rl/envs/mab.py::MABCalibrationEnv.get_reward",
           "black_it/schedulers/rl/agents/epsilon_greedy.py::MABEpsilonGreedy.learn",
           "black_it/schedulers/rl/agents/epsilon_greedy.py::MABEpsilonGreedy.get_step_size",
           "black_it/schedulers/rl/agents/epsilon_greedy.py::MABEpsilonGreedy.policy",
           "black_it/schedulers/rl/agents/epsilon_greedy.py::MABEpsilonGreedy.reset",
           "black_it/utils/base.py::get_closest", "black_it/utils/base.py::digitize_data",
           "black_it/schedulers/round_robin.py::RoundRobinScheduler.update",
           "black_it/calibrator.py::Calibrator.check_convergence",
           "black_it/samplers/r_sequence.py::RSequenceSampler._r_sequence",
           "black_it/samplers/halton.py::halton",
           "black_it/loss_functions/base.py::BaseLoss._check_coordinate_weights",
           "black_it/loss_functions/base.py::BaseLoss._check_coordinate_filters",
           "black_it/calibrator.py::Calibrator.__validate_samplers_and_scheduler_constructor_args"]:
    REPLAY[_k] = _replay_contract
for _c in ["BoundsNotOfSizeTwoError", "BoundsOfDifferentLengthError", "BadPrecisionLengthError",
           "SameLowerAndUpperBoundError", "LowerBoundGreaterThanUpperBoundError", "PrecisionZeroError",
           "PrecisionGreaterThanBoundsRangeError"]:
    REPLAY[f"black_it/search_space.py::{_c}.__init__"] = None




# ================================================================================================ C13

def _trial_primes(n):
    out, k = [], 2
    while len(out) < n:
        if all(k % p for p in out if p * p <= k):
            out.append(k)
        k += 1
    return out


def _c13p_cases(tier, seed):
    rnd = random.Random(seed)
    top = 400 if tier == "quick" else 2000
    # small multi-object cases first: state shared between calculator objects must not matter
    yield {"calls": [[2], [5]]}           # a second, fresh calculator asks for more than the first one cached
    yield {"calls": [[3, 3], [1, 10], [40]]}
    yield {"calls": [[1, 2, 3, 5, 40, top, 7, 1]]}
    for _ in range(6 if tier == "quick" else 40):
        # several calculators alive in one process, interleaved requests (growing, shrinking, repeated)
        k = rnd.randint(1, 3)
        yield {"calls": [[rnd.choice([1, 2, 3, 5, 10, 40, rnd.randint(1, 120)]) for _ in range(rnd.randint(1, 6))]
                         for _ in range(k)]}


def _c13p_check(reg, case):
    from black_it.samplers.halton import _CachedPrimesCalculator
    ref = _trial_primes(max(max(c) for c in case["calls"]))
    calcs = [_CachedPrimesCalculator() for _ in case["calls"]]
    longest = max(len(c) for c in case["calls"])
    for step in range(longest):
        for ci, calls in enumerate(case["calls"]):
            if step < len(calls):
                n = calls[step]
                got = [int(x) for x in calcs[ci].get_n_primes(n)]
                if got != ref[:n]:
                    return f"calculator {ci}: get_n_primes({n}) = {got[:12]}..., expected {ref[:min(n, 12)]}..."
    return None


StandIn("C13/primes", "C13", "first 400 primes against trial division; 6 seeded interleavings of 1-3 calculators with "
        "growing / shrinking / repeated requests (1..120)", "first 2000 primes; 40 interleavings", _c13p_cases, _c13p_check)


def _ri_exact(n, b):
    x, f = Fraction(0), Fraction(1, b)
    while n > 0:
        n, r = divmod(n, b)
        x += r * f
        f /= b
    return x


def _c13h_cases(tier, seed):
    rnd = random.Random(seed)
    starts = list(range(0, 40)) + [2 ** k + d for k in range(3, 17) for d in (-3, -2, -1, 0, 1)] + \
        [3 ** k + d for k in range(2, 10) for d in (-2, -1, 0)] + [2 ** 16 + 2 ** 12 - 5, 65535, 65536]
    if tier != "quick":
        starts += [rnd.randrange(0, 2 ** 16 + 2 ** 12) for _ in range(400)]
    for s in starts:
        for d in ((1, 3) if tier == "quick" else (1, 2, 5, 40)):
            yield {"n_start": s, "size": rnd.choice([1, 2, 3, 4, 7]), "d": d}
    # batches that END exactly on / just after a power of each of the first 12 bases (the digit count changes there),
    # drawn with all 12 bases
    for p in _trial_primes(12):
        q = p * p
        while q < 2 ** 16 + 2 ** 12:
            for size in (1, 3):
                yield {"n_start": q - size, "size": size, "d": 12}      # last index of the batch is q
            yield {"n_start": q - 1, "size": 2, "d": 12}                # q is the first index
            q *= p


def _c13h_check(reg, case):
    from black_it.samplers.halton import halton
    bases = np.array(_trial_primes(case["d"]))
    out = halton(case["size"], bases, case["n_start"])
    if out.shape != (case["size"], case["d"]):
        return f"shape {out.shape}"
    for r in range(case["size"]):
        for c in range(case["d"]):
            exp = float(_ri_exact(case["n_start"] + 1 + r, int(bases[c])))
            if abs(out[r, c] - exp) > 1e-12:
                return (f"halton(size={case['size']}, n_start={case['n_start']})[{r},{c}] = {out[r, c]!r}, radical "
                        f"inverse of {case['n_start'] + 1 + r} in base {int(bases[c])} is {exp!r}")
    # two batches equal one batch
    a = halton(case["size"], bases, case["n_start"])
    b = halton(case["size"], bases, case["n_start"] + case["size"])
    ab = halton(2 * case["size"], bases, case["n_start"])
    if not np.array_equal(np.vstack((a, b)), ab):
        return f"two batches of {case['size']} from {case['n_start']} differ from one batch of {2 * case['size']}"
    return None


StandIn("C13/halton-function", "C13",
        "start indices 0-39, 2^k+{-3..1} (k=3..16), 3^k+{-2..0}, 2^16+2^12-5; sizes 1-7; 1 and 3 bases; batches ending / "
        "starting exactly on every power of the first 12 primes (12 bases); compared with "
        "exact rational radical inverses (tolerance 1e-12) and batch concatenation",
        "plus 400 seeded start indices; 1, 2, 5, 40 bases", _c13h_cases, _c13h_check)


def _phi(d):
    x = 2.0
    for _ in range(200):
        x = (1 + x) ** (1.0 / (d + 1))
    return x


def _c13s_cases(tier, seed):
    rnd = random.Random(seed + 13)
    n = 10 if tier == "quick" else 80
    for _ in range(n):
        yield {"kind": rnd.choice(["halton", "rseq"]), "dims": rnd.choice([1, 2, 3, 5]), "seed": rnd.randrange(10 ** 6),
               "bs": rnd.randint(1, 5), "sizes": [rnd.randint(1, 6) for _ in range(rnd.randint(1, 5))],
               "via_sample": rnd.random() < 0.3}


def _c13s_check(reg, case):
    from black_it.search_space import SearchSpace
    from runtime import e2e
    d = case["dims"]
    pr = 1e-5
    space = SearchSpace([[0.0] * d, [1.0] * d], [pr] * d, verbose=False)
    s = e2e.make_sampler(case["kind"], case["bs"], seed=case["seed"])
    twin = e2e.make_sampler(case["kind"], case["bs"], seed=case["seed"])
    r1 = e2e.make_sampler(case["kind"], case["bs"], seed=None)
    r2 = e2e.make_sampler(case["kind"], case["bs"], seed=12345)
    r1.random_state = case["seed"]   # a reset by seed erases whatever the constructor seed left behind
    r2.random_state = case["seed"]
    if (s._sequence_index != twin._sequence_index) or (r1._sequence_index != r2._sequence_index) \
            or not (20 <= s._sequence_index < 2 ** 16) or not (20 <= r1._sequence_index < 2 ** 16):  # noqa: SLF001
        return (f"start index not seed-determined in [20, 2^16): constructed {s._sequence_index}/"  # noqa: SLF001
                f"{twin._sequence_index}, reset {r1._sequence_index}/{r2._sequence_index}")  # noqa: SLF001
    if getattr(r1, "_sequence_start", 0.0) != getattr(r2, "_sequence_start", 0.0):
        return "R-sequence offset is not determined by the seed after a reset"
    idx = int(s._sequence_index)  # noqa: SLF001
    start = float(getattr(s, "_sequence_start", 0.0))
    empty_p, empty_l = np.zeros((0, d)), np.zeros(0)
    bases = _trial_primes(d)
    alpha = [(1 / _phi(d)) ** (c + 1) for c in range(d)]
    pts = []
    for size in case["sizes"]:
        if case["via_sample"]:
            out = s.sample(space, np.array(pts).reshape(len(pts), d) if pts else empty_p, np.zeros(len(pts)))
        else:
            out = s.sample_batch(size, space, empty_p, empty_l)
        for row in out:
            pts.append(row)
    for k, row in enumerate(pts):
        for c in range(d):
            if case["kind"] == "halton":
                exp = float(_ri_exact(idx + 1 + k, bases[c]))
            else:
                exp = (start + (idx + k) * alpha[c]) % 1
            # on this grid snapping moves a point by at most half a step
            dist = abs(row[c] - exp)
            if min(dist, 1 - dist if case["kind"] == "rseq" else dist) > pr / 2 + 1e-9:
                return (f"{case['kind']} point {k} coordinate {c} is {row[c]!r}; the sequence value for start index "
                        f"{idx} is {exp!r} (batch sizes {case['sizes']}, via_sample={case['via_sample']})")
    return None


StandIn("C13/sampler-sequences", "C13",
        "10 seeded sampler objects (Halton / R-sequence, 1-5 dims, grid step 1e-5): 1-5 successive draws of sizes 1-6 on "
        "one object (directly and through sample() with deduplication), compared point by point with the sequence "
        "continued from the seed-determined start; reset-by-seed twin", "80 objects", _c13s_cases, _c13s_check)

from runtime import scopes_e2e  # noqa: E402,F401  (registers the Calibrator-level stand-ins)
from runtime import scopes_loss  # noqa: E402,F401
from runtime import scopes_ckpt  # noqa: E402,F401
from runtime import scopes_rl  # noqa: E402,F401
from runtime import replay_ckpt  # noqa: E402,F401


def _replay_check_convergence(reg, key, witness):
    """Calibrator.check_convergence: the prover treats np.round as an uninterpreted function, so its counter-model need
    not be a NumPy fact; the real method is run under its executable contract (np_round = numpy's round) on the
    counter-model first and then on a battery around every rounding boundary k.5 * 10^-p."""
    msg = _replay_contract(reg, key, witness)
    if msg:
        return msg
    func, cls = rt.resolve(key)
    for p in range(0, 14):
        u = 10.0 ** (-p)
        for best in (0.0, 0.49 * u, 0.5 * u, 0.51 * u, 0.7 * u, 0.99 * u, 1.0 * u, 1.49 * u, 1.5 * u, 2.5 * u, -0.5 * u,
                     -0.7 * u, 3.0):
            for extra in ([], [5.0, 7.5], [best + 1.0]):
                losses = np.array(extra + [best], dtype=float)
                kw = {"losses_samp": losses, "n_sampled_params": len(losses), "convergence_precision": p}
                try:
                    rt.check_call(reg, key, func, None, kw)
                except rt.ContractViolation as e:
                    return f"check_convergence(losses={losses.tolist()}, n={len(losses)}, precision={p}) -> {e}"
                except TypeError:
                    return None
    return None


REPLAY["black_it/calibrator.py::Calibrator.check_convergence"] = _replay_check_convergence


def _replay_r_sequence(reg, key, witness):
    """RSequenceSampler._r_sequence on real sampler objects: seeds whose start index is far from / close to 2^16, batches of
    several sizes drawn one after the other - each call under the executable contract (shape, cursor advances by exactly
    the points drawn, offset unchanged)."""
    from black_it.samplers.r_sequence import RSequenceSampler
    func, _cls = rt.resolve(key)
    for seed in (0, 1, 1074, 2856, 4207, 5747):
        for dims in (1, 2):
            smp = RSequenceSampler(batch_size=2, random_state=seed)
            for nb in (1, 16, 1000, 16, 30000, 3):
                try:
                    rt.check_call(reg, key, func, smp, {"nb_samples": nb, "dims": dims})
                except rt.ContractViolation as e:
                    return f"RSequenceSampler(random_state={seed})._r_sequence({nb}, {dims}) after earlier draws -> {e}"
    return None


REPLAY["black_it/samplers/r_sequence.py::RSequenceSampler._r_sequence"] = _replay_r_sequence
