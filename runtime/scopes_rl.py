"""C10 bounded stand-in: systematic enumeration of thread interleavings of the REAL RL scheduler / agent exchange.

The two program threads (calibration side, agent side) are run under a cooperative controller: every shared access -
Queue.put / Queue.get on the two queues, reads and writes of RLScheduler._stopped, Thread.start / Thread.join - is a
yield point where the thread parks until the controller grants it a step.  A DFS over the controller's choices
enumerates every interleaving of those points (bounded by sessions x batches); a state with live threads and no enabled
one is a deadlock.  Nothing in /repo is edited: queues, flag and Thread are substituted from outside.
Labelled `bounded`; never counted as proved."""
from __future__ import annotations

import queue
import random
import threading

import numpy as np

from runtime.scopes import StandIn

STEP_TIMEOUT = 20.0


class Deadlock(Exception):
    pass


class Controller:
    def __init__(self, choices):
        self.choices = list(choices)
        self.trace = []          # (number of enabled threads, index chosen)
        self.lock = threading.Condition()
        self.waiting = {}        # thread ident -> (description, enabled_fn, event)
        self.live = set()
        self.aborted = False
        self.log = []

    def register(self, t):
        with self.lock:
            self.live.add(t)
            self.lock.notify_all()

    def finished(self, t):
        with self.lock:
            self.live.discard(t)
            self.lock.notify_all()

    def yield_point(self, desc, enabled=lambda: True):
        me = threading.current_thread()
        ev = threading.Event()
        with self.lock:
            if self.aborted:
                raise Deadlock("aborted")
            self.waiting[me] = (desc, enabled, ev)
            self.lock.notify_all()
        if not ev.wait(STEP_TIMEOUT * 3):
            raise Deadlock(f"thread parked for ever at {desc}")
        if self.aborted:
            raise Deadlock("aborted")

    def run(self, main_fn):
        """Run main_fn in a program thread under control; returns ('ok'|'deadlock'|'error', info)."""
        result = {}

        def body():
            try:
                result["value"] = main_fn()
            except Deadlock as e:
                result["deadlock"] = str(e)
            except BaseException as e:  # noqa: BLE001
                result["error"] = e
            finally:
                self.finished(threading.current_thread())
        t0 = threading.Thread(target=body, daemon=True)
        self.register(t0)
        t0.start()
        while True:
            with self.lock:
                ok = self.lock.wait_for(lambda: not self.live or all(t in self.waiting for t in self.live),
                                        timeout=STEP_TIMEOUT)
                if not self.live:
                    break
                if not ok:
                    self.aborted = True
                    for _d, _e, ev in self.waiting.values():
                        ev.set()
                    return "error", f"a thread neither reached a synchronisation point nor finished within {STEP_TIMEOUT}s"
                cands = sorted((t for t in self.live if self.waiting[t][1]()), key=lambda t: t.name)
                if not cands:
                    self.aborted = True
                    where = {t.name: self.waiting[t][0] for t in self.live}
                    for _d, _e, ev in self.waiting.values():
                        ev.set()
                    return "deadlock", f"every live thread is blocked: {where}"
                k = len(self.trace)
                c = self.choices[k] if k < len(self.choices) else 0
                c = min(c, len(cands) - 1)
                self.trace.append((len(cands), c))
                t = cands[c]
                desc, _en, ev = self.waiting.pop(t)
                self.log.append(f"{t.name}:{desc}")
                ev.set()
        if "error" in result:
            return "error", result["error"]
        if "deadlock" in result:
            return "deadlock", result["deadlock"]
        return "ok", result.get("value")


class CQueue:
    """Controlled FIFO with the interface the library uses (put / get)."""

    def __init__(self, ctl, name):
        self.ctl, self.name, self.items = ctl, name, []

    def put(self, x):
        self.ctl.yield_point(f"{self.name}.put")
        self.items.append(x)

    def get(self):
        self.ctl.yield_point(f"{self.name}.get", lambda: len(self.items) > 0)
        return self.items.pop(0)

    def qsize(self):
        return len(self.items)

    def empty(self):
        return not self.items

    def get_nowait(self):
        if not self.items:
            raise queue.Empty
        return self.items.pop(0)


def explore(make_run, max_schedules):
    """DFS over controller choices. make_run(ctl) -> (main_fn, check_fn). Yields (status, info, ctl)."""
    stack = [[]]
    n = 0
    while stack and n < max_schedules:
        choices = stack.pop()
        ctl = Controller(choices)
        main_fn, check_fn = make_run(ctl)
        status, info = ctl.run(main_fn)
        n += 1
        yield status, info, ctl, check_fn
        for k in range(len(choices), len(ctl.trace)):
            nen, c = ctl.trace[k]
            for alt in range(c + 1, nen):
                stack.append([x[1] for x in ctl.trace[:k]] + [alt])


# ------------------------------------------------------------------------------------------------ the system under test

def _make(ctl, case):
    import black_it.schedulers.rl.rl_scheduler as rlmod
    from black_it.schedulers.rl.agents.base import Agent
    from black_it.schedulers.rl.envs.mab import MABCalibrationEnv
    from black_it.samplers.halton import HaltonSampler
    from black_it.samplers.random_uniform import RandomUniformSampler

    class LogAgent(Agent):
        def __init__(self, actions):
            super().__init__(random_state=0)
            self.actions, self.k = list(actions), 0
            self.policies, self.learned = [], []

        def policy(self, state):  # noqa: ARG002
            a = self.actions[self.k % len(self.actions)]
            self.k += 1
            self.policies.append(int(a))
            return int(a)

        def learn(self, state, action, reward, next_state):  # noqa: ARG002
            self.learned.append((int(action), float(reward)))

    class CThread(threading.Thread):
        def __init__(self, *a, **k):
            super().__init__(*a, **k)
            self.daemon = True

        def start(self):
            ctl.yield_point("thread.start")
            ctl.register(self)
            super().start()

        def run(self):
            try:
                super().run()
            except Deadlock:
                pass
            finally:
                ctl.finished(self)

        def join(self, timeout=None):
            ctl.yield_point("thread.join", lambda: not self.is_alive() or self not in ctl.live)

    class FakeThreading:
        Thread = CThread

    class Instr(rlmod.RLScheduler):
        @property
        def _stopped(self):
            if threading.current_thread() in ctl.live:
                ctl.yield_point("read _stopped")
            return self.__dict__.get("_stopped_v", True)

        @_stopped.setter
        def _stopped(self, v):
            if threading.current_thread() in ctl.live:
                ctl.yield_point(f"write _stopped={v}")
            self.__dict__["_stopped_v"] = v
    samplers = [HaltonSampler(1, random_state=1), RandomUniformSampler(1, random_state=2)]
    env = MABCalibrationEnv(nb_samplers=2)
    env._out_queue = CQueue(ctl, "actions")   # noqa: SLF001
    env._in_queue = CQueue(ctl, "outcomes")   # noqa: SLF001
    agent = LogAgent(case["actions"])
    sched = Instr(samplers, agent, env, random_state=3)
    rlmod.threading = FakeThreading
    return sched, agent, env, samplers, rlmod


def _c10_cases(tier, seed):
    rnd = random.Random(seed + 10)
    shapes = [[1], [2], [3], [1, 1], [2, 1], [1, 2]] if tier == "quick" else \
        [[1], [2], [3], [1, 1], [2, 1], [1, 2], [2, 2], [1, 1, 1], [3, 2], [2, 1, 2], [3, 3, 3]]
    for sessions in shapes:
        for improving in (True, False):
            yield {"sessions": sessions, "improving": improving, "actions": [rnd.randrange(2) for _ in range(12)],
                   "max_schedules": 400 if tier == "quick" else 4000}


def _c10_check(reg, case):
    import threading as real_threading
    losses = [10.0, 8.0, 6.0, 5.0, 4.0, 3.0, 2.5, 2.0, 1.5, 1.0, 0.8, 0.5] if case["improving"] else \
        [5.0, 7.0, 5.0, 9.0, 6.0, 5.5, 8.0, 5.0, 7.0, 6.0, 9.0, 5.0]
    results = set()
    n_sched = 0

    def make_run(ctl):
        sched, agent, env, samplers, rlmod = _make(ctl, case)
        out = {"used": [], "rewards": []}

        def main():
            b = 0
            for nb in case["sessions"]:
                sched.start_session()
                try:
                    for _ in range(nb):
                        s = sched.get_next_sampler()
                        out["used"].append(next(i for i, x in enumerate(sched.samplers) if x is s))
                        prev_best = env._curr_best_loss   # noqa: SLF001
                        loss = losses[b % len(losses)]
                        b += 1
                        sched.update(b, np.array([[0.5]]), np.array([loss]), np.zeros((1, 1, 1, 1)))
                        out["rewards"].append((prev_best, loss))
                finally:
                    sched.end_session()
                out.setdefault("after_session", []).append((env._out_queue.qsize(), env._in_queue.qsize()))  # noqa: SLF001
            return out

        def check(value):
            try:
                return _judge(case, value, agent, losses)
            finally:
                rlmod.threading = real_threading
        return main, check
    for status, info, ctl, check in explore(make_run, case["max_schedules"]):
        n_sched += 1
        if status == "deadlock":
            import black_it.schedulers.rl.rl_scheduler as rlmod
            rlmod.threading = real_threading
            return f"[rl-protocol] deadlock in schedule #{n_sched}: {info}; trace tail {ctl.log[-8:]}"
        if status == "error":
            import black_it.schedulers.rl.rl_scheduler as rlmod
            rlmod.threading = real_threading
            return f"[rl-protocol] schedule #{n_sched}: {type(info).__name__}: {info}; trace tail {ctl.log[-8:]}"
        msg = check(info)
        if msg:
            return f"[rl-protocol] schedule #{n_sched} ({len(ctl.log)} steps): {msg}; trace tail {ctl.log[-8:]}"
        results.add(tuple(info["used"]))
    if len(results) > 1:
        return f"[rl-protocol] the sequence of samplers chosen depends on thread timing: {sorted(results)}"
    case["$stat_schedules_explored"] = n_sched
    return None


def _judge(case, out, agent, losses):
    used = out["used"]
    total = sum(case["sessions"])
    if len(used) != total:
        return f"{len(used)} batches for {total} requested"
    # batches chosen by the agent: all except the very first (bootstrap) batch of the scheduler's life
    chosen = used[1:]
    for a, q in out.get("after_session", []):
        if a or q:
            return f"messages left over when a session ended: {a} action(s), {q} outcome(s) in the queues"
    if len(agent.learned) != len(chosen):
        return (f"the agent learned {len(agent.learned)} times for {len(chosen)} batches it chose "
                f"(learned={agent.learned}, samplers used={used})")
    # reward of the k-th chosen batch: relative improvement of the best loss at that batch
    best = losses[0]
    exp = []
    for b in range(1, total):
        l = losses[b % len(losses)]
        r = (best - l) / best if l < best else 0.0
        if l < best:
            best = l
        exp.append((used[b], r))
    if [(a, round(r, 12)) for a, r in agent.learned] != [(a, round(r, 12)) for a, r in exp]:
        return f"learn calls {agent.learned} != (sampler that ran, reward of that batch) {exp}"
    return None


StandIn("C10/interleavings", "C10",
        "all interleavings of the synchronisation points (queue put/get, _stopped reads/writes, thread start/join) of the "
        "calibration thread and the agent thread, enumerated by DFS (cap 400 schedules per case) for session shapes "
        "[1],[2],[3],[1,1],[2,1],[1,2] x improving / non-improving losses with a scripted agent: learn exactly once per "
        "chosen batch with that batch's reward and sampler, no left-over message, no deadlock, timing-independent choices",
        "session shapes up to [3,3,3], cap 4000 schedules per case", _c10_cases, _c10_check)
