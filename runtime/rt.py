"""Runtime-contract layer (runs under /venv/bin/python: the REAL black_it is imported from $PYVC_REPO or /repo).

  rt.py replay <replay.json>                     replay a solver counter-model on the real function
  rt.py bounded <Cxx> --tier T --seed S --out F  bounded stand-ins / CPython cross-check of the SAME contract text

Nothing checked here is ever counted as proved.
"""
from __future__ import annotations

import ast
import copy
import importlib
import importlib.util
import json
import os
import sys
import time
import traceback
from pathlib import Path

VERIF = Path(__file__).resolve().parent.parent
REPO = os.environ.get("PYVC_REPO", "/repo")
sys.path.insert(0, REPO)
sys.path.insert(0, str(VERIF))

import numpy as np  # noqa: E402

from pyvc import api  # noqa: E402  (pure python, no z3 needed)


def load_sidecars():
    api.REG = {"contracts": {}, "classes": {}, "invariants": {}, "lemmas": {}, "specs": {}, "ghosts": {}, "stmts": {},
               "disk_schema": {}, "ghost_functions": {}}
    for p in sorted(Path(os.environ.get("PYVC_CONTRACTS") or (VERIF / "contracts")).glob("*.py")):
        spec = importlib.util.spec_from_file_location("contracts_" + p.stem, p)
        mod = importlib.util.module_from_spec(spec)
        spec.loader.exec_module(mod)
    return api.REG


# ------------------------------------------------------------------------------------------------ executable contracts

class NotExecutable(Exception):
    pass


class _Rewrite(ast.NodeTransformer):
    """old(X) -> X over the pre-copies; implies/ite -> lazy python; unbounded quantifiers -> NotExecutable."""

    def __init__(self, pre_names):
        self.pre_names = pre_names
        self.in_old = 0
        self.bound = []

    def visit_Lambda(self, node):
        self.bound.append({a.arg for a in node.args.args})
        node.body = self.visit(node.body)
        self.bound.pop()
        return node

    def visit_Name(self, node):
        if self.in_old and node.id in self.pre_names and not any(node.id in b for b in self.bound):
            return ast.copy_location(ast.Name("__pre_" + node.id, ast.Load()), node)
        if node.id == "ghost":
            raise NotExecutable("ghost state")
        return node

    def visit_Call(self, node):
        if isinstance(node.func, ast.Name):
            nm = node.func.id
            if nm == "old":
                self.in_old += 1
                inner = self.visit(node.args[0])
                self.in_old -= 1
                return inner
            if nm == "implies":
                a, b = self.visit(node.args[0]), self.visit(node.args[1])
                return ast.BoolOp(ast.Or(), [ast.UnaryOp(ast.Not(), a), b])
            if nm == "ite":
                c, a, b = (self.visit(x) for x in node.args)
                return ast.IfExp(c, a, b)
            if nm in ("forall", "exists") and len(node.args) == 1:
                raise NotExecutable("unbounded quantifier")
            if nm.startswith("__rng") or nm.startswith("spec_"):
                raise NotExecutable("uninterpreted spec function")
            if nm.startswith("disk_") or nm in ("closs", "mout", "filt", "rng_iter", "prime", "l1d", "_same_run_prefix",
                                                "exists_real", "upow"):
                raise NotExecutable("specification-only vocabulary (ghost disk / abstract callee values)")
        return self.generic_visit(node)


def _forall(rng, f):
    return all(f(j) for j in rng)


def _exists(rng, f):
    return any(f(j) for j in rng)


def compile_expr(src, pre_names):
    tree = ast.parse(src.strip(), mode="eval")
    tree = _Rewrite(pre_names).visit(tree)
    ast.fix_missing_locations(tree)
    return compile(tree, "<contract>", "eval")


def base_ns():
    return {"forall": _forall, "exists": _exists, "abs": abs, "len": len, "range": range, "isinstance": isinstance,
            "type": type, "np": np, "max": max, "min": min, "int": int, "float": float, "bool": bool,
            "hint": lambda *_a: True, "ediv": lambda a, b: a // b,
            "np_round": lambda x, p: float(np.round(x, int(p)))}


class ContractViolation(Exception):
    def __init__(self, clause, kind, info=""):
        super().__init__(f"{kind}: {clause} {info}")
        self.clause, self.kind, self.info = clause, kind, info


def check_call(reg, key, func, selfv, kwargs, stats=None):
    """Call the real function under its executable contract.  Returns (result | exception).
    Raises ContractViolation when a clause fires."""
    c = reg["contracts"][key]
    env = dict(kwargs)
    if selfv is not None:
        env["self"] = selfv
    pre = {"__pre_" + k: copy.deepcopy(v) for k, v in env.items()}
    pre_names = set(env)
    ns = base_ns()
    for cname in _class_names():
        ns[cname] = _class_names()[cname]
    ns.update(env)
    ns.update(pre)

    def ev(src):
        code = compile_expr(src, pre_names)
        return eval(code, ns)  # noqa: S307

    for name, (params, body) in list(reg["specs"].items()) + list(c.defs.items()):
        try:
            code = compile_expr(f"lambda {','.join(params)}: ({body})", pre_names)
            ns[name] = eval(code, ns)  # noqa: S307
        except NotExecutable:
            pass
    for r in c.requires:
        try:
            if not ev(r):
                return "precondition-false", None
        except NotExecutable:
            pass
    expected = None
    for ent in c.raises:
        try:
            if ev(ent["when"]):
                expected = ent
                break
        except NotExecutable:
            expected = "unknown"
            break
    args = dict(kwargs)
    try:
        res = func(selfv, **args) if selfv is not None else func(**args)
        exc = None
    except Exception as e:  # noqa: BLE001
        res, exc = None, e
    if stats is not None:
        stats["calls"] = stats.get("calls", 0) + 1
    if exc is not None:
        if expected == "unknown":
            return "raised", exc
        names = {type(exc).__name__} | {b.__name__ for b in type(exc).__mro__}
        if expected is None:
            if any(m in names for m in c.may_raise):
                return "raised", exc
            raise ContractViolation("no raises-clause applies", "unexpected-exception", repr(exc))
        ename = expected["exc"]
        if ename in ns and isinstance(ns[ename], type):
            ok = type(exc) is ns[ename]
        else:
            ok = ename in names or (ename in env and type(exc) is env[ename])
        if not ok:
            raise ContractViolation(f"expected {ename}", "wrong-exception", repr(exc))
        ns["exc"] = exc
        for e in expected.get("ensures", []):
            try:
                if not ev(e):
                    raise ContractViolation(e, "raise-payload", repr(exc.__dict__))
            except NotExecutable:
                pass
        return "raised", exc
    if expected not in (None, "unknown"):
        raise ContractViolation(f"expected {expected['exc']} but returned normally", "missing-exception")
    ns["result"] = res
    for e in c.ensures:
        try:
            ok = ev(e)
        except NotExecutable:
            continue
        if not ok:
            raise ContractViolation(e, "postcondition")
    # frame: parameters not listed in `modifies` are unchanged (arrays compared bit-wise)
    for k, v in kwargs.items():
        if any(m.strip().split("[")[0].split(".")[0] == k for m in c.modifies):
            continue
        if isinstance(v, np.ndarray):
            if not (v.shape == pre["__pre_" + k].shape and np.array_equal(v, pre["__pre_" + k], equal_nan=True)):
                raise ContractViolation(f"modifies: {k} was written", "frame")
    return "returned", res


def check_invariant(reg, cls_name, selfv):
    """Evaluate the executable class-invariant clauses of cls_name (and its bases) on a real object."""
    ns = base_ns()
    for cname in _class_names():
        ns[cname] = _class_names()[cname]
    ns["self"] = selfv
    for name, (params, body) in list(reg["specs"].items()):
        try:
            ns[name] = eval(compile_expr(f"lambda {','.join(params)}: ({body})", {"self"}), ns)  # noqa: S307
        except NotExecutable:
            pass
    names = [cls_name] + [b.__name__ for b in type(selfv).__mro__[1:]]
    for cn in names:
        spec = reg["classes"].get(cn)
        if spec is None:
            continue
        for inv in spec.invariant:
            try:
                ok = eval(compile_expr(getattr(inv, "clause", inv), {"self"}), ns)  # noqa: S307
            except NotExecutable:
                continue
            except Exception as e:  # noqa: BLE001
                raise ContractViolation(str(inv), "class-invariant", f"evaluation failed: {type(e).__name__}: {e}") from e
            if not ok:
                raise ContractViolation(str(inv), "class-invariant")


_CLS = {}


def _class_names():
    if not _CLS:
        try:
            import black_it.search_space as ss
        except ImportError:      # library-model self-test: the probe package has no such module
            _CLS["$none"] = object
            return _CLS
        for n in dir(ss):
            o = getattr(ss, n)
            if isinstance(o, type):
                _CLS[n] = o
        from black_it.schedulers.round_robin import RoundRobinScheduler
        _CLS["RoundRobinScheduler"] = RoundRobinScheduler
    return _CLS


def resolve(key):
    """'path.py::Class.method' -> (callable taking (self, **kw) or (**kw), class or None)."""
    path, _, qual = key.partition("::")
    modname = path[:-3].replace("/", ".")
    mod = importlib.import_module(modname)
    parts = qual.split(".")
    if len(parts) == 1:
        return getattr(mod, parts[0]), None
    cls = getattr(mod, parts[0])
    name = parts[1]
    if name.startswith("__") and not name.endswith("__"):
        name = f"_{parts[0]}{name}"
    raw = cls.__dict__.get(name)
    if isinstance(raw, staticmethod):
        return raw.__func__, None
    if isinstance(raw, classmethod):
        return (lambda **kw: raw.__func__(cls, **kw)), None
    return getattr(cls, name), cls


# ------------------------------------------------------------------------------------------------ witnesses

def from_witness(v, tstr=None):
    if isinstance(v, dict):
        if "$frac" in v:
            return v["float"]
        if "$approx" in v:
            return v["$approx"]
        if "$class" in v:
            n = v["$class"]
            import builtins
            return getattr(builtins, n, _class_names().get(n, Exception))
        if "$dict" in v:
            return {k: from_witness(x) for k, x in v["$dict"].items()}
        return v
    if isinstance(v, list):
        out = [from_witness(x) for x in v]
        if tstr and tstr.startswith("arr"):
            et = float if "real" in tstr else (bool if "bool" in tstr else int)
            nd = int(tstr[3])
            a = np.array(out, dtype=et)
            if a.ndim != nd:
                a = a.reshape((len(out),) + (0,) * (nd - 1)) if a.size == 0 else a
            return a
        return out
    return v


def main(argv):
    cmd = argv[1]
    reg = load_sidecars()
    if cmd == "replay":
        from runtime import scopes
        doc = json.load(open(argv[2]))
        key = doc.get("function")
        drv = scopes.REPLAY.get(key)
        if "bounded_standin" in doc:
            name = doc["bounded_standin"]
            fn = scopes.STANDINS_BY_NAME.get(name)
            if fn is None:
                print("no stand-in named", name)
                return 4
            msg = fn.replay(reg, doc["failure"])
            if msg:
                print("REPRODUCED", msg)
                return 0
            print("not reproduced")
            return 1
        if drv is None or doc.get("witness") is None:
            print(f"no replay driver for {key}")
            return 4
        try:
            msg = drv(reg, key, doc["witness"])
        except Exception:  # noqa: BLE001
            traceback.print_exc()
            return 2
        if msg:
            print("REPRODUCED on the real code:", msg)
            return 0
        print("counter-model did not reproduce on the real code")
        return 1
    if cmd == "bounded":
        from runtime import scopes
        prop = argv[2]
        tier, seed, out = "quick", 0, None
        i = 3
        while i < len(argv):
            if argv[i] == "--tier":
                tier = argv[i + 1]
            elif argv[i] == "--seed":
                seed = int(argv[i + 1])
            elif argv[i] == "--out":
                out = argv[i + 1]
            i += 2
        res = {"standins": []}
        rc = 0
        for s in scopes.STANDINS.get(prop, []):
            t0 = time.time()
            try:
                r = s.run(reg, tier, seed)
            except Exception:  # noqa: BLE001
                res["error"] = f"stand-in {s.name} crashed:\n{traceback.format_exc()[-1500:]}"
                rc = 3
                continue
            r["name"] = s.name
            r["label"] = "bounded"
            r["bound"] = s.bound(tier)
            r["time_s"] = round(time.time() - t0, 2)
            res["standins"].append(r)
            if r.get("failures"):
                rc = 1
        json.dump(res, open(out, "w"), indent=1, default=str)
        return rc
    return 2


if __name__ == "__main__":
    _rc = main(sys.argv)
    try:  # joblib's loky keeps idle workers (holding our stdout pipe) alive for 300 s: shut them down now
        from joblib.externals.loky import get_reusable_executor
        get_reusable_executor().shutdown(wait=True, kill_workers=True)
    except Exception:  # noqa: BLE001
        pass
    sys.stdout.flush()
    sys.stderr.flush()
    # a violation of C10/C11 can leave a non-daemon thread blocked for ever: never let that hang the checker
    os._exit(_rc if isinstance(_rc, int) else 0)
